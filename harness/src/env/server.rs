//! A real Routinator server (HTTP + RTR listeners on loopback, shared
//! history, notify sender) run inside the harness, plus minimal blocking
//! HTTP and RTR clients and the schedule controller for preemption points.

use std::collections::HashSet;
use std::io::{Read, Write};
use std::net::{SocketAddr, TcpListener, TcpStream};
use std::sync::{Arc, Condvar, Mutex};
use std::time::{Duration, Instant};
use routinator::config::Config;
use routinator::engine::Engine;
use routinator::metrics::RtrServerMetrics;
use routinator::payload::SharedHistory;
use routinator::slurm::LocalExceptions;
use rpki::rtr::server::NotifySender;

//------------ Gate: the schedule controller ----------------------------------

#[derive(Default)]
struct GateState {
    armed: HashSet<(String, String)>,
    parked: Vec<(String, String)>,
    release: Vec<(String, String)>,
    log: Vec<(String, String)>,
}

/// Parks threads at armed preemption points until released.
#[derive(Default)]
pub struct Gate {
    state: Mutex<GateState>,
    cv: Condvar,
}

impl Gate {
    pub fn install() -> Arc<Gate> {
        let gate = Arc::new(Gate::default());
        routinator::verif::set_controller(Some(gate.clone()));
        gate
    }

    pub fn uninstall() {
        routinator::verif::set_controller(None);
    }

    /// Threads named `thread` will park when they reach `point`.
    pub fn arm(&self, thread: &str, point: &str) {
        self.state.lock().unwrap().armed.insert((thread.into(), point.into()));
    }

    pub fn disarm(&self, thread: &str, point: &str) {
        self.state.lock().unwrap().armed.remove(&(thread.to_string(), point.to_string()));
    }

    pub fn disarm_all(&self) {
        let mut s = self.state.lock().unwrap();
        s.armed.clear();
        let parked = s.parked.clone();
        s.release.extend(parked);
        self.cv.notify_all();
    }

    /// Waits until a thread is parked at the point.
    pub fn wait_parked(&self, thread: &str, point: &str, timeout: Duration) -> bool {
        let key = (thread.to_string(), point.to_string());
        let deadline = Instant::now() + timeout;
        let mut s = self.state.lock().unwrap();
        loop {
            if s.parked.contains(&key) { return true }
            let now = Instant::now();
            if now >= deadline { return false }
            s = self.cv.wait_timeout(s, deadline - now).unwrap().0;
        }
    }

    pub fn is_parked(&self, thread: &str, point: &str) -> bool {
        self.state.lock().unwrap().parked.contains(&(thread.to_string(), point.to_string()))
    }

    /// Lets the thread parked at the point continue.
    pub fn release(&self, thread: &str, point: &str) {
        let mut s = self.state.lock().unwrap();
        s.release.push((thread.to_string(), point.to_string()));
        self.cv.notify_all();
    }

    /// The points passed so far (armed or not), in order.
    pub fn take_log(&self) -> Vec<(String, String)> {
        std::mem::take(&mut self.state.lock().unwrap().log)
    }
}

impl routinator::verif::Controller for Gate {
    fn reach(&self, point: &'static str) {
        let thread = routinator::verif::thread_name();
        let key = (thread, point.to_string());
        let mut s = self.state.lock().unwrap();
        s.log.push(key.clone());
        if !s.armed.contains(&key) { return }
        s.parked.push(key.clone());
        self.cv.notify_all();
        loop {
            if let Some(pos) = s.release.iter().position(|k| *k == key) {
                s.release.remove(pos);
                if let Some(pos) = s.parked.iter().position(|k| *k == key) { s.parked.remove(pos); }
                self.cv.notify_all();
                return
            }
            s = self.cv.wait(s).unwrap();
        }
    }
}

//------------ Fixture ---------------------------------------------------------

pub struct Fixture {
    pub config: Config,
    pub history: SharedHistory,
    pub notify: NotifySender,
    pub rtr_metrics: Arc<RtrServerMetrics>,
    pub http_port: u16,
    pub rtr_port: u16,
    pub engine: Engine,
    pub runtime: tokio::runtime::Runtime,
    pub dir: tempfile::TempDir,
}

fn free_port() -> u16 {
    TcpListener::bind("127.0.0.1:0").unwrap().local_addr().unwrap().port()
}

impl Fixture {
    /// Starts HTTP and RTR listeners on loopback.  The engine has no TALs:
    /// the data set of a run is what the SLURM assertions say.
    pub fn start(adjust: impl FnOnce(&mut Config)) -> Fixture {
        super::init_process();
        let dir = tempfile::Builder::new().prefix("vh-srv-").tempdir().expect("tempdir");
        let mut config = Config::default_with_paths(dir.path().join("routinator.conf"), dir.path().join("cache"));
        config.no_rir_tals = true;
        config.bundled_tals = Vec::new();
        let tals = dir.path().join("tals");
        std::fs::create_dir_all(&tals).unwrap();
        std::fs::create_dir_all(dir.path().join("cache")).unwrap();
        config.extra_tals_dir = Some(tals);
        config.disable_rsync = true;
        config.disable_rrdp = true;
        config.rtr_tcp_keepalive = None;
        adjust(&mut config);
        let history = SharedHistory::from_config(&config);
        let notify = NotifySender::new();
        let rtr_metrics = Arc::new(RtrServerMetrics::new(config.rtr_client_metrics));
        let runtime = tokio::runtime::Builder::new_multi_thread().worker_threads(4).enable_all().build().unwrap();

        // RTR: hand in our own listener so that we know the port.
        let rtr_sock = TcpListener::bind("127.0.0.1:0").unwrap();
        rtr_sock.set_nonblocking(true).unwrap();
        let rtr_port = rtr_sock.local_addr().unwrap().port();
        // HTTP: the listener binds itself; pick a free port.
        let mut http_port = 0;
        let mut http = None;
        for _ in 0..20 {
            http_port = free_port();
            config.http_listen = vec![SocketAddr::from(([127, 0, 0, 1], http_port))];
            match routinator::http::http_listener(history.clone(), rtr_metrics.clone(), None, &config, notify.clone()) {
                Ok(f) => { http = Some(f); break }
                Err(_) => continue,
            }
        }
        let http = http.expect("cannot bind an HTTP port");
        let rtr = {
            let _guard = runtime.enter();
            routinator::rtr::rtr_listener(history.clone(), rtr_metrics.clone(), &config, notify.clone(), Some(rtr_sock))
                .unwrap_or_else(|_| panic!("rtr listener"))
        };
        runtime.spawn(http);
        runtime.spawn(rtr);
        let engine = Engine::new(&config, false).unwrap_or_else(|_| panic!("engine"));
        // wait for the HTTP port to accept
        for _ in 0..200 {
            if TcpStream::connect(("127.0.0.1", http_port)).is_ok() { break }
            std::thread::sleep(Duration::from_millis(10));
        }
        Fixture { config, history, notify, rtr_metrics, http_port, rtr_port, engine, runtime, dir }
    }

    /// One server update cycle (`Server::process_once`) with the data set given
    /// by the exceptions.
    pub fn process_once(&mut self, exceptions: &LocalExceptions, initial: bool) -> Result<(), bool> {
        routinator::operation::Server::verif_process_once(
            &self.config, &self.engine, &self.history, &mut self.notify, exceptions, initial
        ).map_err(|e| e.is_fatal())
    }
}

//------------ HTTP client ------------------------------------------------------

#[derive(Clone, Debug, Default)]
pub struct HttpResponse {
    pub status: u16,
    pub headers: Vec<(String, String)>,
    pub body: Vec<u8>,
    /// Sizes of the chunks of a chunked body, in order.
    pub chunks: Vec<usize>,
}

impl HttpResponse {
    pub fn header(&self, name: &str) -> Option<&str> {
        self.headers.iter().find(|(k, _)| k.eq_ignore_ascii_case(name)).map(|(_, v)| v.as_str())
    }
}

/// A blocking HTTP/1.1 GET (or other method) with `Connection: close`.
pub fn http_request(port: u16, method: &str, path: &str, headers: &[(&str, &str)], body: Option<&[u8]>,
                    timeout: Duration) -> Result<HttpResponse, String> {
    let mut sock = TcpStream::connect(("127.0.0.1", port)).map_err(|e| format!("connect: {e}"))?;
    sock.set_read_timeout(Some(timeout)).ok();
    sock.set_write_timeout(Some(timeout)).ok();
    let mut req = format!("{method} {path} HTTP/1.1\r\nHost: localhost\r\nConnection: close\r\n");
    for (k, v) in headers { req.push_str(&format!("{k}: {v}\r\n")); }
    if let Some(b) = body { req.push_str(&format!("Content-Length: {}\r\n", b.len())); }
    req.push_str("\r\n");
    sock.write_all(req.as_bytes()).map_err(|e| format!("write: {e}"))?;
    if let Some(b) = body { sock.write_all(b).map_err(|e| format!("write body: {e}"))?; }
    let mut raw = Vec::new();
    let mut buf = [0u8; 65536];
    loop {
        match sock.read(&mut buf) {
            Ok(0) => break,
            Ok(n) => raw.extend_from_slice(&buf[..n]),
            Err(e) if e.kind() == std::io::ErrorKind::WouldBlock || e.kind() == std::io::ErrorKind::TimedOut => {
                return Err("timeout".into())
            }
            Err(e) => return Err(format!("read: {e}")),
        }
    }
    parse_http_response(&raw)
}

pub fn http_get(port: u16, path: &str, headers: &[(&str, &str)]) -> Result<HttpResponse, String> {
    http_request(port, "GET", path, headers, None, Duration::from_secs(20))
}

fn find(hay: &[u8], needle: &[u8], from: usize) -> Option<usize> {
    hay[from..].windows(needle.len()).position(|w| w == needle).map(|p| p + from)
}

pub fn parse_http_response(raw: &[u8]) -> Result<HttpResponse, String> {
    let head_end = find(raw, b"\r\n\r\n", 0).ok_or("no header end")?;
    let head = std::str::from_utf8(&raw[..head_end]).map_err(|_| "non-utf8 header")?;
    let mut lines = head.split("\r\n");
    let status_line = lines.next().ok_or("no status line")?;
    let status: u16 = status_line.split(' ').nth(1).ok_or("bad status line")?.parse().map_err(|_| "bad status")?;
    let mut headers = Vec::new();
    for l in lines {
        if let Some((k, v)) = l.split_once(':') { headers.push((k.trim().to_string(), v.trim().to_string())); }
    }
    let mut res = HttpResponse { status, headers, body: Vec::new(), chunks: Vec::new() };
    let rest = &raw[head_end + 4..];
    let chunked = res.header("transfer-encoding").map(|v| v.to_ascii_lowercase().contains("chunked")).unwrap_or(false);
    if chunked {
        let mut pos = 0;
        loop {
            let eol = find(rest, b"\r\n", pos).ok_or("chunk size line")?;
            let size_str = std::str::from_utf8(&rest[pos..eol]).map_err(|_| "chunk size")?;
            let size = usize::from_str_radix(size_str.split(';').next().unwrap().trim(), 16).map_err(|_| "chunk size hex")?;
            pos = eol + 2;
            if size == 0 { break }
            if pos + size > rest.len() { return Err("truncated chunk".into()) }
            res.body.extend_from_slice(&rest[pos..pos + size]);
            res.chunks.push(size);
            pos += size + 2;
        }
    } else {
        res.body = rest.to_vec();
    }
    Ok(res)
}

//------------ RTR client -------------------------------------------------------

#[derive(Clone, Debug, PartialEq, Eq)]
pub enum RtrItem {
    /// (announce, "prefix/len-max ASn")
    Origin(bool, String),
    Key(bool, String),
    Aspa(bool, String),
}

#[derive(Clone, Debug, Default)]
pub struct RtrAnswer {
    /// "cache-response", "cache-reset", "error:<code>", "eof", "timeout"
    pub kind: String,
    pub session: u16,
    pub serial: u32,
    pub items: Vec<RtrItem>,
    /// (refresh, retry, expire) of a version 1 End of Data PDU
    pub timing: Option<(u32, u32, u32)>,
}

fn read_exact(sock: &mut TcpStream, n: usize) -> Result<Vec<u8>, String> {
    let mut buf = vec![0u8; n];
    let mut got = 0;
    while got < n {
        match sock.read(&mut buf[got..]) {
            Ok(0) => return Err("eof".into()),
            Ok(k) => got += k,
            Err(e) if e.kind() == std::io::ErrorKind::WouldBlock || e.kind() == std::io::ErrorKind::TimedOut => return Err("timeout".into()),
            Err(e) => return Err(format!("read: {e}")),
        }
    }
    Ok(buf)
}

/// Sends one query (reset query if `state` is None, else serial query) on a
/// fresh connection and reads the answer up to End of Data.
pub fn rtr_query(port: u16, state: Option<(u16, u32)>, timeout: Duration) -> RtrAnswer {
    let mut sock = match TcpStream::connect(("127.0.0.1", port)) {
        Ok(s) => s,
        Err(e) => return RtrAnswer { kind: format!("connect-failed:{e}"), ..Default::default() },
    };
    rtr_query_on(&mut sock, state, timeout)
}

pub fn rtr_query_on(sock: &mut TcpStream, state: Option<(u16, u32)>, timeout: Duration) -> RtrAnswer {
    sock.set_read_timeout(Some(timeout)).ok();
    let version = 1u8;
    let pdu = match state {
        None => vec![version, 2, 0, 0, 0, 0, 0, 8],
        Some((session, serial)) => {
            let mut v = vec![version, 1];
            v.extend_from_slice(&session.to_be_bytes());
            v.extend_from_slice(&12u32.to_be_bytes());
            v.extend_from_slice(&serial.to_be_bytes());
            v
        }
    };
    if sock.write_all(&pdu).is_err() {
        return RtrAnswer { kind: "write-failed".into(), ..Default::default() }
    }
    let mut ans = RtrAnswer::default();
    loop {
        let head = match read_exact(sock, 8) {
            Ok(h) => h,
            Err(e) => { if ans.kind.is_empty() { ans.kind = e; } else { ans.kind = format!("{}+{}", ans.kind, e); } return ans }
        };
        let typ = head[1];
        let sess = u16::from_be_bytes([head[2], head[3]]);
        let len = u32::from_be_bytes([head[4], head[5], head[6], head[7]]) as usize;
        if !(8..=1 << 20).contains(&len) { ans.kind = format!("bad-length:{len}"); return ans }
        let body = match read_exact(sock, len - 8) { Ok(b) => b, Err(e) => { ans.kind = format!("truncated:{e}"); return ans } };
        match typ {
            0 => { /* serial notify: ignore */ }
            3 => { ans.kind = "cache-response".into(); ans.session = sess; }
            4 => {
                let ann = body[0] & 1 == 1;
                let addr = std::net::Ipv4Addr::new(body[4], body[5], body[6], body[7]);
                let asn = u32::from_be_bytes([body[8], body[9], body[10], body[11]]);
                ans.items.push(RtrItem::Origin(ann, format!("{}/{}-{} AS{}", addr, body[1], body[2], asn)));
            }
            6 => {
                let ann = body[0] & 1 == 1;
                let mut a = [0u8; 16];
                a.copy_from_slice(&body[4..20]);
                let addr = std::net::Ipv6Addr::from(a);
                let asn = u32::from_be_bytes([body[20], body[21], body[22], body[23]]);
                ans.items.push(RtrItem::Origin(ann, format!("{}/{}-{} AS{}", addr, body[1], body[2], asn)));
            }
            7 => {
                ans.session = sess;
                ans.serial = u32::from_be_bytes([body[0], body[1], body[2], body[3]]);
                if body.len() >= 16 {
                    let w = |i: usize| u32::from_be_bytes([body[i], body[i + 1], body[i + 2], body[i + 3]]);
                    ans.timing = Some((w(4), w(8), w(12)));
                }
                return ans
            }
            8 => { ans.kind = "cache-reset".into(); return ans }
            9 => {
                let ann = (sess >> 8) & 1 == 1;
                ans.items.push(RtrItem::Key(ann, crate::gen::hexs(&body)));
            }
            10 => {
                ans.kind = format!("error:{sess}");
                return ans
            }
            11 => {
                let ann = (sess >> 8) & 1 == 1;
                ans.items.push(RtrItem::Aspa(ann, crate::gen::hexs(&body)));
            }
            t => { ans.kind = format!("unknown-pdu:{t}"); return ans }
        }
    }
}
