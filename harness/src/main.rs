//! `vh` — the verification harness binding the TLA+ specifications in
//! /verif/spec to the real `routinator` crate (path dependency on /repo).
//!
//! Usage: vh <module> --in <behaviours.ndjson> --out <result.json>
//!           [--seed N] [--tier quick|thorough] [--props C11,C12] [--opt k=v]...

pub mod common;
#[allow(dead_code)]
pub mod gen;
#[allow(dead_code)]
pub mod env;
pub mod replay {
    include!(concat!(env!("OUT_DIR"), "/replay_mods.rs"));
}

fn main() {
    let argv: Vec<String> = std::env::args().collect();
    // The harness binary doubles as the fake rsync given to routinator as
    // `rsync-command` (one process per module fetch instead of a shell script).
    if argv.len() >= 2 && argv[1] == "-h" {
        println!("vh fake rsync");
        return
    }
    if argv.len() >= 2 && argv[1] == "fake-rsync" {
        std::process::exit(env::fake_rsync(&argv[2..]));
    }
    if argv.len() < 2 {
        eprintln!("usage: vh <module> [options]; modules: {:?}", replay::MODULES);
        std::process::exit(2);
    }
    let args = common::Args::parse(&argv[2..]);
    match replay::dispatch(&argv[1], &args) {
        Some(code) => std::process::exit(code),
        None => {
            eprintln!("vh: unknown module {}; modules: {:?}", argv[1], replay::MODULES);
            std::process::exit(2);
        }
    }
}
