//! Replay of `Gen_PubPoint` behaviours: one CA below a trust anchor over
//! consecutive validation runs (C03, C04, C05, C06 stored path).
//!
//! After every run the payload contributed by the CA is compared
//! ("committed"), and an additional offline run (collector disabled, stale
//! policy accept) reads back what the store holds ("stored").  Hook H8 makes
//! the engine walk the manifest entries in file-name order, so the order a
//! behaviour prescribes is realised by naming the files accordingly.

use std::collections::BTreeSet;
use std::sync::{Arc, Mutex};
use serde_json::{json, Value};
use routinator::config::FilterPolicy;
use routinator::slurm::LocalExceptions;
use crate::common::{catch, read_behaviours, Args, Report, Rng};
use crate::env::{run_once, TestBed};
use crate::gen::*;
use super::rpkitree::prefix_of;

pub const PROPS: [&str; 5] = ["C02", "C03", "C04", "C05", "C06"];

const TA_REPO: &str = "rsync://r1.verif.test/repo/";
const CA_REPO: &str = "rsync://r2.verif.test/repo/";

fn leaf(vid: u64, f: u64) -> Vec<u8> {
    let n = ((vid - 1) * 2 + (f - 1)) as u8;
    vec![(n >> 2) & 1, (n >> 1) & 1, n & 1]
}

/// Which kind of object file `f` is in payload variant `pv`:
/// 0: ROA, ROA; 1: ROA, ASPA; 2: router certificate, ROA.
pub fn kind_of(pv: u64, f: u64) -> &'static str {
    match (pv % 3, f) {
        (1, 2) => "aspa",
        (2, 1) => "rtr",
        _ => "roa",
    }
}

pub fn payload_str_k(vid: u64, f: u64, v6: bool, pv: u64) -> String {
    match kind_of(pv, f) {
        "aspa" => format!("AS{} => [AS{}]", 64600 + vid * 10 + f, 64700 + vid),
        "rtr" => super::rpkitree::router_key_str(64500 + (vid * 10 + f) as u32, (vid % 2) as usize),
        _ => payload_str(vid, f, v6),
    }
}

pub fn payload_str(vid: u64, f: u64, v6: bool) -> String {
    let p = prefix_of(&leaf(vid, f), v6);
    let (addr, len) = p.split_once('/').unwrap();
    format!("{addr}/{len}-{len} AS{}", 64500 + vid)
}

#[derive(Clone, Debug)]
struct RunSpec {
    pub_id: u64,
    mc: String,
    avail: Vec<String>,
    order: Vec<u64>,
    reject: bool,
}

/// Builds the world in which version `ver` of the CA is published.
fn world_for(ver: &Value, run: &RunSpec, canonical_names: bool, stale_via_crl: bool, v6: bool, pv: u64) -> World {
    let mut ta = Ca::new("ca1", None, 0, &format!("{TA_REPO}ca1/"));
    ta.prefixes = vec![prefix_of(&[], v6)];
    ta.asns = vec![(64000, 65000)];
    ta.validity = (-24 * 10, 24 * 30);
    ta.mft = MftSpec { number: 1, this_update: -20, next_update: 24, ..Default::default() };
    ta.mft_validity = (-20, 24);
    ta.crl = (-20, 24);
    let mut ca = Ca::new("ca2", Some(0), 1, &format!("{CA_REPO}ca2/"));
    ca.prefixes = vec![prefix_of(&[], v6)];
    ca.asns = vec![(64000, 65000)];
    ca.validity = (-24 * 10, 24 * 30);
    let vid = ver["id"].as_u64().unwrap();
    let stale = ver["stale"].as_bool().unwrap();
    let this = -10 + ver["this"].as_i64().unwrap();
    ca.mft = MftSpec {
        number: ver["num"].as_u64().unwrap(), this_update: this,
        next_update: if stale && !stale_via_crl { -1 } else { 24 }, ..Default::default()
    };
    ca.mft_validity = (-12, 24);
    ca.mft_serial = 100 + vid;
    ca.crl = if stale && stale_via_crl { (-12, -1) } else { (-12, 24) };
    match run.mc.as_str() {
        "missing" => ca.mft_fault = Fault::Missing,
        "invalid" => ca.mft_fault = Fault::BadSig,
        "premature" => ca.mft_fault = Fault::Premature,
        _ => {}
    }
    let nfiles = run.avail.len() as u64;
    for f in 1..=nfiles {
        // position of f in the processing order
        let pos = if canonical_names { f as usize }
                  else { run.order.iter().position(|x| *x == f).unwrap() + 1 };
        let fault = match run.avail[f as usize - 1].as_str() {
            "missing" => Fault::Missing, "badhash" => Fault::HashMismatch, _ => Fault::None,
        };
        let p = prefix_of(&leaf(vid, f), v6);
        let (name, kind) = match kind_of(pv, f) {
            "aspa" => (format!("e{pos}f{f}.asa"), ObjKind::Aspa { customer: 64600 + (vid * 10 + f) as u32, providers: vec![64700 + vid as u32] }),
            "rtr" => (format!("e{pos}f{f}.cer"), ObjKind::Router { asns: vec![64500 + (vid * 10 + f) as u32], ec: (vid % 2) as usize }),
            _ => (format!("e{pos}f{f}.roa"), ObjKind::Roa { asn: 64500 + vid as u32, prefixes: vec![(p, 3)] }),
        };
        ca.objects.push(Obj { name, kind, serial: 10 * vid + f, validity: (-12, 48), fault });
    }
    World {
        tals: vec![Tal { name: "tal1".into(), ca: 0, uris: vec![(format!("{TA_REPO}ta1.cer"), TaVariant::Good)] }],
        cas: vec![ta, ca],
    }
}

fn parse_run(r: &Value) -> RunSpec {
    RunSpec {
        pub_id: r["pub"].as_u64().unwrap(),
        mc: r["mc"].as_str().unwrap().to_string(),
        avail: r["avail"].as_array().unwrap().iter().map(|x| x.as_str().unwrap().to_string()).collect(),
        order: r["order"].as_array().unwrap().iter().map(|x| x.as_u64().unwrap()).collect(),
        reject: r["pol"] == "reject",
    }
}

fn payload_set(v: &Value, v6: bool, pv: u64) -> BTreeSet<String> {
    v.as_array().unwrap().iter().map(|x| payload_str_k(x[0].as_u64().unwrap(), x[1].as_u64().unwrap(), v6, pv)).collect()
}

fn version_payload(vid: u64, nfiles: u64, v6: bool, pv: u64) -> BTreeSet<String> {
    if vid == 0 { return BTreeSet::new() }
    (1..=nfiles).map(|f| payload_str_k(vid, f, v6, pv)).collect()
}

fn all_payload(p: &crate::env::Payload) -> BTreeSet<String> {
    p.origins.iter().chain(p.keys.iter()).chain(p.aspas.iter()).cloned().collect()
}

pub fn main(args: &Args) -> i32 {
    let behaviours = read_behaviours(args.input.as_deref().expect("--in"));
    routinator::verif::set_switch("sort-manifest-entries", true);
    let factory = Arc::new(Factory::new());
    let total = behaviours.len();
    let limit = args.opt_usize("limit", usize::MAX);
    let mut order: Vec<usize> = (0..total).collect();
    if limit < total {
        let mut rng = Rng::new(args.seed);
        rng.shuffle(&mut order);
        order.truncate(limit);
        order.sort();
    }
    let work = Arc::new(Mutex::new(order.into_iter()));
    let behaviours = Arc::new(behaviours);
    let nthreads = args.opt_usize("jobs", 12);
    let mut rep = Report::new("pubpoint");
    for p in PROPS { rep.touch(p); }
    let reports: Vec<Report> = std::thread::scope(|scope| {
        let handles: Vec<_> = (0..nthreads).map(|_| {
            let work = work.clone();
            let behaviours = behaviours.clone();
            let factory = factory.clone();
            scope.spawn(move || {
                let mut local = Report::new("pubpoint");
                let bed = TestBed::new();
                loop {
                    let idx = match work.lock().unwrap().next() { Some(i) => i, None => break };
                    let b = &behaviours[idx];
                    let res = catch(std::panic::AssertUnwindSafe(|| one(&mut local, &bed, &factory, b, idx, args)));
                    if let Err(msg) = res {
                        local.violation("C04", "panic", format!("panic during validation: {msg}"), b.clone(), json!({"panic": msg}));
                    }
                }
                local
            })
        }).collect();
        handles.into_iter().map(|h| h.join().expect("worker")).collect()
    });
    for r in reports { rep.absorb(r); }
    if args.wants("C06") { stale_during_run(&mut rep, &factory); }
    rep.write(args)
}

/// C06, the time at which staleness is judged: the manifest of ca2 is current when the run starts and past its
/// nextUpdate when the publication point is looked at (its repository takes four seconds to transfer).  Under
/// `reject` the CA must contribute nothing - what is served after the run would be stale from the start; under
/// `accept` it is processed.  (PubPoint.tla: `stale` is a property of the version at the moment it is looked at.)
fn stale_during_run(rep: &mut Report, factory: &Arc<Factory>) {
    for reject in [true, false] {
        let bed = TestBed::new();
        let mut ta = Ca::new("ca1", None, 0, &format!("{TA_REPO}ca1/"));
        ta.prefixes = vec!["10.0.0.0/8".into()];
        ta.asns = vec![(64000, 65000)];
        ta.objects.push(Obj { name: "t1.roa".into(), kind: ObjKind::Roa { asn: 64501, prefixes: vec![("10.1.0.0/16".into(), 16)] },
            serial: 11, validity: (-2, 48), fault: Fault::None });
        let mut ca = Ca::new("ca2", Some(0), 1, &format!("{CA_REPO}ca2/"));
        ca.prefixes = vec!["10.2.0.0/16".into()];
        ca.asns = vec![(64000, 65000)];
        let drift = chrono::Utc::now().timestamp() - factory.now.timestamp();
        ca.mft.next_update_secs = drift + 3;          // three seconds from now
        ca.objects.push(Obj { name: "c1.roa".into(), kind: ObjKind::Roa { asn: 64502, prefixes: vec![("10.2.0.0/16".into(), 16)] },
            serial: 12, validity: (-2, 48), fault: Fault::None });
        let world = World { tals: vec![Tal { name: "tal1".into(), ca: 0, uris: vec![(format!("{TA_REPO}ta1.cer"), TaVariant::Good)] }], cas: vec![ta, ca] };
        bed.publish(&world.build(factory));
        bed.delay_module(CA_REPO, Some(4000));
        let mut cfg = bed.config();
        cfg.stale = if reject { FilterPolicy::Reject } else { FilterPolicy::Accept };
        cfg.validation_threads = 1;
        let t0 = std::time::Instant::now();
        let res = run_once(&cfg, true, &LocalExceptions::empty());
        let took = t0.elapsed().as_millis() as u64;
        let ctx = json!({"scenario": "manifest of ca2 passes its nextUpdate while its repository is being transferred (3 s / 4 s)",
                         "policy": if reject { "reject" } else { "accept" }});
        let payload = match res { Ok(r) => all_payload(&r.payload), Err(e) => { rep.divergence("C06", format!("stale-during-run: run failed {e:?}")); continue } };
        let ca_served = payload.iter().any(|l| l.ends_with("AS64502"));
        let ta_served = payload.iter().any(|l| l.ends_with("AS64501"));
        rep.eval("C06");
        if took < 3500 || !ta_served {
            rep.divergence("C06", format!("stale-during-run: not realised (run took {took} ms, TA payload served: {ta_served})"));
            continue
        }
        rep.nontrivial("C06", format!("stale-during-run|{reject}"));
        if reject && ca_served {
            rep.violation("C06", "stale-when-looked-at-served",
                "the manifest was past its nextUpdate when the publication point was validated, the policy is reject, yet the CA contributes payload",
                ctx.clone(), json!({"served": payload, "run_ms": took}));
        }
        if !reject && !ca_served {
            rep.violation("C06", "stale-dropped-under-accept", "the policy is accept, yet the stale CA contributes nothing", ctx, json!({"served": payload}));
        }
    }
}

fn one(rep: &mut Report, bed: &TestBed, factory: &Arc<Factory>, b: &Value, idx: usize, args: &Args) {
    let v6 = (idx as u64 + args.seed) % 2 == 1;
    let stale_via_crl = (idx as u64 / 2 + args.seed) % 2 == 1;
    let pv = idx as u64 / 4 + args.seed;      // payload variant: which files are ROAs / ASPAs / router certificates
    bed.wipe_cache();
    let runs = b["runs"].as_array().unwrap();
    let nfiles = runs[0]["avail"].as_array().unwrap().len() as u64;
    let ver = |id: u64| -> &Value { if id == 1 { &b["v1"] } else { &b["v2"] } };
    let ver_num = |id: u64| -> (u64, u64, bool) {
        let v = ver(id);
        (v["num"].as_u64().unwrap(), v["this"].as_u64().unwrap(), v["stale"].as_bool().unwrap())
    };
    let mut before: u64 = 0;          // version the store holds according to our own read-back
    for (ri, r) in runs.iter().enumerate() {
        let run = parse_run(r);
        let canonical = run.pub_id == before || run.mc != "ok" || ri == 0;
        let world = world_for(ver(run.pub_id), &run, canonical, stale_via_crl, v6, pv);
        let published = world.build(factory);
        bed.publish(&published);
        bed.fail_module(CA_REPO, if run.mc == "unreachable" { Some(10) } else { None });
        let mut cfg = bed.config();
        cfg.stale = if run.reject { FilterPolicy::Reject } else { FilterPolicy::Accept };
        cfg.validation_threads = 1 + (idx % 2);
        cfg.enable_aspa = true;
        cfg.enable_bgpsec = true;
        let ctx = |extra: Value| json!({"v1": b["v1"], "v2": b["v2"], "runs": runs[..=ri], "run_index": ri, "v6": v6, "payload_variant": pv % 3,
                                        "stale_via_crl": stale_via_crl, "stored_before": before, "extra": extra});
        let online = match run_once(&cfg, true, &LocalExceptions::empty()) {
            Ok(r) => all_payload(&r.payload),
            Err(e) => {
                rep.violation("C04", "run-failed", format!("validation run failed: {e:?}"), ctx(json!(null)), json!({}));
                return
            }
        };
        // read back the store: offline run, everything tolerated
        bed.fail_module(CA_REPO, None);
        let mut cfg_off = bed.config();
        cfg_off.stale = FilterPolicy::Accept;
        cfg_off.enable_aspa = true;
        cfg_off.enable_bgpsec = true;
        let offline = match run_once(&cfg_off, false, &LocalExceptions::empty()) {
            Ok(r) => all_payload(&r.payload),
            Err(e) => {
                rep.violation("C04", "offline-run-failed", format!("offline validation run failed: {e:?}"), ctx(json!(null)), json!({}));
                return
            }
        };
        // From here on `run` is what the engine looked at: the collector's working copy, which after a
        // transport failure is what an earlier run transferred (PubPoint.tla, variable `copy`).
        let transport_failed = run.mc == "unreachable";
        let run = match r.get("eff") {
            Some(e) if e.is_object() => RunSpec {
                pub_id: e["pub"].as_u64().unwrap(),
                mc: { let m = e["mc"].as_str().unwrap(); if m == "none" { "unreachable".to_string() } else { m.to_string() } },
                avail: { let a: Vec<String> = e["avail"].as_array().map(|a| a.iter().map(|x| x.as_str().unwrap().to_string()).collect()).unwrap_or_default();
                         if a.is_empty() { run.avail.clone() } else { a } },
                order: run.order.clone(), reject: run.reject,
            },
            _ => run,
        };
        if transport_failed && run.mc != "unreachable" { rep.add_note("C04", "runs_on_an_older_working_copy", 1); }
        let p_pub = version_payload(run.pub_id, nfiles, v6, pv);
        let p_before = version_payload(before, nfiles, v6, pv);
        let after: u64 = if offline.is_empty() { 0 }
            else if offline == version_payload(1, nfiles, v6, pv) { 1 }
            else if offline == version_payload(2, nfiles, v6, pv) { 2 }
            else { 99 };
        let exp = &r["exp"];
        let exp_committed = payload_set(&exp["committed"], v6, pv);
        let exp_stored = exp["stored"].as_u64().unwrap();
        let observed = json!({"committed": online, "stored_readback": offline, "stored_after": after,
                              "expected_committed": exp_committed, "expected_stored": exp_stored});
        let fetch_complete = run.mc == "ok" && run.avail.iter().all(|a| a == "ok");
        let any_bad_file = run.avail.iter().any(|a| a != "ok");
        let (pn, pt, pstale) = ver_num(run.pub_id);
        let key = format!("{}|{}|{}|{:?}", b["v1"], b["v2"], before, r);

        // ---- C03
        rep.eval("C03");
        if run.mc == "ok" && any_bad_file && before != 0 && before != run.pub_id {
            rep.nontrivial("C03", key.clone());
        }
        if !(online.is_empty() || online == p_pub || online == p_before) {
            let sig = if run.mc == "ok" && any_bad_file { "mixture/aborted-update" } else { "mixture/other" };
            rep.violation("C03", sig,
                format!("the CA contributes {:?}: neither the fetched manifest's object set {:?} nor the stored one {:?}",
                        online, p_pub, p_before), ctx(json!(null)), observed.clone());
        }
        // ---- C04
        rep.eval("C04");
        if !fetch_complete { rep.nontrivial("C04", key.clone()); }
        if after == 99 {
            rep.violation("C04", "stored-mixture", "the store holds a set of objects that is no published version",
                ctx(json!(null)), observed.clone());
        }
        else if after != before {
            let ok = fetch_complete && !(pstale && run.reject) && after == run.pub_id;
            if !ok {
                rep.violation("C04", &format!("stored-incomplete/{}", if run.mc != "ok" { run.mc.as_str() } else if any_bad_file { "file" } else { "policy" }),
                    format!("the store was changed from version {before} to {after} by a fetch that was not complete and valid"),
                    ctx(json!(null)), observed.clone());
            }
        }
        else if !fetch_complete && before != 0 {
            // failed fetch: stored version unchanged (checked) and usable
            let (_, _, bstale) = ver_num(before);
            if !(bstale && run.reject) && !p_before.is_subset(&online) {
                rep.violation("C04", "stored-not-usable",
                    format!("after a failed fetch the stored version {before} was not used: served {:?}", online),
                    ctx(json!(null)), observed.clone());
            }
        }
        // ---- C02 (history form): a fault in one object of a newer version must not take the
        // still valid stored siblings away
        if !fetch_complete && before != 0 && after == before {
            let (_, _, bstale) = ver_num(before);
            if !(bstale && run.reject) {
                rep.eval("C02");
                rep.nontrivial("C02", key.clone());
                if !p_before.is_subset(&online) {
                    rep.violation("C02", &format!("stored-siblings-dropped/{}", if run.mc != "ok" { run.mc.as_str() } else { "file" }),
                        format!("the fetch of a newer version failed and the valid stored version {before} was not served: {:?}", online),
                        ctx(json!(null)), observed.clone());
                }
            }
        }
        // ---- C05
        rep.eval("C05");
        if before != 0 && before != run.pub_id {
            let (bn, bt, _) = ver_num(before);
            if !(pn > bn && pt > bt) { rep.nontrivial("C05", key.clone()); }
            if after != before && after == run.pub_id && !(pn > bn && pt > bt) {
                rep.violation("C05", &format!("rollback/num{}-this{}", cmp3(pn, bn), cmp3(pt, bt)),
                    format!("manifest (number {pn}, thisUpdate {pt}) replaced stored (number {bn}, thisUpdate {bt})"),
                    ctx(json!(null)), observed.clone());
            }
            if !(pn > bn && pt > bt) && online == p_pub && !p_pub.is_empty() {
                rep.violation("C05", &format!("rollback-payload/num{}-this{}", cmp3(pn, bn), cmp3(pt, bt)),
                    format!("payload of manifest (number {pn}, thisUpdate {pt}) served although (number {bn}, thisUpdate {bt}) is stored"),
                    ctx(json!(null)), observed.clone());
            }
        }
        // ---- C06 (stored path)
        if before != 0 && after == before {
            let (_, _, bstale) = ver_num(before);
            if bstale {
                rep.eval("C06");
                rep.nontrivial("C06", key.clone());
                if run.reject && !online.is_empty() && online != p_pub {
                    rep.violation("C06", "stored-stale-served",
                        format!("stored version {before} is stale and the policy is reject, yet it contributes {:?}", online),
                        ctx(json!(null)), observed.clone());
                }
                if !run.reject && !fetch_complete && online != p_before {
                    rep.violation("C06", "stored-stale-dropped",
                        format!("stored version {before} is stale, the policy is accept, yet it is not used: {:?}", online),
                        ctx(json!(null)), observed.clone());
                }
            }
        }
        // ---- model conformance
        if online != exp_committed || after != exp_stored {
            for p in PROPS {
                rep.divergence(p, format!("model expects committed {:?} stored {}, code gives {:?} stored {} (run {:?}, before {})",
                    exp_committed, exp_stored, online, after, r, before));
                rep.add_note(p, "model_mismatches", 1);
            }
        }
        before = after;
        if before == 99 { break }
    }
    for p in PROPS { rep.trace(p); }
    if runs.len() >= 2 && runs[1]["mc"] == "ok" {
        for p in PROPS {
            rep.sample(p, json!({"v1": b["v1"], "v2": b["v2"], "runs": runs}));
        }
    }
}

fn cmp3(a: u64, b: u64) -> &'static str {
    if a > b { "up" } else if a == b { "eq" } else { "down" }
}
