//! C24: replay of `Gen_RrdpCrash` scenarios with process kills.
//!
//! A scenario is a server history (RRDP server double, hook H1), the version
//! the client is synced to, and one client run towards the newest version.
//! A client run is `collector::Run::repository(ca)`, the call the validation
//! engine makes.
//!
//! What a killed process leaves behind is what the file system shows at the
//! moment of the kill (stores through a shared memory map and completed
//! write calls are in the page cache; data still buffered in user space is
//! not, and is not visible to a reader either).  So one uninterrupted run
//! with a kill point observer (hook H2: called before every piece written to
//! archive storage, every truncate, the remove and the rename of the snapshot
//! update, the state writes of the delta update) that copies the cache
//! directory at every kill point yields the crash state of every kill point.
//! For a share of the scenarios this is cross-checked with real kills: a
//! forked child sends SIGKILL to itself at its k-th kill point and the cache
//! it leaves must classify exactly as the observer's copy number k.
//!
//! For every crash state
//!   * the archive is read back and its state (present?, session, serial,
//!     content of every object) must be one the model allows for a kill
//!     during this run, and the states found for growing k must walk through
//!     the model's list of states in order (conformance);
//!   * follow-up runs, each on its own copy of the crashed cache: the same
//!     server version again, one more version published, a new session (and
//!     in the thorough tier a second kill in the recovery run followed by
//!     another run).  The C24 oracle: whenever a follow-up run returns an
//!     RRDP repository, the archive's state is the announced (session,
//!     serial) and its objects are exactly the server's objects of that
//!     version, byte for byte.

use std::collections::{BTreeMap, BTreeSet};
use std::path::{Path, PathBuf};
use std::sync::Arc;
use bytes::Bytes;
use serde_json::{json, Value};
use routinator::engine::CaCert;
use crate::common::{read_behaviours, Args, Report, Rng};
use crate::env::rrdp::{self as dbl, Objects, RrdpServer};
use crate::env::TestBed;
use crate::gen::*;
use super::rrdp::{archive_path, ca_cert, client_run, read_archive, LocalCopy};

const C24: &str = "C24";
const TORN: u64 = 99;

fn obj_uri(base: &str, o: u64) -> String { format!("{base}o{o}.roa") }

/// Object 1: both contents have the same length (replaced in place, can be
/// torn); object 2: the contents differ by several pages (replaced by delete
/// and publish); object 3: as object 1 but larger than a page.
fn obj_bytes(o: u64, c: u64) -> Bytes {
    let len = match (o, c) {
        (2, 2) => 900,
        (3, _) => 700,
        _ => 120,
    };
    let mut v = format!("object {o} content {c} ").into_bytes();
    while v.len() < len { v.push(b'a' + ((v.len() as u64 * 7 + c * 3 + o) % 26) as u8) }
    Bytes::from(v)
}

fn objects_of(base: &str, objs: &Value) -> Objects {
    let mut res = Objects::new();
    for (i, c) in objs.as_array().unwrap().iter().enumerate() {
        let c = c.as_u64().unwrap();
        if c != 0 { res.insert(obj_uri(base, i as u64 + 1), obj_bytes(i as u64 + 1, c)); }
    }
    res
}

//------------ child processes ---------------------------------------------------

#[derive(Debug)]
#[allow(dead_code)]
struct ChildOutcome {
    /// exit code (None when killed by a signal)
    code: Option<i32>,
    signal: Option<i32>,
}

/// Forks; the child runs `f` and leaves with its return value without
/// running any destructor of the parent's data.
fn in_child(f: impl FnOnce() -> i32) -> ChildOutcome {
    use nix::sys::wait::{waitpid, WaitStatus};
    use nix::unistd::{fork, ForkResult};
    match unsafe { fork() }.expect("fork") {
        ForkResult::Child => {
            let code = std::panic::catch_unwind(std::panic::AssertUnwindSafe(f)).unwrap_or(101);
            unsafe { libc::_exit(code) }
        }
        ForkResult::Parent { child } => {
            loop {
                match waitpid(child, None) {
                    Ok(WaitStatus::Exited(_, code)) => return ChildOutcome { code: Some(code), signal: None },
                    Ok(WaitStatus::Signaled(_, sig, _)) => return ChildOutcome { code: None, signal: Some(sig as i32) },
                    Ok(_) => continue,
                    Err(nix::errno::Errno::EINTR) => continue,
                    Err(e) => panic!("waitpid: {e}"),
                }
            }
        }
    }
}

struct Rig {
    bed: TestBed,
    srv: RrdpServer,
    ca: Arc<CaCert>,
    /// The one cache directory client runs work on (state is copied in and out).
    run_cache: PathBuf,
    /// A collector on `run_cache`, created and ignited once; every forked child uses its copy.
    /// (All HTTP goes through hook H1, so the HTTP client's own thread is never needed in a child.)
    collector: routinator::collector::Collector,
}

impl Rig {
    fn new(factory: &Factory) -> Self {
        let bed = TestBed::new();
        let srv = RrdpServer::new();
        let ca = ca_cert(factory, &srv.rsync_base(), Some(srv.notify_uri()));
        let run_cache = bed.dir.path().join("run-cache");
        std::fs::create_dir_all(&run_cache).unwrap();
        let mut c = bed.config();
        c.cache_dir = run_cache.clone();
        c.disable_rrdp = false;
        c.disable_rsync = true;
        c.rrdp_fallback = routinator::config::FallbackPolicy::Never;
        let mut collector = routinator::collector::Collector::new(&c).expect("collector");
        collector.ignite().expect("ignite");
        Rig { bed, srv, ca, run_cache, collector }
    }
}

/// Outcome codes of a client run: 10 = repository reported updated (RRDP
/// repository returned), 11 = not updated, 12 = run failed and can be retried,
/// 14 = run failed fatally, 101 = panic.
fn run_code(rig: &Rig) -> i32 { run_code_status(rig).0 }

/// The outcome code and the HTTP status the notification request got (304 = not modified).
fn run_code_status(rig: &Rig) -> (i32, i16) {
    match crate::common::catch(std::panic::AssertUnwindSafe(|| client_run(&rig.collector, &rig.ca, &rig.srv, &[]))) {
        Ok(Ok(obs)) => (if obs.updated { 10 } else { 11 }, obs.notify_status),
        Ok(Err(e)) => (if e.contains("fatal: true") { 14 } else { 12 }, 0),
        Err(_) => (101, 0),
    }
}

fn load_run_cache(rig: &Rig, from: &Path) {
    copy_dir(from, &rig.run_cache);
    std::fs::create_dir_all(rig.run_cache.join("rrdp").join("tmp")).unwrap();
}

/// A client run in this process on the state in `from`; the result stays in the run cache.
fn client_here(rig: &Rig, from: &Path) -> i32 {
    load_run_cache(rig, from);
    run_code(rig)
}

fn client_here_status(rig: &Rig, from: &Path) -> (i32, i16) {
    load_run_cache(rig, from);
    run_code_status(rig)
}

/// The same run in a forked child that kills itself at its k-th kill point.
/// Only while the process is single-threaded.
fn client_killed(rig: &Rig, from: &Path, k: usize) -> ChildOutcome {
    load_run_cache(rig, from);
    in_child(|| {
        routinator::verif::set_kill_config(Some(k), None);
        run_code(rig)
    })
}

//------------ kill point observer ------------------------------------------------------

struct ObsCtx { src: PathBuf, dst: PathBuf, names: Vec<String> }

thread_local! {
    static OBS: std::cell::RefCell<Option<ObsCtx>> = const { std::cell::RefCell::new(None) };
}

fn install_observer() {
    routinator::verif::set_kill_observer(Some(Arc::new(|name: &str| {
        OBS.with(|o| {
            if let Some(ctx) = o.borrow_mut().as_mut() {
                let k = ctx.names.len() + 1;
                copy_dir(&ctx.src, &ctx.dst.join(format!("k{k}")));
                ctx.names.push(name.to_string());
            }
        })
    })));
}

/// A client run in this process on the state in `from`, the cache directory
/// copied to `dst/k<n>` at every kill point.  Returns the run's code and the
/// names of the kill points.
fn client_observed(rig: &Rig, from: &Path, dst: &Path) -> (i32, Vec<String>) {
    load_run_cache(rig, from);
    let _ = std::fs::remove_dir_all(dst);
    std::fs::create_dir_all(dst).unwrap();
    OBS.with(|o| *o.borrow_mut() = Some(ObsCtx { src: rig.run_cache.clone(), dst: dst.to_path_buf(), names: Vec::new() }));
    let code = run_code(rig);
    let names = OBS.with(|o| o.borrow_mut().take()).map(|c| c.names).unwrap_or_default();
    (code, names)
}

fn copy_dir(src: &Path, dst: &Path) {
    let _ = std::fs::remove_dir_all(dst);
    std::fs::create_dir_all(dst).unwrap();
    if let Ok(rd) = std::fs::read_dir(src) {
        for e in rd.flatten() {
            let p = e.path();
            let d = dst.join(e.file_name());
            if p.is_dir() { copy_dir(&p, &d) } else { let _ = std::fs::copy(&p, &d); }
        }
    }
}

//------------ abstraction of what is on disk ------------------------------------

/// (present, session number of the model (0 = nil / unknown), serial, contents).
#[derive(Clone, Debug, PartialEq, Eq, PartialOrd, Ord)]
enum Disk {
    NoFile,
    /// the file is there but cannot be opened / read as an archive
    Unreadable,
    Copy { sess: u64, serial: u64, objs: Vec<u64> },
}

impl Disk {
    fn to_json(&self) -> Value {
        match self {
            Disk::NoFile => json!("no-file"),
            Disk::Unreadable => json!("unreadable"),
            Disk::Copy { sess, serial, objs } => json!({"sess": sess, "serial": serial, "objs": objs}),
        }
    }
}

struct Scenario<'a> {
    rig: &'a Rig,
    nobj: u64,
    /// model session number -> uuid of the double
    sessions: BTreeMap<uuid::Uuid, u64>,
}

impl Scenario<'_> {
    fn archive_file(&self, cache: &Path) -> PathBuf {
        let rel = archive_path(&self.rig.bed, &self.rig.srv);
        let rel = rel.strip_prefix(&self.rig.bed.cache).unwrap().to_path_buf();
        cache.join(rel)
    }

    fn classify(&self, cache: &Path) -> (Disk, Option<LocalCopy>) {
        let path = self.archive_file(cache);
        if !path.exists() { return (Disk::NoFile, None) }
        let local = match read_archive(&path) { Some(l) => l, None => return (Disk::Unreadable, None) };
        let base = self.rig.srv.rsync_base();
        let mut objs = Vec::new();
        for o in 1..=self.nobj {
            let c = match local.objects.get(&obj_uri(&base, o)) {
                None => 0,
                Some(b) if *b == obj_bytes(o, 1) => 1,
                Some(b) if *b == obj_bytes(o, 2) => 2,
                Some(_) => TORN,
            };
            objs.push(c);
        }
        let extra = local.objects.keys().filter(|u| !(1..=self.nobj).any(|o| **u == obj_uri(&base, o))).count();
        if extra > 0 { objs.push(TORN) }
        let sess = self.sessions.get(&local.session).copied().unwrap_or(0);
        (Disk::Copy { sess, serial: local.serial, objs }, Some(local))
    }
}

fn model_disk(a: &Value) -> Disk {
    if !a["ex"].as_bool().unwrap_or(false) { return Disk::NoFile }
    Disk::Copy {
        sess: a["sess"].as_u64().unwrap(), serial: a["serial"].as_u64().unwrap(),
        objs: a["objs"].as_array().unwrap().iter().map(|x| x.as_u64().unwrap()).collect(),
    }
}

//------------ one scenario --------------------------------------------------------

fn shape_of(b: &Value) -> String {
    b["steps"].as_array().unwrap().iter().map(|s| {
        let el = s["el"].as_array().unwrap();
        let kind = if el.len() == 2 {
            match (el[0].as_u64().unwrap(), el[1].as_u64().unwrap()) { (0, _) => "+", (_, 0) => "-", _ => "~" }
        } else { "" };
        format!("{}{}", &s["pc"].as_str().unwrap()[..3.min(s["pc"].as_str().unwrap().len())], kind)
    }).collect::<Vec<_>>().join(",") + &format!("|base{}", b["base"])
}

fn one(rep: &mut Report, rig: &Rig, b: &Value, idx: usize, args: &Args, rng: &mut Rng, real_kills: bool) {
    let srv = &rig.srv;
    let base_uri = srv.rsync_base();
    srv.reset();
    let root = rig.bed.dir.path().to_path_buf();
    let caches = root.join("crash-caches");
    let _ = std::fs::remove_dir_all(&caches);
    std::fs::create_dir_all(&caches).unwrap();
    let vers = b["srv"].as_array().unwrap();
    let nobj = vers[0]["objs"].as_array().unwrap().len() as u64;
    let base_ver = b["base"].as_u64().unwrap() as usize;
    let target = vers.len();
    // the server history; version i has serial i
    let mut sessions: BTreeMap<uuid::Uuid, u64> = BTreeMap::new();
    let mut idx_of: Vec<usize> = Vec::new();
    for (i, v) in vers.iter().enumerate() {
        let sess = v["sess"].as_u64().unwrap();
        let objects = objects_of(&base_uri, &v["objs"]);
        let vi = if i == 0 || vers[i - 1]["sess"].as_u64().unwrap() != sess {
            srv.new_session(i as u64 + 1, objects)
        } else {
            srv.publish(objects)
        };
        let ver = srv.version(vi);
        assert_eq!(ver.serial, i as u64 + 1);
        sessions.insert(ver.session, sess);
        idx_of.push(vi);
    }
    let sc = Scenario { rig, nobj, sessions };
    let ctx0 = json!({"scenario": idx, "srv": b["srv"], "base": base_ver, "shape": shape_of(b)});

    // 1. the cache before the run
    let base_cache = caches.join("base");
    std::fs::create_dir_all(base_cache.join("rrdp")).unwrap();
    if base_ver > 0 {
        srv.announce(idx_of[base_ver - 1]);
        let code = client_here(rig, &base_cache);
        if code != 10 {
            rep.divergence(C24, format!("scenario {idx}: the initial sync to version {base_ver} did not report updated (code {code})"));
            return
        }
        copy_dir(&rig.run_cache, &base_cache);
    }
    let (d0, _) = sc.classify(&base_cache);
    let steps = b["steps"].as_array().unwrap();
    let model: Vec<Disk> = steps.iter().map(|s| model_disk(&s["a"])).collect();
    let model0 = if base_ver == 0 { Disk::NoFile } else {
        Disk::Copy { sess: vers[base_ver - 1]["sess"].as_u64().unwrap(), serial: base_ver as u64,
                     objs: vers[base_ver - 1]["objs"].as_array().unwrap().iter().map(|x| x.as_u64().unwrap()).collect() }
    };
    if d0 != model0 {
        rep.divergence(C24, format!("scenario {idx}: state after the initial sync {:?} differs from the model's {:?}", d0, model0));
        return
    }
    srv.announce(idx_of[target - 1]);

    // 2. the run, observed: the crash state of every kill point; must end in the model's final state
    let snaps = caches.join("snaps");
    let (code, points) = client_observed(rig, &base_cache, &snaps);
    let (dref, lref) = sc.classify(&rig.run_cache);
    rep.eval(C24);
    if code != 10 {
        rep.divergence(C24, format!("scenario {idx}: the uninterrupted run did not report updated (code {code}); the model says it does"));
        return
    }
    judge_reported(rep, &sc, &ctx0, "uninterrupted", &dref, &lref, false);
    if Some(&dref) != model.last() {
        rep.divergence(C24, format!("scenario {idx}: final state {:?} differs from the model's {:?}", dref, model.last()));
    }
    if points.is_empty() {
        rep.divergence(C24, format!("scenario {idx}: the run passed no kill point"));
        return
    }
    rep.trace(C24);
    rep.add_note(C24, "kill_points", points.len() as u64);

    // the states the model allows on disk after a kill, in the order of the run:
    // position j = state after step j (0 = before the run); a kill inside an element's
    // write may also leave the object absent or torn (KillMidElem)
    let mut allowed: Vec<Vec<Disk>> = vec![vec![model0.clone()]];
    let in_place = steps.iter().any(|s| s["pc"].as_str().unwrap().starts_with("delta"));
    for (j, s) in steps.iter().enumerate() {
        let mut set = vec![model[j].clone()];
        let el = s["el"].as_array().unwrap();
        if el.len() == 2 {
            if let Disk::Copy { sess, serial, objs } = &model[j] {
                let prev = if j == 0 { &model0 } else { &model[j - 1] };
                if let Disk::Copy { objs: pobjs, .. } = prev {
                    if let Some(o) = (0..objs.len()).find(|&o| objs[o] != pobjs[o]) {
                        for mid in [0u64, TORN] {
                            let mut m = pobjs.clone(); m[o] = mid;
                            set.push(Disk::Copy { sess: *sess, serial: *serial, objs: m });
                        }
                    }
                }
            }
        }
        allowed.push(set);
    }
    let mut pos = 0usize;
    let mut observed: BTreeSet<Disk> = BTreeSet::new();
    let only_k: Option<usize> = std::env::var("VH_ONLY_K").ok().and_then(|x| x.parse().ok());
    for k in 1..=points.len() {
        if only_k.map(|o| o != k).unwrap_or(false) { continue }
        let name = points[k - 1].clone();
        let crashed = snaps.join(format!("k{k}"));
        let ctx = json!({"scenario": idx, "srv": b["srv"], "base": base_ver, "shape": ctx0["shape"], "kill_point": k,
                         "kill_point_name": name, "of": points.len()});
        rep.eval(C24);
        rep.nontrivial(C24, format!("{}/{}", ctx0["shape"], name));
        let (d, _) = sc.classify(&crashed);
        observed.insert(d.clone());
        if std::env::var("VH_DEBUG").is_ok() { eprintln!("DBG k={k} {name} {:?}", d); }
        if real_kills {
            // the same kill for real: a forked child sends itself SIGKILL at its k-th kill point
            let r = client_killed(rig, &base_cache, k);
            rep.add_note(C24, "real_kills", 1);
            if r.signal != Some(9) {
                rep.divergence(C24, format!("scenario {idx}: child with kill at {k} ({name}) was not killed: {r:?}"));
            }
            else {
                let (dk, _) = sc.classify(&rig.run_cache);
                if dk != d {
                    rep.add_note(C24, "real_kill_differs_from_observed", 1);
                    rep.divergence(C24, format!("scenario {idx} kill {k} ({name}): the killed process left {:?}, the observer's copy shows {:?}", dk, d));
                }
            }
        }
        // conformance: the state on disk is one the model allows, in order
        let found = (pos..allowed.len()).find(|&j| allowed[j].contains(&d));
        match found {
            Some(j) => { pos = j; }
            None => {
                if d == Disk::Unreadable && in_place {
                    rep.add_note(C24, "unreadable_after_kill", 1);
                }
                else {
                    rep.add_note(C24, "crash_states_outside_model", 1);
                    rep.divergence(C24, format!("scenario {idx} kill {k} ({name}): state on disk {:?} is not a crash state of the model at or after step {pos} (model: {:?})",
                        d, &allowed[pos..]));
                }
            }
        }
        rep.sample(C24, json!({"kill_point": name, "state_after_kill": d.to_json()}));
        // follow-ups, each on its own copy
        follow_ups(rep, &sc, &ctx, &crashed, &caches, vers, &idx_of, target, args, rng);
        let _ = std::fs::remove_dir_all(&crashed);
    }
    // every distinct state of the model's run has been seen at some kill point
    let mut distinct: Vec<(usize, &Disk)> = Vec::new();
    for (j, set) in allowed.iter().enumerate() {
        if j + 1 == allowed.len() { break }      // the final state is only reached after the last kill point
        if distinct.last().map(|x| x.1 != &set[0]).unwrap_or(true) { distinct.push((j, &set[0])) }
    }
    for (j, st) in distinct {
        if !observed.contains(st) {
            rep.add_note(C24, "model_states_never_seen", 1);
            rep.divergence(C24, format!("scenario {idx}: no kill point shows the model's state {:?} after step {j}: a write step of the run has no kill point", st));
        }
    }
    let _ = std::fs::remove_dir_all(&caches);
}

/// The C24 oracle for a run that reported the repository as updated (or, after a 304, as current):
/// the archive's state names a version the server published and its objects are exactly that version's;
/// and that version is the announced one, unless the notification request was answered 304 (a cache
/// presenting an older notification to a client that is ahead).
fn judge_reported(rep: &mut Report, sc: &Scenario, ctx: &Value, what: &str, d: &Disk, local: &Option<LocalCopy>,
                  not_modified: bool) {
    let srv = &sc.rig.srv;
    let (_, cur_session, cur_serial) = srv.current().expect("announced version");
    match local {
        None => rep.violation(C24, &format!("reported-without-copy/{what}"),
            format!("the run ({what}) reported the repository as updated but the archive is {:?}", d), ctx.clone(), json!({"disk": d.to_json()})),
        Some(l) => {
            let want = srv.objects_at(l.session, l.serial);
            let state_ok = (l.session == cur_session && l.serial == cur_serial) || (not_modified && !want.is_empty());
            let content_ok = want.iter().any(|w| *w == l.objects);
            if !state_ok || !content_ok {
                rep.violation(C24, &format!("reported-updated-divergent/{what}"),
                    format!("the run ({what}) reported the repository as {}; archive state (session {}, serial {}) vs announced (session {}, serial {}); content equal to the server's snapshot at the archive's serial: {}",
                        if not_modified { "current (304)" } else { "updated" }, l.session, l.serial, cur_session, cur_serial, content_ok),
                    ctx.clone(), json!({"disk": d.to_json(), "announced_serial": cur_serial, "not_modified": not_modified}));
            }
        }
    }
}

#[allow(clippy::too_many_arguments)]
fn follow_ups(rep: &mut Report, sc: &Scenario, ctx: &Value, crashed: &Path, caches: &Path, vers: &[Value],
              idx_of: &[usize], target: usize, args: &Args, rng: &mut Rng) {
    let rig = sc.rig;
    let srv = &rig.srv;
    let base_uri = srv.rsync_base();
    let last = &vers[target - 1]["objs"];
    // one more version: object 1 changes content (or appears), the last object flips presence
    let mut next: Vec<u64> = last.as_array().unwrap().iter().map(|x| x.as_u64().unwrap()).collect();
    next[0] = match next[0] { 1 => 2, _ => 1 };
    let n = next.len();
    if n > 1 { next[n - 1] = if next[n - 1] == 0 { 1 } else { 0 }; }
    let base_ver = ctx["base"].as_u64().unwrap_or(0) as usize;
    let mut kinds: Vec<&str> = vec!["same", "next", "newsess", "same/ims-honoured-silently"];
    if base_ver > 0 { kinds.push("stale-cache"); kinds.push("stale-cache/no-etag"); }
    if args.thorough() { kinds.push("kill-again"); }
    for kind in kinds.iter() {
        srv.announce(idx_of[target - 1]);
        srv.set_validators(true, true);
        let mut added = false;
        let mut from = crashed.to_path_buf();
        let mut second_kill = Value::Null;
        match *kind {
            "next" => { srv.publish(objects_of(&base_uri, &json!(next))); added = true; }
            "newsess" => { srv.new_session(target as u64 + 1, objects_of(&base_uri, &json!(next))); added = true; }
            // a cache presents the notification of the version the client was synced to once more
            // a server that sends no validators but answers If-Modified-Since (a copy marked dirty has none to present)
            "same/ims-honoured-silently" => { srv.set_ims_silently(); }
            "stale-cache" => { srv.announce(idx_of[base_ver - 1]); }
            "stale-cache/no-etag" => { srv.announce(idx_of[base_ver - 1]); srv.set_validators(false, true); }
            "kill-again" => {
                // a second kill somewhere in the recovery run, then another run
                let snaps2 = caches.join("snaps2");
                let (_, names) = client_observed(rig, crashed, &snaps2);
                if !names.is_empty() {
                    let k2 = std::env::var("VH_ONLY_K2").ok().and_then(|x| x.parse().ok()).unwrap_or(1 + rng.below(names.len() as u64) as usize);
                    from = snaps2.join(format!("k{k2}"));
                    second_kill = json!({"kill_point": k2, "kill_point_name": names[k2 - 1], "of": names.len()});
                }
            }
            _ => {}
        }
        if std::env::var("VH_ONLY_K2").is_ok() && *kind == "kill-again" { log::set_max_level(log::LevelFilter::Debug); }
        let (mut code, mut nstatus) = client_here_status(rig, &from);
        if std::env::var("VH_ONLY_K2").is_ok() { log::set_max_level(log::LevelFilter::Off); }
        if code == 12 {
            // "corrupt, deleting and starting again": the run fails and asks to be repeated; the repeated run is judged
            rep.add_note(C24, "follow_up_runs_retried", 1);
            let again = run_code_status(rig);
            code = again.0; nstatus = again.1;
        }
        rep.eval(C24);
        let (d, l) = sc.classify(&rig.run_cache);
        let mut c = ctx.clone();
        c["follow_up"] = json!(kind);
        if !second_kill.is_null() { c["second_kill"] = second_kill.clone(); }
        if std::env::var("VH_DEBUG").is_ok() { eprintln!("DBG   follow-up {kind} {second_kill} code={code} status={nstatus} {:?}", d); }
        if nstatus == 304 { rep.add_note(C24, "follow_ups_answered_304", 1); }
        match code {
            10 => judge_reported(rep, sc, &c, kind, &d, &l, nstatus == 304),
            11 => {
                // not reported updated: allowed by C24, but the model says an honest, reachable server is always synced
                rep.add_note(C24, "follow_up_not_updated", 1);
                rep.divergence(C24, format!("follow-up '{kind}' after kill {} in scenario {} did not report the repository as updated (state {:?})",
                    ctx["kill_point"], ctx["scenario"], d));
            }
            101 => {
                rep.violation(C24, &format!("follow-up-run-panics/{kind}"),
                    format!("the follow-up run ({kind}) after the kill panicked"), c.clone(), json!({"disk": d.to_json()}));
            }
            other => {
                // a failed run reports nothing as updated: not C24's subject, but the model has no such step
                rep.add_note(C24, "follow_up_runs_failed", 1);
                rep.divergence(C24, format!("follow-up '{kind}' after kill {} in scenario {} failed with code {other} (12 = retry also failed, 14 = fatal); state {:?}",
                    ctx["kill_point"], ctx["scenario"], d));
            }
        }
        if added {
            // forget the extra version again
            srv.pop_version();
            srv.announce(idx_of[target - 1]);
        }
        if *kind == "kill-again" { let _ = std::fs::remove_dir_all(caches.join("snaps2")); }
    }
    srv.set_validators(true, true);
    srv.announce(idx_of[target - 1]);
}

pub fn main(args: &Args) -> i32 {
    // The replayer forks once per client run: keep the process small.  Only the chosen scenarios stay in memory.
    use std::io::BufRead;
    let path = args.input.as_deref().expect("--in");
    let lines = |path: &str| std::io::BufReader::new(std::fs::File::open(path).unwrap_or_else(|e| {
        eprintln!("vh: cannot open {path}: {e}"); std::process::exit(2) })).lines().map_while(Result::ok)
        .filter(|l| !l.trim().is_empty());
    let mut rep = Report::new("rrdpcrash");
    rep.touch(C24);
    if let Err(e) = dbl::self_test() {
        eprintln!("vh rrdpcrash: the server double renders unparseable XML: {e}");
        return 2
    }
    // selection: at most `per_shape` scenarios of every shape (sequence of steps and element kinds, base)
    let per_shape = args.opt_usize("per_shape", 2);
    let (shard, nshards) = match args.opt("shard") {
        Some(s) => { let (a, b) = s.split_once('/').expect("shard=i/n"); (a.parse::<usize>().unwrap(), b.parse::<usize>().unwrap()) }
        None => (0, 1),
    };
    let shapes: Vec<String> = lines(path).map(|l| {
        let v: Value = serde_json::from_str(&l).unwrap_or_else(|e| { eprintln!("vh: bad behaviour line: {e}"); std::process::exit(2) });
        shape_of(&v)
    }).collect();
    let total = shapes.len();
    let mut order: Vec<usize> = (0..total).collect();
    let mut rng = Rng::new(args.seed);
    rng.shuffle(&mut order);
    let mut by_shape: BTreeMap<&str, usize> = BTreeMap::new();
    let mut chosen: Vec<usize> = Vec::new();
    for i in order {
        let c = by_shape.entry(shapes[i].as_str()).or_insert(0);
        if *c < per_shape { *c += 1; chosen.push(i); }
    }
    chosen.sort();
    let mine: BTreeSet<usize> = chosen.iter().enumerate().filter(|(n, _)| n % nshards == shard).map(|(_, i)| *i).collect();
    rep.note(C24, "scenarios_exported", json!(if shard == 0 { total } else { 0 }));
    rep.note(C24, "shapes", json!(if shard == 0 { by_shape.len() } else { 0 }));
    drop(by_shape);
    drop(shapes);
    let behaviours: Vec<(usize, Value)> = lines(path).enumerate().filter(|(i, _)| mine.contains(i))
        .map(|(i, l)| (i, serde_json::from_str(&l).unwrap())).collect();
    let _ = read_behaviours;
    install_observer();
    let factory = Factory::new();
    // phase 1, single-threaded: scenarios replayed with real kills next to the observer's copies
    let n_real = args.opt_usize("real_kills", 6).min(behaviours.len());
    let mut done = 0u64;
    {
        let rig = Rig::new(&factory);
        let mut order: Vec<usize> = (0..behaviours.len()).collect();
        rng.shuffle(&mut order);
        for j in order.into_iter().take(n_real) {
            let (i, b) = &behaviours[j];
            one(&mut rep, &rig, b, *i, args, &mut rng, true);
            done += 1;
        }
    }
    // phase 2: all scenarios, observer only, in threads (a rig = bed + server double + collector per thread)
    let work = std::sync::Mutex::new(behaviours.iter());
    let nthreads = args.opt_usize("jobs", 12);
    let seed = args.seed;
    let reports: Vec<(Report, u64)> = std::thread::scope(|scope| {
        let handles: Vec<_> = (0..nthreads).map(|t| {
            let work = &work;
            let factory = &factory;
            scope.spawn(move || {
                let rig = Rig::new(factory);
                let mut rep = Report::new("rrdpcrash");
                let mut rng = Rng::new(seed.wrapping_mul(31).wrapping_add(t as u64));
                let mut n = 0u64;
                loop {
                    let next = work.lock().unwrap().next();
                    let (i, b) = match next { Some(x) => x, None => break };
                    one(&mut rep, &rig, b, *i, args, &mut rng, false);
                    n += 1;
                }
                (rep, n)
            })
        }).collect();
        handles.into_iter().map(|h| h.join().expect("worker")).collect()
    });
    for (r, n) in reports { rep.absorb(r); done += n; }
    rep.note(C24, "scenarios_replayed", json!(done));
    rep.note(C24, "scenarios_with_real_kills", json!(n_real));
    rep.write(args)
}
