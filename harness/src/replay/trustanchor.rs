//! Replay of `Gen_TrustAnchor` histories through the real engine (C10).
//!
//! One TAL with one or two rsync certificate URIs (each in an rsync module of
//! its own, so that a single URI can be made unreachable), a trust anchor CA
//! with one child CA holding one ROA.  "The trust anchor was used" is visible
//! as that ROA's VRP in the snapshot.  The wrong-key certificate is the trust
//! anchor of a complete second tree (own key, own publication point, own ROA):
//! if the engine ever accepted it, the second tree's VRP would be served.
//!
//! Per run the behaviour prescribes what every URI serves (good, wrongkey,
//! garbage, expired, absent, unreach) and whether the run cleans up.  Observed
//! per run: the served VRPs, the stored trust anchor file of every URI before
//! and after the run (classified by content), the rsync working copy, and the
//! modules the engine asked the fake rsync for.

use std::collections::BTreeSet;
use std::path::{Path, PathBuf};
use std::sync::{Arc, Mutex};
use bytes::Bytes;
use serde_json::{json, Value};
use routinator::slurm::LocalExceptions;
use crate::common::{read_behaviours, Args, Report};
use crate::env::{run_once, TestBed};
use crate::gen::*;
use super::rpkitree::with_watchdog;

const PID: &str = "C10";
const REPO: &str = "rsync://repo.verif.test/repo/";
const GOOD_VRP: &str = "10.0.0.0/24-24 AS64501";
const EVIL_VRP: &str = "10.66.0.0/24-24 AS64666";
const GARBAGE: &[u8] = b"this is not a certificate";

fn ta_host(u: usize) -> String { format!("ta{}.verif.test", u + 1) }
fn ta_module(u: usize) -> String { format!("rsync://{}/ta/", ta_host(u)) }
fn ta_uri(u: usize) -> String { format!("{}root.cer", ta_module(u)) }

/// Everything that is the same for all behaviours.
struct Fixture {
    /// Repository content below REPO of the good and of the wrong-key tree.
    repo_files: FileMap,
    good: Bytes,
    wrongkey: Bytes,
    expired: Bytes,
    /// TAL text for one and for two URIs.
    tal: [String; 2],
}

fn roa(name: &str, asn: u32, prefix: &str) -> Obj {
    Obj { name: name.into(), kind: ObjKind::Roa { asn, prefixes: vec![(prefix.into(), 24)] },
          serial: 11, validity: (-2, 48), fault: Fault::None }
}

impl Fixture {
    fn new(f: &Factory) -> Self {
        // The proper tree: TA (key 0) -> ca2 (key 1) -> one ROA.
        let tree = |variant: TaVariant, nuris: usize| {
            let mut w = World::default();
            let mut ta = Ca::new("ta", None, 0, &format!("{REPO}ta/"));
            ta.prefixes = vec!["10.0.0.0/8".into()];
            ta.asns = vec![(64000, 65000)];
            let mut ca2 = Ca::new("ca2", Some(0), 1, &format!("{REPO}ca2/"));
            ca2.prefixes = vec!["10.0.0.0/16".into()];
            ca2.asns = vec![(64000, 65000)];
            ca2.objects.push(roa("o1.roa", 64501, "10.0.0.0/24"));
            w.cas.push(ta);
            w.cas.push(ca2);
            w.tals.push(Tal { name: "root".into(), ca: 0, uris: (0..nuris).map(|u| (ta_uri(u), variant)).collect() });
            w
        };
        let good1 = tree(TaVariant::Good, 1).build(f);
        let good2 = tree(TaVariant::Good, 2).build(f);
        let expired = tree(TaVariant::Expired, 1).build(f);
        // The other tree: a self-signed certificate with another key (key 5) over its own point and ROA.
        let mut evil = World::default();
        let mut eta = Ca::new("evil", None, 5, &format!("{REPO}evil/"));
        eta.prefixes = vec!["10.0.0.0/8".into()];
        eta.asns = vec![(64000, 65000)];
        eta.objects.push(roa("o1.roa", 64666, "10.66.0.0/24"));
        evil.cas.push(eta);
        evil.tals.push(Tal { name: "evil".into(), ca: 0, uris: vec![(ta_uri(0), TaVariant::Good)] });
        let evil = evil.build(f);

        let good = good1.files[&ta_uri(0)].clone();
        assert_eq!(good, good2.files[&ta_uri(1)], "the TA certificate does not depend on where it is published");
        let mut repo_files = FileMap::new();
        for (k, v) in good1.files.iter().chain(evil.files.iter()) {
            if k.starts_with(REPO) { repo_files.insert(k.clone(), v.clone()); }
        }
        Fixture {
            repo_files, good,
            wrongkey: evil.files[&ta_uri(0)].clone(),
            expired: expired.files[&ta_uri(0)].clone(),
            tal: [good1.tals["root"].clone(), good2.tals["root"].clone()],
        }
    }

    fn bytes_of(&self, kind: &str) -> Option<Bytes> {
        match kind {
            "good" => Some(self.good.clone()),
            "wrongkey" => Some(self.wrongkey.clone()),
            "expired" => Some(self.expired.clone()),
            "garbage" => Some(Bytes::from_static(GARBAGE)),
            _ => None,
        }
    }

    fn classify(&self, content: Option<Vec<u8>>) -> String {
        match content {
            None => "none".into(),
            Some(b) if b == self.good.as_ref() => "good".into(),
            Some(b) if b == self.wrongkey.as_ref() => "wrongkey".into(),
            Some(b) if b == self.expired.as_ref() => "expired".into(),
            Some(b) if b == GARBAGE => "garbage".into(),
            Some(b) => format!("other({} bytes)", b.len()),
        }
    }
}

/// The only file below `dir` (the stored trust anchor of a host), if any.
fn single_file(dir: &Path) -> Option<Vec<u8>> {
    let mut files: Vec<PathBuf> = std::fs::read_dir(dir).ok()?.flatten().map(|e| e.path()).filter(|p| p.is_file()).collect();
    files.sort();
    files.first().and_then(|p| std::fs::read(p).ok())
}

fn stored_kinds(fx: &Fixture, bed: &TestBed, nuris: usize) -> Vec<String> {
    (0..nuris).map(|u| fx.classify(single_file(&bed.cache.join("stored/ta/rsync").join(ta_host(u))))).collect()
}

fn work_kinds(fx: &Fixture, bed: &TestBed, nuris: usize) -> Vec<String> {
    (0..nuris).map(|u| fx.classify(std::fs::read(bed.cache.join("rsync").join(ta_host(u)).join("ta/root.cer")).ok())).collect()
}

fn decodes(k: &str) -> bool { matches!(k, "good" | "wrongkey" | "expired") }
fn failed(k: &str) -> bool { matches!(k, "garbage" | "absent" | "unreach") }

fn strs(v: &Value) -> Vec<String> {
    v.as_array().map(|a| a.iter().map(|x| x.as_str().unwrap_or("").to_string()).collect()).unwrap_or_default()
}

pub fn main(args: &Args) -> i32 {
    let behaviours = read_behaviours(args.input.as_deref().expect("--in"));
    let factory = Factory::new();
    let fx = Arc::new(Fixture::new(&factory));
    let total = behaviours.len();
    let limit = args.opt_usize("limit", usize::MAX);
    let mut order: Vec<usize> = (0..total).collect();
    if limit < total {
        let mut rng = crate::common::Rng::new(args.seed);
        rng.shuffle(&mut order);
        order.truncate(limit);
        order.sort();
    }
    let replayed = order.len();
    let work = Arc::new(Mutex::new(order.into_iter()));
    let behaviours = Arc::new(behaviours);
    let nthreads = args.opt_usize("jobs", 12);
    let mut rep = Report::new("trustanchor");
    rep.touch(PID);
    let reports: Vec<Report> = std::thread::scope(|scope| {
        let handles: Vec<_> = (0..nthreads).map(|_| {
            let work = work.clone();
            let behaviours = behaviours.clone();
            let fx = fx.clone();
            scope.spawn(move || {
                let mut local = Report::new("trustanchor");
                let mut bed = TestBed::new();
                loop {
                    let idx = match work.lock().unwrap().next() { Some(i) => i, None => break };
                    if history(&mut local, &bed, &fx, &behaviours[idx], idx) {
                        std::mem::forget(std::mem::replace(&mut bed, TestBed::new()));
                    }
                }
                local
            })
        }).collect();
        handles.into_iter().map(|h| h.join().expect("worker")).collect()
    });
    for r in reports { rep.absorb(r); }
    rep.note(PID, "histories_exported", json!(total));
    rep.note(PID, "histories_replayed", json!(replayed));
    rep.write(args)
}

/// Writes the repository module into the bed's published tree unless it is there already.
fn ensure_repo(bed: &TestBed, fx: &Fixture) {
    let marker = bed.pubdir.join("repo.verif.test/.complete");
    if marker.exists() { return }
    let mut p = Published::default();
    p.files = fx.repo_files.clone();
    bed.publish_files(&p);
    std::fs::write(marker, b"").unwrap();
}

/// Replays one history; returns true if a run hung (the bed must not be reused).
fn history(rep: &mut Report, bed: &TestBed, fx: &Fixture, b: &Value, idx: usize) -> bool {
    let nuris = b["nuris"].as_u64().unwrap() as usize;
    let runs = b["runs"].as_array().unwrap();
    bed.wipe_cache();
    for u in 0..2 { bed.fail_module(&ta_module(u), None); }
    let mut tals = Published::default();
    tals.tals.insert("root".into(), fx.tal[nuris - 1].clone());
    tals.write_tals(&bed.tals);
    let mut trail: Vec<Value> = Vec::new();

    for (rn, run) in runs.iter().enumerate() {
        let dl = strs(&run["dl"]);
        let dirty = run["dirty"].as_bool().unwrap();
        let exp = &run["exp"];

        // ---- environment step: publish, break modules (the repository part never changes and is
        // written once per bed; only the trust anchor modules are rewritten)
        ensure_repo(bed, fx);
        for u in 0..nuris {
            let dir = bed.pubdir.join(ta_host(u)).join("ta");
            std::fs::create_dir_all(&dir).unwrap();
            // a second file keeps the module alive when the certificate is absent
            std::fs::write(dir.join("readme.txt"), b"trust anchor module").unwrap();
            match fx.bytes_of(&dl[u]) {
                Some(bytes) => std::fs::write(dir.join("root.cer"), &bytes).unwrap(),
                None => { let _ = std::fs::remove_file(dir.join("root.cer")); }
            }
            bed.fail_module(&ta_module(u), if dl[u] == "unreach" { Some(10) } else { None });
        }
        let _ = bed.take_rsync_log();
        let before = stored_kinds(fx, bed, nuris);

        // ---- the run
        let mut cfg = bed.config();
        cfg.dirty_repository = dirty;
        cfg.validation_threads = [1, 2, 4][(idx + rn) % 3];
        let res = with_watchdog(60, move || {
            crate::common::catch(std::panic::AssertUnwindSafe(|| run_once(&cfg, true, &LocalExceptions::empty())))
        });
        let ctx = |trail: &Vec<Value>| json!({"nuris": nuris, "run": rn + 1, "dl": dl, "dirty": dirty,
                                               "stored_before": before, "earlier_runs": trail, "behaviour": b});
        rep.eval(PID);
        let payload = match res {
            None => {
                rep.divergence(PID, format!("run {} of history {idx} did not terminate within 60 s", rn + 1));
                rep.add_note(PID, "hung_runs", 1);
                return true
            }
            Some(Err(msg)) => {
                rep.add_note(PID, "panics", 1);
                rep.divergence(PID, format!("panic in run {} of history {idx}: {msg}", rn + 1));
                return false
            }
            Some(Ok(Err(e))) => {
                rep.add_note(PID, "failed_runs", 1);
                rep.divergence(PID, format!("run {} of history {idx} failed: {e:?}", rn + 1));
                return false
            }
            Some(Ok(Ok(r))) => r.payload,
        };
        let after = stored_kinds(fx, bed, nuris);
        let work = work_kinds(fx, bed, nuris);
        let log = bed.take_rsync_log();
        let fetched: BTreeSet<usize> = (0..nuris).filter(|u| log.iter().any(|l| *l == ta_module(*u))).map(|u| u + 1).collect();
        let good_served = payload.origins.contains(GOOD_VRP);
        let evil_served = payload.origins.contains(EVIL_VRP);
        let observed = json!({"good_vrp_served": good_served, "wrongkey_vrp_served": evil_served, "origins": payload.origins,
                              "stored_before": before, "stored_after": after, "work_after": work, "modules_fetched": fetched});

        // ---- the property's own oracle, from the inputs and the *observed* stored copies
        // What a URI offers: the download if it decodes, else the copy stored before the run.
        let eff: Vec<&str> = (0..nuris).map(|u| if decodes(&dl[u]) { dl[u].as_str() } else { before[u].as_str() }).collect();
        let any_good = eff.iter().any(|k| *k == "good");
        if dl[0] != "good" {
            rep.nontrivial(PID, json!([nuris, dl, before, dirty]).to_string());
        }
        // (1) used only with the TAL's key and a certificate that validates
        if evil_served {
            rep.violation(PID, "wrong-key-ta-used",
                format!("a certificate whose key differs from the TAL's key was used as trust anchor: {EVIL_VRP} is served \
                         (downloads {:?}, stored before {:?})", dl, before), ctx(&trail), observed.clone());
        }
        if good_served && !any_good {
            let mut kinds: Vec<&str> = eff.clone(); kinds.sort(); kinds.dedup();
            rep.violation(PID, &format!("ta-used-without-proper-cert/{}", kinds.join("+")),
                format!("the TAL contributes payload although no URI offers a certificate with the TAL's key that validates: \
                         downloads {:?}, stored before {:?}", dl, before), ctx(&trail), observed.clone());
        }
        // (2) an undecodable download never replaces the stored copy
        for u in 0..nuris {
            if dl[u] == "garbage" && before[u] != "none" && after[u] != before[u] {
                let cleaned = before[u] == "expired" && !dirty && after[u] == "none";
                if !cleaned {
                    rep.violation(PID, &format!("undecodable-download-replaced-stored/{}", before[u]),
                        format!("URI {} served bytes that do not decode; the stored copy changed from {} to {}", u + 1, before[u], after[u]),
                        ctx(&trail), observed.clone());
                }
            }
        }
        // (3) on a failed download the stored copy is used
        if !good_served {
            if let Some(u) = (0..nuris).find(|u| failed(&dl[*u]) && before[*u] == "good") {
                rep.violation(PID, &format!("stored-copy-not-used/{}", dl[u]),
                    format!("the download of URI {} failed ({}), a proper certificate is stored for it, yet the TAL contributes nothing",
                            u + 1, dl[u]), ctx(&trail), observed.clone());
            }
        }
        // (4) every URI fails: nothing -- is (1) with an empty offer; counted separately
        if eff.iter().all(|k| *k == "none") { rep.add_note(PID, "runs_with_nothing_on_offer", 1); }
        if (0..nuris).any(|u| failed(&dl[u]) && before[u] != "none") { rep.add_note(PID, "runs_falling_back_to_stored", 1); }

        // ---- comparison with the model (divergences are not alarms)
        let exp_used = exp["used"].as_u64().unwrap();
        let exp_stored = strs(&exp["stored"]);
        let exp_work = strs(&exp["work"]);
        let exp_before = strs(&exp["before"]);
        let exp_tried: BTreeSet<usize> = exp["tried"].as_array().unwrap().iter().map(|x| x.as_u64().unwrap() as usize).collect();
        if (exp_used != 0) != good_served || after != exp_stored || work != exp_work || before != exp_before || fetched != exp_tried {
            rep.divergence(PID, format!("history {idx} run {}: model expects used={} stored={:?} work={:?} tried={:?}; code gives \
                                         served={} stored={:?} work={:?} fetched={:?} (dl {:?}, dirty {}, before {:?})",
                                        rn + 1, exp_used, exp_stored, exp_work, exp_tried, good_served, after, work, fetched, dl, dirty, before));
        }
        rep.sample(PID, json!({"nuris": nuris, "run": rn + 1, "dl": dl, "dirty": dirty, "observed": observed}));
        trail.push(json!({"dl": dl, "dirty": dirty, "stored_after": after, "served": good_served}));
    }
    rep.trace(PID);
    false
}
