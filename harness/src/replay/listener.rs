//! Replay of `Gen_Listener` behaviours against the real RTR listener and the
//! real client-address registry (C19, C36).
//!
//! C19: connection sequences (which connection fails its setup, which ones
//!   arrive while the listener task is parked) are opened against a real
//!   `rtr_listener`; setup failures come from hook H6 or, hook-free, from a
//!   keepalive time the kernel rejects.  Oracle: every healthy connection
//!   gets its Reset Query answered, every failing one is closed, whatever
//!   happened to earlier connections.
//! C36: registry schedules are driven through `RtrServerMetrics::get_client`
//!   with named threads parked at the metrics-* preemption points; after
//!   every step the list must be sorted, hold exactly one entry per address,
//!   keep every entry it ever had (same object) and count the open
//!   connections per address.  Plus free-running stress and real RTR
//!   connections from several loopback addresses.

use std::cell::RefCell;
use std::collections::{BTreeMap, BTreeSet, HashSet};
use std::io::Read;
use std::os::fd::AsRawFd;
use std::net::{IpAddr, Ipv4Addr, TcpStream};
use std::sync::{mpsc, Arc, Barrier};
use std::time::{Duration, Instant};
use serde_json::{json, Value};
use routinator::metrics::{RtrClientMetrics, RtrServerMetrics};
use crate::common::{read_behaviours, Args, Report, Rng};
use crate::env::server::*;
use super::history::{concrete, slurm};

pub const PROPS: [&str; 2] = ["C19", "C36"];

pub fn main(args: &Args) -> i32 {
    let behaviours = match args.input.as_deref() { Some(p) => read_behaviours(p), None => Vec::new() };
    let mut rep = Report::new("listener");
    let (shard, nshards) = match args.opt("shard") {
        Some(s) => { let (a, b) = s.split_once('/').unwrap(); (a.parse::<usize>().unwrap(), b.parse::<usize>().unwrap()) }
        None => (0, 1),
    };
    crate::env::init_process();
    // self-test aid: fault switches of the code under test (only mutated scratch copies read any)
    if let Ok(list) = std::env::var("VERIF_SWITCHES") {
        for name in list.split(',').filter(|x| !x.is_empty()) { routinator::verif::set_switch(name, true); }
    }
    if args.wants("C19") {
        rep.touch("C19");
        c19(&mut rep, args, &behaviours, shard, nshards);
    }
    if args.wants("C36") {
        rep.touch("C36");
        c36(&mut rep, args, &behaviours, shard, nshards);
    }
    rep.write(args)
}

//============ C19 ==============================================================

/// How connection setups are made to fail.
#[derive(Clone, Copy, Debug, PartialEq, Eq)]
enum Mode {
    /// hook H6, no keepalive configured
    Hook,
    /// hook H6, a keepalive time the kernel accepts (set_keepalive succeeds)
    HookKeepaliveOk,
    /// hook-free: a keepalive time the kernel rejects, every setup fails
    KeepaliveRejected,
}

impl Mode {
    fn name(self) -> &'static str {
        match self { Mode::Hook => "hook", Mode::HookKeepaliveOk => "hook+keepalive-accepted", Mode::KeepaliveRejected => "keepalive-rejected" }
    }
    fn sig(self) -> &'static str {
        match self {
            Mode::Hook | Mode::HookKeepaliveOk => "listener-stuck/after-setup-failure",
            Mode::KeepaliveRejected => "listener-stuck/after-keepalive-rejected",
        }
    }
}

const KEEPALIVE_REJECTED: u64 = 40000;
const KEEPALIVE_ACCEPTED: u64 = 60;

/// Does this kernel refuse TCP_KEEPIDLE / TCP_KEEPINTVL = secs?
fn kernel_rejects_keepalive(secs: u64) -> bool {
    use std::os::fd::AsRawFd;
    let sock = match std::net::TcpListener::bind("127.0.0.1:0") { Ok(s) => s, Err(_) => return false };
    let v: libc::c_int = secs as libc::c_int;
    let mut rejected = false;
    for opt in [libc::TCP_KEEPIDLE, libc::TCP_KEEPINTVL] {
        let rc = unsafe {
            libc::setsockopt(sock.as_raw_fd(), libc::IPPROTO_TCP, opt, &v as *const _ as *const libc::c_void,
                             std::mem::size_of::<libc::c_int>() as libc::socklen_t)
        };
        if rc != 0 { rejected = true; }
    }
    rejected
}

#[derive(Clone, Debug)]
struct Plan { fail: Vec<bool>, quiet: Vec<bool>,
              /// the whole group of connections is queued in the backlog while the runtime's workers are kept busy,
              /// so that the listener meets all of them in one poll
              held: bool,
              /// reset[i]: the client of connection i resets it (SO_LINGER 0, close) right after connecting, so the
              /// listener accepts a connection whose peer is gone already (empty = none)
              reset: Vec<bool> }

impl Plan {
    fn n(&self) -> usize { self.fail.len() }
    fn json(&self, mode: Mode) -> Value {
        json!({"kind": "conns", "mode": mode.name(), "n": self.n(), "fail": self.fail, "quiet": self.quiet, "held_until_queued": self.held, "reset_by_client": self.reset,
               "keepalive_secs": match mode { Mode::Hook => Value::Null, Mode::HookKeepaliveOk => json!(KEEPALIVE_ACCEPTED), Mode::KeepaliveRejected => json!(KEEPALIVE_REJECTED) }})
    }
}

/// What the client saw on one connection.
#[derive(Clone, Debug, PartialEq, Eq)]
enum Seen { Served, Closed, Pending, ConnectFailed(String), Other(String) }

impl Seen {
    fn text(&self) -> String {
        match self { Seen::Served => "served".into(), Seen::Closed => "closed".into(), Seen::Pending => "pending".into(),
                     Seen::ConnectFailed(e) => format!("connect-failed:{e}"), Seen::Other(e) => format!("other:{e}") }
    }
}

fn classify(ans: &RtrAnswer) -> Seen {
    let k = ans.kind.as_str();
    if k == "cache-response" { Seen::Served }
    else if k == "timeout" { Seen::Pending }
    else if k == "eof" || k == "write-failed" || k.starts_with("read:") { Seen::Closed }
    else { Seen::Other(k.to_string()) }
}

/// Opens the connections of the plan against a fresh server and reports what
/// each client saw.  `wait` bounds the time a client waits for its answer.
fn attempt(plan: &Plan, mode: Mode, wait: Duration) -> Result<Vec<Seen>, String> {
    let keepalive = match mode {
        Mode::Hook => None,
        Mode::HookKeepaliveOk => Some(Duration::from_secs(KEEPALIVE_ACCEPTED)),
        Mode::KeepaliveRejected => Some(Duration::from_secs(KEEPALIVE_REJECTED)),
    };
    let mut fx = Fixture::start(|c| { c.rtr_tcp_keepalive = keepalive; c.rtr_client_metrics = true; });
    fx.process_once(&slurm(&concrete(1)), true).map_err(|_| "process_once failed".to_string())?;
    match mode {
        Mode::KeepaliveRejected => routinator::verif::set_rtr_setup_failures(None),
        _ => {
            let set: HashSet<usize> = plan.fail.iter().enumerate().filter(|x| *x.1).map(|x| x.0 + 1).collect();
            routinator::verif::set_rtr_setup_failures(Some(set));
        }
    }
    let port = fx.rtr_port;
    let mut seen: Vec<Seen> = Vec::new();
    let mut stuck = false;
    let mut i = 0;
    while i < plan.n() {
        // a group: connection i and the following ones that arrive in a burst
        let mut j = i + 1;
        while j < plan.n() && !plan.quiet[j] { j += 1 }
        if plan.quiet[i] {
            // give the listener task time to drain the queue and park
            std::thread::sleep(Duration::from_millis(40));
        }
        let mut socks: Vec<Result<TcpStream, String>> = Vec::new();
        if plan.held {
            // occupy every worker of the server's runtime (4) while the connections are being queued
            for _ in 0..8 { fx.runtime.spawn(async { std::thread::sleep(Duration::from_millis(250)) }); }
            std::thread::sleep(Duration::from_millis(30));
        }
        let mut gone: Vec<bool> = Vec::new();
        for c in i..j {
            let sock = TcpStream::connect(("127.0.0.1", port)).map_err(|e| e.to_string());
            if plan.reset.get(c).copied().unwrap_or(false) {
                // RST instead of FIN: the connection stays in the accept queue, its peer is gone
                if let Ok(s) = sock.as_ref() {
                    let l = libc::linger { l_onoff: 1, l_linger: 0 };
                    unsafe { libc::setsockopt(s.as_raw_fd(), libc::SOL_SOCKET, libc::SO_LINGER, &l as *const _ as *const libc::c_void,
                                              std::mem::size_of::<libc::linger>() as libc::socklen_t); }
                }
                drop(sock);
                gone.push(true);
                socks.push(Err("reset by the client".into()));
            }
            else { gone.push(false); socks.push(sock); }
        }
        if plan.held { std::thread::sleep(Duration::from_millis(300)); }
        for (k, s) in socks.iter_mut().enumerate() {
            if gone[k] { seen.push(Seen::Closed); continue }
            let w = if stuck { wait.min(Duration::from_millis(300)) } else { wait };
            let r = match s {
                Ok(sock) => classify(&rtr_query_on(sock, None, w)),
                Err(e) => Seen::ConnectFailed(e.clone()),
            };
            if r == Seen::Pending { stuck = true; }
            seen.push(r);
        }
        drop(socks);
        i = j;
    }
    routinator::verif::set_rtr_setup_failures(None);
    drop(fx);
    Ok(seen)
}

/// The verdict on one attempt.
#[derive(Debug, PartialEq, Eq)]
enum Verdict {
    Held,
    /// connection index (0-based) that was neither served nor closed after an earlier setup failure
    Stuck(usize),
    /// connection index of a connection that was refused, or of a healthy one that was closed instead of
    /// served, after an earlier setup failure (the listener is gone)
    Refused(usize),
    /// something the property does not talk about went wrong (harness / model fidelity)
    Odd(String),
}

fn judge(plan: &Plan, mode: Mode, seen: &[Seen]) -> Verdict {
    let fails = |c: usize| mode == Mode::KeepaliveRejected || plan.fail[c];
    let mut failed_before = false;
    for c in 0..plan.n() {
        let s = &seen[c];
        if !fails(c) {
            match s {
                Seen::Served => {}
                Seen::Pending if failed_before => return Verdict::Stuck(c),
                Seen::Closed | Seen::ConnectFailed(_) if failed_before => return Verdict::Refused(c),
                other => return Verdict::Odd(format!("healthy connection {} with no failed setup before it: {}", c + 1, other.text())),
            }
        }
        else {
            match s {
                Seen::Closed => {}
                Seen::Pending if failed_before => return Verdict::Stuck(c),
                Seen::ConnectFailed(_) if failed_before => return Verdict::Refused(c),
                other => return Verdict::Odd(format!("connection {} whose setup must fail: {}", c + 1, other.text())),
            }
            failed_before = true;
        }
    }
    Verdict::Held
}

fn c19(rep: &mut Report, args: &Args, behaviours: &[Value], shard: usize, nshards: usize) {
    let mut plans: Vec<(Plan, Mode)> = Vec::new();
    // log at the default level of a real server (warn): the arguments of warn!() and error!() are evaluated as they
    // are in production (with logging off they are not)
    crate::env::init_process();
    if std::env::var_os("VERIF_LOG").is_none() { log::set_max_level(log::LevelFilter::Warn); }
    let rejects = kernel_rejects_keepalive(KEEPALIVE_REJECTED);
    let accepts = !kernel_rejects_keepalive(KEEPALIVE_ACCEPTED);
    rep.note("C19", "kernel_rejects_keepalive_40000", json!(rejects));
    rep.note("C19", "kernel_accepts_keepalive_60", json!(accepts));
    let mut seen_timing: BTreeSet<Vec<bool>> = BTreeSet::new();
    let mut k = 0usize;
    for b in behaviours.iter().filter(|b| b["kind"] == "conns") {
        let plan = Plan {
            fail: b["fail"].as_array().unwrap().iter().map(|x| x.as_bool().unwrap()).collect(),
            quiet: b["quiet"].as_array().unwrap().iter().map(|x| x.as_bool().unwrap()).collect(),
            held: false, reset: Vec::new(),
        };
        plans.push((plan.clone(), Mode::Hook));
        // the keepalive-accepted configuration on every fifth sequence (all of them in the thorough tier)
        if accepts && (args.thorough() || k % 5 == 0) { plans.push((plan.clone(), Mode::HookKeepaliveOk)); }
        // keepalive rejected: every setup fails, only the arrival pattern matters
        if rejects && seen_timing.insert(plan.quiet.clone()) {
            plans.push((Plan { fail: vec![true; plan.n()], quiet: plan.quiet.clone(), held: false, reset: Vec::new() }, Mode::KeepaliveRejected));
        }
        k += 1;
    }
    // longer sequences with random failures and arrival timing
    let mut rng = Rng::new(args.seed ^ 0xC19);
    let extra = if args.thorough() { 120 } else { 12 };
    for _ in 0..extra {
        let n = 5 + rng.below(4) as usize;
        let plan = Plan { fail: (0..n).map(|_| rng.below(3) == 0).collect(), quiet: (0..n).map(|_| rng.below(2) == 0).collect(), held: false, reset: Vec::new() };
        let mode = match rng.below(4) { 0 if rejects => Mode::KeepaliveRejected, 1 if accepts => Mode::HookKeepaliveOk, _ => Mode::Hook };
        let plan = if mode == Mode::KeepaliveRejected { Plan { fail: vec![true; n], quiet: plan.quiet, held: false, reset: Vec::new() } } else { plan };
        plans.push((plan, mode));
    }
    // bursts: many connections are already queued when the listener is polled (routers reconnecting at once
    // while the runtime is busy); the failing set-ups of one poll are then handled in one loop of poll_next
    for n in if args.thorough() { vec![9usize, 12, 17, 33] } else { vec![9usize, 12] } {
        let mut quiet = vec![false; n]; quiet[0] = true;
        let mut fail = vec![true; n]; fail[n - 1] = false;
        plans.push((Plan { fail, quiet: quiet.clone(), held: true, reset: Vec::new() }, Mode::Hook));
        if rejects { plans.push((Plan { fail: vec![true; n], quiet, held: true, reset: Vec::new() }, Mode::KeepaliveRejected)); }
    }

    // clients that are gone when the listener gets to them: the set-up of a connection whose peer has reset it fails too
    // (and whatever the failure path does with the socket must cope with a peer that is not there)
    for n in if args.thorough() { vec![2usize, 3, 5, 9] } else { vec![3usize, 5] } {
        // the last two are ordinary clients: one in the burst, one that comes when the listener has dealt with the burst
        // (whatever is still queued when a listener goes away is closed by the kernel, which looks like a dropped set-up)
        let n = n + 1;
        let mut quiet = vec![false; n]; quiet[0] = true; quiet[n - 1] = true;
        let mut reset = vec![true; n]; reset[n - 1] = false; reset[n - 2] = false;
        let mut fail = vec![true; n]; fail[n - 1] = false; fail[n - 2] = false;
        for held in [true, false] {
            plans.push((Plan { fail: fail.clone(), quiet: quiet.clone(), held, reset: reset.clone() }, Mode::Hook));
            if accepts { plans.push((Plan { fail: fail.clone(), quiet: quiet.clone(), held, reset: reset.clone() }, Mode::HookKeepaliveOk)); }
            if rejects { plans.push((Plan { fail: vec![true; n], quiet: quiet.clone(), held, reset: reset.clone() }, Mode::KeepaliveRejected)); }
        }
    }

    let base = Duration::from_millis(args.opt_usize("wait_ms", 2500) as u64);
    let mut confirmed: BTreeMap<&'static str, usize> = BTreeMap::new();
    for (idx, (plan, mode)) in plans.iter().enumerate() {
        if idx % nshards != shard { continue }
        let mode = *mode;
        let beh = plan.json(mode);
        let antecedent = (0..plan.n().saturating_sub(1)).any(|c| mode == Mode::KeepaliveRejected || plan.fail[c]);
        let mut verdicts: Vec<(Verdict, Vec<Seen>)> = Vec::new();
        let already = *confirmed.get(mode.sig()).unwrap_or(&0);
        // A suspected violation is re-tried twice with longer waits; once the
        // same signature has been confirmed that way twice in this process,
        // further sequences are judged on the first attempt.
        let tries = if already >= 2 { 1 } else { 3 };
        let waits = [base, base * 8 / 5, base * 12 / 5];
        for t in 0..tries {
            let wait = if already >= 2 { base.min(Duration::from_millis(700)) } else { waits[t] };
            let seen = match attempt(plan, mode, wait) {
                Ok(s) => s,
                Err(e) => { verdicts.push((Verdict::Odd(e), Vec::new())); break }
            };
            let v = judge(plan, mode, &seen);
            let held = v == Verdict::Held;
            verdicts.push((v, seen));
            if held { break }
        }
        if std::env::var_os("VERIF_DEBUG_LISTENER").is_some() {
            eprintln!("PLAN {} -> {:?}", beh, verdicts.iter().map(|(v, s)| (format!("{v:?}"), s.iter().map(|x| x.text()).collect::<Vec<_>>())).collect::<Vec<_>>());
        }
        rep.evals("C19", plan.n() as u64);
        let (last, seen) = verdicts.last().unwrap();
        let observed = json!({"attempts": verdicts.iter().map(|(v, s)| json!({"verdict": format!("{:?}", v), "seen": s.iter().map(|x| x.text()).collect::<Vec<_>>()})).collect::<Vec<_>>()});
        match last {
            Verdict::Held => {
                if verdicts.len() > 1 { rep.add_note("C19", "suspects_not_confirmed_on_retry", 1); }
                rep.trace("C19");
                if antecedent { rep.nontrivial("C19", beh.to_string()); }
                rep.sample("C19", json!({"behaviour": beh, "seen": seen.iter().map(|x| x.text()).collect::<Vec<_>>()}));
            }
            Verdict::Stuck(c) | Verdict::Refused(c) => {
                let refused = matches!(last, Verdict::Refused(_));
                let all_stuck = verdicts.iter().all(|(v, _)| matches!(v, Verdict::Stuck(_) | Verdict::Refused(_)));
                if all_stuck && refused {
                    rep.trace("C19");
                    if antecedent { rep.nontrivial("C19", beh.to_string()); }
                    rep.violation("C19", &mode.sig().replace("listener-stuck", "listener-gone"),
                        format!("connection {} opened after a failed setup ({}) was refused or closed instead of served: the listener \
                                 stopped listening", c + 1, mode.name()),
                        beh, observed);
                }
                else if all_stuck {
                    *confirmed.entry(mode.sig()).or_insert(0) += 1;
                    rep.trace("C19");
                    if antecedent { rep.nontrivial("C19", beh.to_string()); }
                    let first_fail = (0..plan.n()).find(|&x| mode == Mode::KeepaliveRejected || plan.fail[x]).unwrap_or(0);
                    rep.violation("C19", mode.sig(),
                        format!("connection {} failed its setup ({}); connection {} opened afterwards was neither served nor closed within {} ms \
                                 (confirmed on {} attempt(s) with growing waits): the listener no longer accepts",
                                first_fail + 1, mode.name(), c + 1, (if already >= 2 { base.min(Duration::from_millis(700)) } else { waits[verdicts.len() - 1] }).as_millis(), verdicts.len()),
                        beh, observed);
                }
                else {
                    rep.add_note("C19", "suspects_not_confirmed_on_retry", 1);
                    rep.divergence("C19", format!("inconsistent attempts for {}: {}", beh, observed));
                }
            }
            Verdict::Odd(e) => {
                rep.add_note("C19", "unrealised_sequences", 1);
                rep.divergence("C19", format!("sequence not realisable: {e} ({beh})"));
            }
        }
    }
    if shard == 0 && args.opt("no_emfile").is_none() {
        accept_error_probe(rep);
    }
}

/// Outside the statement of C19 but the same mechanism (Listener.tla
/// AcceptError): make accept() fail with EMFILE while a connection is
/// queued, lift the limit again and see whether the listener recovers.  The
/// outcome is recorded as a note / divergence, never as a violation.
fn accept_error_probe(rep: &mut Report) {
    let mut fx = Fixture::start(|c| { c.rtr_client_metrics = true; });
    if fx.process_once(&slurm(&concrete(1)), true).is_err() { return }
    routinator::verif::set_rtr_setup_failures(None);
    let port = fx.rtr_port;
    // healthy first
    let first = classify(&rtr_query(port, None, Duration::from_secs(5)));
    if first != Seen::Served { rep.divergence("C19", format!("accept-error probe: first connection {}", first.text())); return }
    std::thread::sleep(Duration::from_millis(50));
    let mut old = libc::rlimit { rlim_cur: 0, rlim_max: 0 };
    if unsafe { libc::getrlimit(libc::RLIMIT_NOFILE, &mut old) } != 0 { return }
    let low = libc::rlimit { rlim_cur: 3, rlim_max: old.rlim_max };
    // connect() on an existing socket needs no new descriptor: create the client sockets before lowering the limit
    let pre: Vec<_> = (0..2).filter_map(|_| {
        let fd = unsafe { libc::socket(libc::AF_INET, libc::SOCK_STREAM, 0) };
        if fd >= 0 { Some(fd) } else { None }
    }).collect();
    if pre.len() < 2 { for fd in pre { unsafe { libc::close(fd); } } return }
    let addr = libc::sockaddr_in {
        sin_family: libc::AF_INET as libc::sa_family_t, sin_port: port.to_be(),
        sin_addr: libc::in_addr { s_addr: u32::from(Ipv4Addr::LOCALHOST).to_be() }, sin_zero: [0; 8],
    };
    let connect = |fd: i32| unsafe {
        libc::connect(fd, &addr as *const _ as *const libc::sockaddr, std::mem::size_of::<libc::sockaddr_in>() as libc::socklen_t)
    };
    unsafe { libc::setrlimit(libc::RLIMIT_NOFILE, &low); }
    let rc1 = connect(pre[0]);
    std::thread::sleep(Duration::from_millis(300));       // the listener's accept() fails with EMFILE meanwhile
    unsafe { libc::setrlimit(libc::RLIMIT_NOFILE, &old); }
    std::thread::sleep(Duration::from_millis(300));       // longer than the 100 ms back-off
    let rc2 = connect(pre[1]);
    use std::os::fd::FromRawFd;
    let mut s1 = unsafe { TcpStream::from_raw_fd(pre[0]) };
    let mut s2 = unsafe { TcpStream::from_raw_fd(pre[1]) };
    if rc1 != 0 || rc2 != 0 { rep.divergence("C19", "accept-error probe: connect failed"); return }
    let a1 = classify(&rtr_query_on(&mut s1, None, Duration::from_secs(3)));
    let a2 = classify(&rtr_query_on(&mut s2, None, Duration::from_secs(3)));
    rep.note("C19", "accept_error_probe", json!({"queued_during_emfile": a1.text(), "after_limit_lifted": a2.text()}));
    if a1 != Seen::Served || a2 != Seen::Served {
        rep.divergence("C19", format!(
            "accept-error probe (outside the statement of C19, Listener.tla AcceptError as_shipped): after accept() failed with EMFILE \
             the queued connection was {} and a later one {}: the back-off sleep is created but never polled (rtr.rs:176-180)",
            a1.text(), a2.text()));
    }
    drop(fx);
}

//============ C36 ==============================================================

fn ip(k: i64) -> IpAddr {
    // order preserving: 0, 1 -> IPv4; 2, 3, ... -> IPv6 (IpAddr orders V4 before V6)
    match k {
        0 => "10.0.0.1".parse().unwrap(),
        1 => "10.0.0.2".parse().unwrap(),
        k => format!("2001:db8::{:x}", k).parse().unwrap(),
    }
}

/// The addresses of the two metrics objects behind a client handle
/// (global, per-address).
fn handle_ptrs(h: &RtrClientMetrics) -> Vec<usize> {
    let ptrs = RefCell::new(Vec::new());
    h.update(|m| ptrs.borrow_mut().push(m as *const _ as usize));
    ptrs.into_inner()
}

fn client_ptr(h: &RtrClientMetrics) -> usize { handle_ptrs(h).get(1).copied().unwrap_or(0) }

#[derive(Clone, Copy, Debug, PartialEq, Eq)]
enum Phase { Start, AfterLoad, LockPending, AfterLock, BeforeStore, Got, Open, Closed }

enum Cmd { Get(IpAddr), Inc, Dec, Stop }
enum Ack { Got(usize, usize), Done(usize) }

const P_LOAD: &str = "metrics-after-load";
const P_LOCK: &str = "metrics-after-lock";
const P_STORE: &str = "metrics-before-store";

struct Worker { name: String, tx: mpsc::Sender<Cmd>, phase: Phase, addr: IpAddr, ptr: usize, join: Option<std::thread::JoinHandle<()>> }

struct RegistryRun<'a> {
    metrics: Arc<RtrServerMetrics>,
    gate: &'a Arc<Gate>,
    workers: Vec<Worker>,
    ack_rx: mpsc::Receiver<Ack>,
    pre: Vec<IpAddr>,
    /// (address, object) pairs seen in the list so far
    ever: BTreeMap<IpAddr, usize>,
    deferred: usize,
    bypass: usize,
}

impl<'a> RegistryRun<'a> {
    fn new(gate: &'a Arc<Gate>, addrs: &[IpAddr], pre: &[IpAddr]) -> Self {
        let metrics = Arc::new(RtrServerMetrics::new(true));
        for a in pre { let _ = metrics.get_client(*a); }
        let (ack_tx, ack_rx) = mpsc::channel();
        let mut workers = Vec::new();
        for (i, a) in addrs.iter().enumerate() {
            let name = format!("T{}", i + 1);
            for p in [P_LOAD, P_LOCK, P_STORE] { gate.arm(&name, p); }
            let (tx, rx) = mpsc::channel::<Cmd>();
            let m = metrics.clone();
            let ack = ack_tx.clone();
            let tname = name.clone();
            let join = std::thread::spawn(move || {
                routinator::verif::set_thread_name(&tname);
                let mut handle: Option<RtrClientMetrics> = None;
                while let Ok(cmd) = rx.recv() {
                    match cmd {
                        Cmd::Get(a) => {
                            let h = m.get_client(a);
                            let _ = ack.send(Ack::Got(i, client_ptr(&h)));
                            handle = Some(h);
                        }
                        Cmd::Inc => { if let Some(h) = handle.as_ref() { h.update(|x| x.inc_current_connections()); } let _ = ack.send(Ack::Done(i)); }
                        Cmd::Dec => { if let Some(h) = handle.as_ref() { h.update(|x| x.dec_current_connections()); } let _ = ack.send(Ack::Done(i)); }
                        Cmd::Stop => break,
                    }
                }
            });
            workers.push(Worker { name, tx, phase: Phase::Start, addr: *a, ptr: 0, join: Some(join) });
        }
        RegistryRun { metrics, gate, workers, ack_rx, pre: pre.to_vec(), ever: BTreeMap::new(), deferred: 0, bypass: 0 }
    }

    /// Promotes workers that were blocked on the mutex and have meanwhile
    /// got it (they park at metrics-after-lock).
    fn refresh(&mut self) {
        for w in self.workers.iter_mut() {
            if w.phase == Phase::LockPending && self.gate.is_parked(&w.name, P_LOCK) { w.phase = Phase::AfterLock; }
        }
    }

    /// Does another worker hold the write mutex (as far as the harness knows)?
    fn mutex_held_by_other(&self, t: usize) -> bool {
        self.workers.iter().enumerate().any(|(i, w)| i != t && matches!(w.phase, Phase::AfterLock | Phase::BeforeStore))
    }

    /// Another worker is blocked on the mutex or may just have acquired it.
    fn mutex_contended_by_other(&self, t: usize) -> bool {
        self.workers.iter().enumerate().any(|(i, w)| i != t && w.phase == Phase::LockPending)
    }

    /// Waits until worker t is parked at `point` or has returned from get.
    fn wait_point_or_got(&mut self, t: usize, point: &str, timeout: Duration) -> Option<Phase> {
        let t0 = Instant::now();
        loop {
            if self.gate.is_parked(&self.workers[t].name, point) {
                return Some(match point { P_LOAD => Phase::AfterLoad, P_LOCK => Phase::AfterLock, _ => Phase::BeforeStore })
            }
            while let Ok(a) = self.ack_rx.try_recv() {
                if let Ack::Got(i, ptr) = a { self.workers[i].phase = Phase::Got; self.workers[i].ptr = ptr; }
            }
            if self.workers[t].phase == Phase::Got { return Some(Phase::Got) }
            if t0.elapsed() > timeout { return None }
            std::thread::sleep(Duration::from_micros(200));
        }
    }

    /// Lets worker t take its next step.  Returns false if it could not move
    /// (blocked on the mutex) or has nothing left to do.
    fn step(&mut self, t: usize) -> Result<bool, String> {
        let long = Duration::from_secs(5);
        let short = Duration::from_millis(15);
        let name = self.workers[t].name.clone();
        match self.workers[t].phase {
            Phase::Start => {
                self.workers[t].tx.send(Cmd::Get(self.workers[t].addr)).map_err(|_| "worker gone")?;
                match self.wait_point_or_got(t, P_LOAD, long) {
                    Some(p) => { self.workers[t].phase = p; Ok(true) }
                    None => Err(format!("{name} did not reach {P_LOAD}")),
                }
            }
            Phase::AfterLoad | Phase::LockPending => {
                self.refresh();
                if self.workers[t].phase == Phase::AfterLock { return Ok(true) }
                let held = self.mutex_held_by_other(t);
                let maybe = held || self.mutex_contended_by_other(t);
                if self.workers[t].phase == Phase::AfterLoad { self.gate.release(&name, P_LOAD); }
                match self.wait_point_or_got(t, P_LOCK, if maybe { short } else { long }) {
                    Some(p) => {
                        if held { self.bypass += 1; }
                        self.workers[t].phase = p; Ok(true)
                    }
                    None if maybe => {
                        self.workers[t].phase = Phase::LockPending;
                        if held { self.deferred += 1; }
                        Ok(false)
                    }
                    None => Err(format!("{name} did not reach {P_LOCK} although the mutex is free")),
                }
            }
            Phase::AfterLock => {
                self.gate.release(&name, P_LOCK);
                match self.wait_point_or_got(t, P_STORE, long) {
                    Some(p) => { self.workers[t].phase = p; Ok(true) }
                    None => Err(format!("{name} did not reach {P_STORE}")),
                }
            }
            Phase::BeforeStore => {
                self.gate.release(&name, P_STORE);
                match self.wait_point_or_got(t, "-", long) {
                    Some(p) => { self.workers[t].phase = p; Ok(true) }
                    None => Err(format!("{name} did not return from get")),
                }
            }
            Phase::Got | Phase::Open => {
                let inc = self.workers[t].phase == Phase::Got;
                self.workers[t].tx.send(if inc { Cmd::Inc } else { Cmd::Dec }).map_err(|_| "worker gone")?;
                let t0 = Instant::now();
                loop {
                    match self.ack_rx.recv_timeout(Duration::from_millis(100)) {
                        Ok(Ack::Done(i)) if i == t => break,
                        Ok(Ack::Got(i, ptr)) => { self.workers[i].phase = Phase::Got; self.workers[i].ptr = ptr; }
                        _ => {}
                    }
                    if t0.elapsed() > long { return Err(format!("{name} did not acknowledge inc/dec")) }
                }
                self.workers[t].phase = if inc { Phase::Open } else { Phase::Closed };
                Ok(true)
            }
            Phase::Closed => Ok(false),
        }
    }

    /// The property-level invariants on the real list.  Returns (sig, detail).
    fn check(&mut self) -> Result<Value, (String, String, Value)> {
        check_list(&self.metrics, &self.pre, &mut self.ever,
            &self.workers.iter().map(|w| Holder { addr: w.addr, has: matches!(w.phase, Phase::Got | Phase::Open | Phase::Closed),
                                                   open: w.phase == Phase::Open, ptr: w.ptr, name: w.name.clone() }).collect::<Vec<_>>())
    }

    fn finish(mut self) {
        self.gate.disarm_all();
        for w in self.workers.iter_mut() {
            let _ = w.tx.send(Cmd::Stop);
        }
        for w in self.workers.iter_mut() {
            if let Some(j) = w.join.take() { let _ = j.join(); }
        }
    }
}

struct Holder { addr: IpAddr, has: bool, open: bool, ptr: usize, name: String }

/// Checks a registry list against what the holders of handles know.
fn check_list(metrics: &RtrServerMetrics, pre: &[IpAddr], ever: &mut BTreeMap<IpAddr, usize>, holders: &[Holder])
              -> Result<Value, (String, String, Value)> {
    let list = metrics.clients().expect("per-client metrics are enabled");
    let view: Vec<(IpAddr, usize, usize)> = list.iter().map(|(a, m)| (*a, Arc::as_ptr(m) as usize, m.current_connections())).collect();
    let observed = json!({"list": view.iter().map(|x| json!({"addr": x.0.to_string(), "open": x.2})).collect::<Vec<_>>(),
                          "global_open": metrics.global().current_connections(),
                          "holders": holders.iter().map(|h| json!({"thread": h.name, "addr": h.addr.to_string(), "has_handle": h.has, "open": h.open})).collect::<Vec<_>>()});
    let fail = |sig: &str, detail: String| Err((sig.to_string(), detail, observed.clone()));
    for w in view.windows(2) {
        if w[0].0 == w[1].0 { return fail("registry/duplicate-address", format!("address {} has two entries", w[0].0)) }
        if w[0].0 > w[1].0 { return fail("registry/unsorted", format!("{} is listed before {}", w[0].0, w[1].0)) }
    }
    let addrs: Vec<IpAddr> = view.iter().map(|x| x.0).collect();
    let mut dup = BTreeSet::new();
    for a in &addrs { if !dup.insert(*a) { return fail("registry/duplicate-address", format!("address {a} has two entries")) } }
    for a in pre { if !addrs.contains(a) { return fail("registry/address-lost", format!("address {a} registered earlier is gone")) } }
    for (a, p) in ever.iter() {
        match view.iter().find(|x| x.0 == *a) {
            None => return fail("registry/address-lost", format!("address {a} was listed earlier and is gone")),
            Some(x) if x.1 != *p => return fail("registry/entry-replaced", format!("the entry of {a} now refers to another metrics object")),
            _ => {}
        }
    }
    for x in &view { ever.insert(x.0, x.1); }
    for h in holders.iter().filter(|h| h.has) {
        match view.iter().find(|x| x.0 == h.addr) {
            None => return fail("registry/address-lost", format!("{} was handed metrics for {} but the list has no entry for it", h.name, h.addr)),
            Some(x) if x.1 != h.ptr => return fail("registry/entry-replaced",
                format!("{} holds a metrics object for {} that is not the one in the list", h.name, h.addr)),
            _ => {}
        }
    }
    for x in &view {
        let open = holders.iter().filter(|h| h.open && h.addr == x.0).count();
        if x.2 != open {
            let sig = if holders.iter().all(|h| !h.open) { "registry/nonzero-after-close" } else { "registry/count-mismatch" };
            return fail(sig, format!("{} shows {} open connections, {} are open", x.0, x.2, open))
        }
    }
    let open = holders.iter().filter(|h| h.open).count();
    if metrics.global().current_connections() != open {
        return fail("registry/global-count-mismatch", format!("global gauge shows {}, {} connections are open", metrics.global().current_connections(), open))
    }
    Ok(observed)
}

fn registry_schedule(rep: &mut Report, gate: &Arc<Gate>, b: &Value, idx: usize) {
    let addrs: Vec<IpAddr> = b["addr"].as_array().unwrap().iter().map(|x| ip(x.as_i64().unwrap())).collect();
    let pre: Vec<IpAddr> = b["pre"].as_array().unwrap().iter().map(|x| ip(x.as_i64().unwrap())).collect();
    let steps = b["steps"].as_array().unwrap();
    let variant = b["variant"].as_str().unwrap_or("as_coded");
    let shape: Vec<String> = steps.iter().map(|s| format!("{}{}", s["s"].as_str().unwrap(), s["t"])).collect();
    let beh = json!({"kind": "registry", "variant": variant, "addr": b["addr"], "pre": b["pre"], "schedule": shape, "behaviour_index": idx});
    gate.disarm_all();
    let _ = gate.take_log();
    let mut run = RegistryRun::new(gate, &addrs, &pre);
    let mut failed: Option<String> = None;
    let mut violated = false;
    let mut model_ok = variant == "as_coded";
    let mut order: Vec<usize> = steps.iter().map(|s| s["t"].as_u64().unwrap() as usize - 1).collect();
    let mut drain_since: Option<Instant> = None;
    let mut si = 0;
    loop {
        if run.workers.iter().all(|w| w.phase == Phase::Closed) { break }
        // drain: whatever the schedule left undone (threads that were blocked on the mutex), round robin
        if si >= order.len() {
            let since = *drain_since.get_or_insert_with(Instant::now);
            if since.elapsed() > Duration::from_secs(15) { break }
            for t in 0..addrs.len() { order.push(t); }
        }
        let t = order[si];
        match run.step(t) {
            Ok(moved) => {
                if !moved && si < steps.len() { model_ok = false; }
            }
            Err(e) => { failed = Some(e); break }
        }
        rep.eval("C36");
        match run.check() {
            Ok(obs) => {
                if model_ok && si < steps.len() {
                    let exp = &steps[si]["o"];
                    let l: Vec<String> = exp["l"].as_array().unwrap().iter().map(|x| ip(x.as_i64().unwrap()).to_string()).collect();
                    let got: Vec<String> = obs["list"].as_array().unwrap().iter().map(|x| x["addr"].as_str().unwrap().to_string()).collect();
                    let c: Vec<u64> = exp["c"].as_array().unwrap().iter().map(|x| x.as_u64().unwrap()).collect();
                    let gotc: Vec<u64> = obs["list"].as_array().unwrap().iter().map(|x| x["open"].as_u64().unwrap()).collect();
                    if l != got || c != gotc {
                        rep.divergence("C36", format!("step {si} of {:?}: list {:?}/{:?} where the model expects {:?}/{:?}", shape, got, gotc, l, c));
                        rep.add_note("C36", "model_mismatches", 1);
                        model_ok = false;
                    }
                }
            }
            Err((sig, detail, observed)) => {
                let mut beh = beh.clone();
                beh["step_index"] = json!(si);
                rep.violation("C36", &sig, detail, beh, observed);
                violated = true;
                break
            }
        }
        si += 1;
    }
    let all_closed = run.workers.iter().all(|w| w.phase == Phase::Closed);
    if run.deferred > 0 { rep.add_note("C36", "steps_deferred_by_the_mutex", run.deferred as u64); }
    if run.bypass > 0 { rep.add_note("C36", "mutex_bypassed", run.bypass as u64); }
    let contended = run.deferred > 0 || run.bypass > 0;
    run.finish();
    if let Some(e) = failed {
        rep.divergence("C36", format!("schedule not realisable: {e} ({:?})", shape));
        rep.add_note("C36", "unrealised_schedules", 1);
        return
    }
    if !violated && !all_closed {
        rep.divergence("C36", format!("schedule did not complete ({:?})", shape));
        rep.add_note("C36", "unrealised_schedules", 1);
        return
    }
    rep.trace("C36");
    // non-trivial: two threads were inside get() at the same time
    let mut inside: BTreeSet<u64> = BTreeSet::new();
    let mut concurrent = contended;
    for s in steps {
        let t = s["t"].as_u64().unwrap();
        match s["pc"].as_str().unwrap_or("") {
            "loaded" | "locked" | "insert" => { inside.insert(t); }
            _ => { inside.remove(&t); }
        }
        if inside.len() > 1 { concurrent = true; }
    }
    if concurrent { rep.nontrivial("C36", format!("{variant}:{}:{}:{:?}", b["addr"], b["pre"], shape)); }
    rep.sample("C36", beh);
}

/// N threads x M addresses, free running.
/// The gauges themselves: connections of one address opened and closed from many threads at once, many times.  Every
/// open is one increment and every close one decrement of the per-address and of the global count, so both must be
/// zero when everything is closed (Listener.tla: Inc, Dec are single steps; variant dec_load_store is rejected).
fn gauge_hammer(rep: &mut Report, round: usize) {
    let metrics = Arc::new(RtrServerMetrics::new(true));
    let addr = IpAddr::V4(Ipv4Addr::new(10, 9, 9, (round % 250) as u8 + 1));
    let nthreads = 8;
    let per_thread = 40_000;
    let start = Arc::new(Barrier::new(nthreads));
    let joins: Vec<_> = (0..nthreads).map(|_| {
        let (m, start) = (metrics.clone(), start.clone());
        std::thread::spawn(move || {
            let h = m.get_client(addr);
            start.wait();
            for k in 0..per_thread {
                h.update(|x| x.inc_current_connections());
                if k % 7 == 0 { std::thread::yield_now(); }
                h.update(|x| x.dec_current_connections());
            }
        })
    }).collect();
    for j in joins { let _ = j.join(); }
    rep.eval("C36");
    let global = metrics.global().current_connections();
    let per_addr = metrics.clients().and_then(|l| l.iter().find(|(a, _)| *a == addr).map(|(_, m)| m.current_connections()));
    let beh = json!({"kind": "gauge-hammer", "threads": nthreads, "opens_and_closes_per_thread": per_thread, "round": round});
    if global != 0 || per_addr != Some(0) {
        rep.violation("C36", "registry/nonzero-after-close",
            format!("{} connections of {addr} were opened and closed from {nthreads} threads; afterwards the global gauge shows {global}, the per-address gauge {per_addr:?}", nthreads * per_thread),
            beh, json!({"global": global, "per_address": per_addr}));
    }
    else { rep.nontrivial("C36", format!("gauge-hammer:{round}")); }
}

fn registry_stress(rep: &mut Report, seed: u64, round: usize, nthreads: usize, naddrs: usize) {
    let metrics = Arc::new(RtrServerMetrics::new(true));
    let addrs: Vec<IpAddr> = (0..naddrs).map(|i| {
        if i % 2 == 0 { IpAddr::V4(Ipv4Addr::new(10, (i / 251) as u8, (i % 251) as u8, 7)) }
        else { format!("2001:db8:{:x}::1", i).parse().unwrap() }
    }).collect();
    let beh = json!({"kind": "stress", "threads": nthreads, "addresses": naddrs, "round": round, "seed": seed});
    routinator::verif::trace_start();
    let start = Arc::new(Barrier::new(nthreads));
    let mid = Arc::new(Barrier::new(nthreads + 1));
    let end = Arc::new(Barrier::new(nthreads + 1));
    let mut joins = Vec::new();
    for t in 0..nthreads {
        let (m, start, mid, end) = (metrics.clone(), start.clone(), mid.clone(), end.clone());
        let mut order = addrs.clone();
        let mut rng = Rng::new(seed ^ ((round as u64) << 20) ^ t as u64);
        // half of the threads walk the same order (maximal contention on first use), the others shuffle
        if t % 2 == 1 { rng.shuffle(&mut order); }
        joins.push(std::thread::spawn(move || {
            routinator::verif::set_thread_name(&format!("S{t}"));
            start.wait();
            let mut handles: Vec<(IpAddr, RtrClientMetrics)> = Vec::new();
            for a in order {
                let h = m.get_client(a);
                h.update(|x| x.inc_current_connections());
                handles.push((a, h));
            }
            // a second handle for every address: must be the same object
            let again: Vec<(IpAddr, usize)> = handles.iter().map(|(a, _)| (*a, client_ptr(&m.get_client(*a)))).collect();
            let ptrs: Vec<(IpAddr, usize)> = handles.iter().map(|(a, h)| (*a, client_ptr(h))).collect();
            mid.wait();     // main checks the list with everything open
            mid.wait();
            for (_, h) in &handles { h.update(|x| x.dec_current_connections()); }
            end.wait();
            (ptrs, again)
        }));
    }
    mid.wait();
    let mut ever = BTreeMap::new();
    // with everything open: every address must show nthreads connections
    let list = metrics.clients().unwrap();
    let mut violation: Option<(String, String, Value)> = None;
    let view = json!(list.iter().map(|(a, m)| json!({"addr": a.to_string(), "open": m.current_connections()})).collect::<Vec<_>>());
    if list.len() != naddrs {
        violation = Some((if list.len() < naddrs { "registry/address-lost" } else { "registry/duplicate-address" }.into(),
            format!("{} addresses connected, the list has {} entries", naddrs, list.len()), view.clone()));
    }
    else if let Some((a, m)) = list.iter().find(|(_, m)| m.current_connections() != nthreads) {
        violation = Some(("registry/count-mismatch".into(),
            format!("{} shows {} open connections, {} are open (an entry was replaced while handles to the old object were out)", a, m.current_connections(), nthreads), view.clone()));
    }
    mid.wait();
    end.wait();
    let mut holders = Vec::new();
    for (t, j) in joins.into_iter().enumerate() {
        let (ptrs, again) = j.join().unwrap();
        for ((a, p), (_, q)) in ptrs.iter().zip(again.iter()) {
            if p != q && violation.is_none() {
                violation = Some(("registry/entry-replaced".into(), format!("thread S{t} got two different metrics objects for {a}"), view.clone()));
            }
            holders.push(Holder { addr: *a, has: true, open: false, ptr: *p, name: format!("S{t}") });
        }
    }
    rep.eval("C36");
    if violation.is_none() {
        if let Err(v) = check_list(&metrics, &[], &mut ever, &holders) {
            // keep the observation small
            violation = Some((v.0, v.1, json!({"entries": metrics.clients().unwrap().len()})));
        }
    }
    // the recorded inserts (under the write mutex) must be 1, 2, ..., M
    let trace = routinator::verif::trace_take();
    let lens: Vec<i64> = trace.iter().filter_map(|l| serde_json::from_str::<Value>(l).ok())
        .filter(|v| v["ev"] == "RegistryInsert").map(|v| v["len"].as_i64().unwrap_or(-1)).collect();
    let expect: Vec<i64> = (1..=naddrs as i64).collect();
    if lens != expect {
        if violation.is_none() && lens.len() > naddrs {
            violation = Some(("registry/duplicate-insert".into(),
                format!("{} inserts recorded for {} addresses (lengths after insert: {:?})", lens.len(), naddrs, &lens[..lens.len().min(40)]), json!({})));
        }
        else { rep.divergence("C36", format!("stress: insert trace {:?} is not 1..{}", &lens[..lens.len().min(40)], naddrs)); }
    }
    match violation {
        Some((sig, detail, observed)) => rep.violation("C36", &sig, detail, beh, observed),
        None => {
            rep.trace("C36");
            rep.nontrivial("C36", format!("stress:{nthreads}x{naddrs}:{round}"));
        }
    }
}

fn connect_from(src: Ipv4Addr, port: u16) -> Result<TcpStream, String> {
    use std::os::fd::FromRawFd;
    unsafe {
        let fd = libc::socket(libc::AF_INET, libc::SOCK_STREAM | libc::SOCK_CLOEXEC, 0);
        if fd < 0 { return Err("socket".into()) }
        let mk = |a: Ipv4Addr, p: u16| libc::sockaddr_in {
            sin_family: libc::AF_INET as libc::sa_family_t, sin_port: p.to_be(),
            sin_addr: libc::in_addr { s_addr: u32::from(a).to_be() }, sin_zero: [0; 8],
        };
        let len = std::mem::size_of::<libc::sockaddr_in>() as libc::socklen_t;
        let s = mk(src, 0);
        if libc::bind(fd, &s as *const _ as *const libc::sockaddr, len) != 0 { libc::close(fd); return Err(format!("bind {src}: {}", std::io::Error::last_os_error())) }
        let d = mk(Ipv4Addr::LOCALHOST, port);
        if libc::connect(fd, &d as *const _ as *const libc::sockaddr, len) != 0 { libc::close(fd); return Err(format!("connect: {}", std::io::Error::last_os_error())) }
        Ok(TcpStream::from_raw_fd(fd))
    }
}

/// Real RTR connections from several loopback source addresses, opened and
/// closed concurrently.
fn real_connections(rep: &mut Report, seed: u64, round: usize, nconn: usize, naddr: usize) {
    let mut fx = Fixture::start(|c| { c.rtr_client_metrics = true; });
    if fx.process_once(&slurm(&concrete(1)), true).is_err() { rep.divergence("C36", "real connections: process_once failed"); return }
    routinator::verif::set_rtr_setup_failures(None);
    let port = fx.rtr_port;
    let metrics = fx.rtr_metrics.clone();
    let beh = json!({"kind": "connections", "connections": nconn, "source_addresses": naddr, "round": round, "seed": seed});
    let srcs: Vec<Ipv4Addr> = (0..naddr).map(|i| Ipv4Addr::new(127, 0, (round % 200) as u8, 2 + i as u8)).collect();
    let all_open = Arc::new(Barrier::new(nconn + 1));
    let mut joins = Vec::new();
    for k in 0..nconn {
        let src = srcs[k % naddr];
        let all_open = all_open.clone();
        let mut rng = Rng::new(seed ^ ((round as u64) << 16) ^ k as u64);
        joins.push(std::thread::spawn(move || -> Result<(), String> {
            // a short-lived connection first (open/close racing with the others' first connections) ...
            if rng.below(2) == 0 {
                let mut s = connect_from(src, port)?;
                let a = rtr_query_on(&mut s, None, Duration::from_secs(10));
                if a.kind != "cache-response" { all_open.wait(); all_open.wait(); return Err(format!("short connection: {}", a.kind)) }
                drop(s);
            }
            // ... then one that stays open until everybody is connected
            let mut s = match connect_from(src, port) { Ok(s) => s, Err(e) => { all_open.wait(); all_open.wait(); return Err(e) } };
            let a = rtr_query_on(&mut s, None, Duration::from_secs(10));
            all_open.wait();
            all_open.wait();
            if rng.below(2) == 0 { std::thread::sleep(Duration::from_millis(rng.below(20))); }
            let mut buf = [0u8; 1];
            s.set_read_timeout(Some(Duration::from_millis(1))).ok();
            let _ = s.read(&mut buf);
            drop(s);
            if a.kind != "cache-response" { return Err(format!("long connection: {}", a.kind)) }
            Ok(())
        }));
    }
    all_open.wait();
    // everybody's long connection has been answered, i.e. accepted and counted; short ones may still be closing
    let expect_open = |a: &Ipv4Addr| (0..nconn).filter(|k| srcs[k % naddr] == *a).count();
    let settle = |want_zero: bool| -> Result<Value, (String, String, Value)> {
        let t0 = Instant::now();
        loop {
            let list = metrics.clients().unwrap();
            let view = json!({"list": list.iter().map(|(a, m)| json!({"addr": a.to_string(), "open": m.current_connections()})).collect::<Vec<_>>(),
                              "global_open": metrics.global().current_connections()});
            let mut bad: Option<(String, String)> = None;
            let addrs: Vec<IpAddr> = list.iter().map(|x| x.0).collect();
            for w in addrs.windows(2) {
                if w[0] == w[1] { bad = Some(("connections/duplicate-address".into(), format!("{} listed twice", w[0]))); }
                else if w[0] > w[1] { bad = Some(("connections/unsorted".into(), format!("{} listed before {}", w[0], w[1]))); }
            }
            if bad.is_some() { let b = bad.unwrap(); return Err((b.0, b.1, view)) }
            for a in &srcs {
                let want = if want_zero { 0 } else { expect_open(a) };
                match list.iter().find(|x| x.0 == IpAddr::V4(*a)) {
                    None => { bad = Some(("connections/address-lost".into(), format!("no entry for {a} although it connected"))); }
                    Some(x) if x.1.current_connections() != want => {
                        bad = Some((if want_zero { "connections/nonzero-after-close" } else { "connections/count-mismatch-open" }.into(),
                                    format!("{} shows {} open connections, {} are open", a, x.1.current_connections(), want)));
                    }
                    _ => {}
                }
            }
            let want_global = if want_zero { 0 } else { nconn };
            if bad.is_none() && metrics.global().current_connections() != want_global {
                bad = Some((if want_zero { "connections/nonzero-after-close" } else { "connections/count-mismatch-open" }.into(),
                            format!("global gauge shows {}, {} connections are open", metrics.global().current_connections(), want_global)));
            }
            match bad {
                None => return Ok(view),
                // gauges move when the server task notices the close: poll for a while
                Some(b) if t0.elapsed() > Duration::from_secs(8) || b.0.ends_with("address-lost") && t0.elapsed() > Duration::from_secs(2) => return Err((b.0, b.1, view)),
                Some(_) => std::thread::sleep(Duration::from_millis(20)),
            }
        }
    };
    rep.eval("C36");
    let mid = settle(false);
    all_open.wait();
    let mut errs = Vec::new();
    for j in joins { if let Ok(Err(e)) = j.join() { errs.push(e); } }
    if !errs.is_empty() {
        rep.divergence("C36", format!("real connections: client errors {:?}", errs));
        rep.add_note("C36", "unrealised_connection_rounds", 1);
        return
    }
    rep.eval("C36");
    let res = mid.and_then(|_| settle(true));
    match res {
        Ok(_) => { rep.trace("C36"); rep.nontrivial("C36", format!("connections:{nconn}x{naddr}:{round}")); }
        Err((sig, detail, observed)) => rep.violation("C36", &sig, detail, beh, observed),
    }
    drop(fx);
}

/// Connections whose set-up fails (a keepalive time the kernel rejects) are never open connections: once the clients
/// have been turned away, every gauge the server shows must be zero.
fn failed_setup_gauges(rep: &mut Report, round: usize) {
    if !kernel_rejects_keepalive(KEEPALIVE_REJECTED) { rep.add_note("C36", "failed_setup_gauges_skipped", 1); return }
    let mut fx = Fixture::start(|c| { c.rtr_client_metrics = true; c.rtr_tcp_keepalive = Some(Duration::from_secs(KEEPALIVE_REJECTED)); });
    if fx.process_once(&slurm(&concrete(1)), true).is_err() { rep.divergence("C36", "failed set-ups: process_once failed"); return }
    routinator::verif::set_rtr_setup_failures(None);
    let port = fx.rtr_port;
    let n = 3 + round % 4;
    for k in 0..n {
        let src = Ipv4Addr::new(127, 0, 77, 2 + (k % 2) as u8);
        if let Ok(mut s) = connect_from(src, port) { let _ = rtr_query_on(&mut s, None, Duration::from_millis(800)); }
    }
    std::thread::sleep(Duration::from_millis(200));
    rep.eval("C36");
    let metrics = fx.rtr_metrics.clone();
    let global = metrics.global().current_connections();
    let per: Vec<(String, usize)> = metrics.clients().map(|l| l.iter().map(|(a, m)| (a.to_string(), m.current_connections())).collect()).unwrap_or_default();
    let beh = json!({"kind": "failed-setups", "connections": n, "keepalive_secs": KEEPALIVE_REJECTED, "round": round});
    if global != 0 || per.iter().any(|x| x.1 != 0) {
        rep.violation("C36", "connections/nonzero-after-failed-setup",
            format!("{n} connections were turned away at set-up (keepalive rejected) and are closed; the global gauge shows {global}, per address {per:?}"),
            beh, json!({"global": global, "per_address": per}));
    }
    else { rep.nontrivial("C36", format!("failed-setups:{round}")); }
    drop(fx);
}

fn c36(rep: &mut Report, args: &Args, behaviours: &[Value], shard: usize, nshards: usize) {
    let gate = Gate::install();
    for (idx, b) in behaviours.iter().filter(|b| b["kind"] == "registry").enumerate() {
        if idx % nshards != shard { continue }
        registry_schedule(rep, &gate, b, idx);
    }
    gate.disarm_all();
    Gate::uninstall();
    // free-running parts: split by round over the shards
    let rounds = if args.thorough() { 400 } else { 60 };
    for round in 0..rounds {
        if round % nshards != shard { continue }
        let (nt, na) = match round % 3 { 0 => (8, 24), 1 => (4, 64), _ => (12, 8) };
        registry_stress(rep, args.seed, round, nt, na);
        if round % 10 == 0 { gauge_hammer(rep, round); }
    }
    let rounds = if args.thorough() { 60 } else { 10 };
    for round in 0..rounds {
        if round % nshards != shard { continue }
        let (nc, na) = match round % 3 { 0 => (6, 3), 1 => (9, 2), _ => (8, 4) };
        real_connections(rep, args.seed, round, nc, na);
        if round % 3 == 0 { failed_setup_gauges(rep, round); }
    }
}
