//! Replay of `Gen_History` behaviours against `routinator::payload::SharedHistory`
//! (properties C13, C14).
//!
//! A behaviour: history size, then steps (`run d`, `seed b`).  After every
//! step the specification lists query points (client serial as symbolic
//! anchor+offset, own/foreign session) with: issued?, data set held at that
//! serial, in the must-serve window?, and the model's own answer.
//!
//! Data sets are installed through the public API: an empty validation
//! report plus SLURM prefix assertions.

use std::collections::BTreeSet;
use std::path::PathBuf;
use serde_json::{json, Value};
use routinator::config::Config;
use routinator::metrics::Metrics;
use routinator::payload::{SharedHistory, ValidationReport};
use routinator::slurm::LocalExceptions;
use rpki::rtr::payload::PayloadRef;
use rpki::rtr::server::{PayloadDiff, PayloadSource};
use rpki::rtr::{Serial, State};
use crate::common::{catch, read_behaviours, Args, Report};

/// The concrete data sets behind the abstract identifiers 0, 1, 2.
pub fn concrete(id: i64) -> BTreeSet<(String, u8, u32)> {
    let all = [
        ("10.1.0.0/16".to_string(), 16u8, 64501u32),
        ("2001:db8::/32".to_string(), 48, 64502),
        ("10.1.0.0/16".to_string(), 24, 64501),
    ];
    match id {
        0 => BTreeSet::new(),
        1 => [all[0].clone(), all[1].clone()].into_iter().collect(),
        2 => [all[1].clone(), all[2].clone()].into_iter().collect(),
        3 => [all[0].clone()].into_iter().collect(),
        _ => panic!("unknown data set id {id}"),
    }
}

pub fn slurm(set: &BTreeSet<(String, u8, u32)>) -> LocalExceptions {
    let items: Vec<Value> = set.iter().map(|(p, m, a)| {
        json!({"asn": a, "prefix": p, "maxPrefixLength": m})
    }).collect();
    let doc = json!({
        "slurmVersion": 1,
        "validationOutputFilters": {"prefixFilters": [], "bgpsecFilters": []},
        "locallyAddedAssertions": {"prefixAssertions": items, "bgpsecAssertions": []}
    });
    LocalExceptions::from_json(&doc.to_string(), false).expect("slurm")
}

pub fn sym(v: &Value) -> u32 {
    let base: u32 = match v["a"].as_str().unwrap() { "zero" => 0, "half" => 0x8000_0000, x => panic!("anchor {x}") };
    let o = v["o"].as_i64().unwrap();
    base.wrapping_add(o as i32 as u32)
}

fn sym2(a: &str, o: i64) -> u32 {
    let base: u32 = match a { "zero" => 0, "half" => 0x8000_0000, x => panic!("anchor {x}") };
    base.wrapping_add(o as i32 as u32)
}

pub fn config(keep: usize) -> Config {
    let mut c = Config::default_with_paths(PathBuf::from("/nonexistent/routinator.conf"),
                                           PathBuf::from("/nonexistent/cache"));
    c.history_size = keep;
    c
}

fn origins_of(p: PayloadRef<'_>) -> Option<(String, u8, u32)> {
    match p {
        PayloadRef::Origin(o) => Some((
            format!("{}/{}", o.prefix.addr(), o.prefix.prefix_len()),
            o.prefix.resolved_max_len(), o.asn.into_u32()
        )),
        // router keys travel in the same item type: ("key:<ski>", 0, asn)
        PayloadRef::RouterKey(k) => Some((format!("key:{}", k.key_identifier), 0, k.asn.into_u32())),
        _ => None,
    }
}

/// The router keys that go with a data set in this replay: one per route origin (ASN + 100, key identifier made of
/// the max length), so that a change of the data set changes origins and router keys alike and a change set has
/// both sections.
fn keys_with(set: &BTreeSet<(String, u8, u32)>) -> Vec<(u32, Vec<u8>, Vec<u8>)> {
    set.iter().map(|(_, m, a)| (a + 100, vec![*m; 20], {
        // a syntactically valid SubjectPublicKeyInfo is not needed: the key info is opaque bytes for SLURM
        vec![0xa0 + (*m % 16); 40]
    })).collect()
}

/// `concrete` plus the router keys of `keys_with`, in the item form of `origins_of`.
#[allow(dead_code)]
fn with_keys(set: &BTreeSet<(String, u8, u32)>) -> BTreeSet<(String, u8, u32)> {
    let mut res = set.clone();
    for (asn, ski, _) in keys_with(set) {
        let mut id = [0u8; 20];
        id.copy_from_slice(&ski);
        res.insert((format!("key:{}", rpki::crypto::KeyIdentifier::from(id)), 0, asn));
    }
    res
}

thread_local! {
    /// Flavour of the behaviour being replayed: the data sets 1 and 2 have the same route origins and differ only in
    /// their router keys (a change of one payload type alone is a change).
    static KEYS_ONLY: std::cell::Cell<bool> = const { std::cell::Cell::new(false) };
}

/// Origins and router keys of data set `d` under the current flavour.
fn parts(d: i64) -> (BTreeSet<(String, u8, u32)>, Vec<(u32, Vec<u8>, Vec<u8>)>) {
    if KEYS_ONLY.with(|k| k.get()) && (d == 1 || d == 2) { (concrete(1), keys_with(&concrete(d))) }
    else { (concrete(d), keys_with(&concrete(d))) }
}

/// The items of data set `d` (origins plus router keys, in the form of `origins_of`).
fn items(d: i64) -> BTreeSet<(String, u8, u32)> {
    let (mut res, keys) = parts(d);
    for (asn, ski, _) in keys {
        let mut id = [0u8; 20];
        id.copy_from_slice(&ski);
        res.insert((format!("key:{}", rpki::crypto::KeyIdentifier::from(id)), 0, asn));
    }
    res
}

fn slurm_of(d: i64) -> LocalExceptions {
    let b64 = |b: &[u8]| rpki::util::base64::Slurm.encode(b);
    let (set, keys) = parts(d);
    let items: Vec<Value> = set.iter().map(|(p, m, a)| json!({"asn": a, "prefix": p, "maxPrefixLength": m})).collect();
    let keys: Vec<Value> = keys.iter().map(|(asn, ski, info)| json!({"asn": asn, "SKI": b64(ski), "routerPublicKey": b64(info)})).collect();
    let doc = json!({
        "slurmVersion": 1,
        "validationOutputFilters": {"prefixFilters": [], "bgpsecFilters": []},
        "locallyAddedAssertions": {"prefixAssertions": items, "bgpsecAssertions": keys}
    });
    LocalExceptions::from_json(&doc.to_string(), false).expect("slurm with keys")
}

#[allow(dead_code)]
fn slurm_with_keys(set: &BTreeSet<(String, u8, u32)>) -> LocalExceptions {
    let b64 = |b: &[u8]| rpki::util::base64::Slurm.encode(b);
    let items: Vec<Value> = set.iter().map(|(p, m, a)| json!({"asn": a, "prefix": p, "maxPrefixLength": m})).collect();
    let keys: Vec<Value> = keys_with(set).iter().map(|(asn, ski, info)| json!({"asn": asn, "SKI": b64(ski), "routerPublicKey": b64(info)})).collect();
    let doc = json!({
        "slurmVersion": 1,
        "validationOutputFilters": {"prefixFilters": [], "bgpsecFilters": []},
        "locallyAddedAssertions": {"prefixAssertions": items, "bgpsecAssertions": keys}
    });
    LocalExceptions::from_json(&doc.to_string(), false).expect("slurm with keys")
}

pub fn main(args: &Args) -> i32 {
    let mut rep = Report::new("history");
    rep.touch("C13");
    rep.touch("C14");
    let behaviours = read_behaviours(args.input.as_deref().expect("--in"));
    for (bi, b) in behaviours.iter().enumerate() {
        // every third behaviour in the flavour "router keys only"
        KEYS_ONLY.with(|k| k.set(bi % 3 == 1));
        let res = catch(std::panic::AssertUnwindSafe(|| one(&mut rep, b, args)));
        if let Err(msg) = res {
            for pid in ["C13", "C14"] {
                if args.wants(pid) {
                    rep.violation(pid, "panic", format!("panic in history code: {msg}"), b.clone(), json!({"panic": msg}));
                }
            }
        }
    }
    rep.write(args)
}

fn one(rep: &mut Report, b: &Value, args: &Args) {
    let keep = b["keep"].as_u64().unwrap() as usize;
    let cap = keep.max(1);
    let cfg = config(keep);
    let hist = SharedHistory::from_config(&cfg);
    let own = hist.read().rtr_session();
    let steps = b["steps"].as_array().unwrap();
    let mut prev_serial: Option<u32> = None;
    let mut cur_set: Option<BTreeSet<(String, u8, u32)>> = None;
    let mut changes = 0usize;
    let mut evicted = false;
    let brief = |upto: usize| -> Value {
        json!({"keep": keep, "steps": steps[..=upto].iter().map(|s| json!({"act": s["act"], "arg": s["arg"]})).collect::<Vec<_>>()})
    };
    if hist.ready() {
        rep.violation("C13", "ready-before-first-run", "history reports ready before the first run", brief(0), json!({}));
    }
    for (si, step) in steps.iter().enumerate() {
        let act = step["act"].as_str().unwrap();
        match act {
            "run" => {
                let d = step["arg"].as_i64().unwrap();
                let set = items(d);
                let report = ValidationReport::new(&cfg);
                let changed = hist.update(report, &slurm_of(d), Metrics::new());
                hist.mark_update_done();
                let serial: u32 = hist.read().serial().into();
                let really_changed = cur_set.as_ref().map(|c| *c != set);
                if args.wants("C14") {
                    rep.eval("C14");
                    match (prev_serial, really_changed) {
                        (None, _) => {
                            if serial != 0 {
                                rep.violation("C14", "first-serial-not-zero", "first data set does not have serial 0",
                                    brief(si), json!({"serial": serial}));
                            }
                        }
                        (Some(p), Some(true)) => {
                            changes += 1;
                            if serial != p.wrapping_add(1) {
                                rep.violation("C14", "serial-step/changed", "serial did not advance by exactly one on a change",
                                    brief(si), json!({"before": p, "after": serial}));
                            }
                            if !changed {
                                rep.violation("C14", "update-result", "update() reported no change although the data set changed",
                                    brief(si), json!({}));
                            }
                        }
                        (Some(p), _) => {
                            if serial != p {
                                rep.violation("C14", "serial-step/unchanged", "serial changed although the data set did not",
                                    brief(si), json!({"before": p, "after": serial}));
                            }
                        }
                    }
                    if serial != sym(&step["serial"]) {
                        rep.divergence("C14", format!("serial {} differs from the model's {}", serial, sym(&step["serial"])));
                    }
                }
                prev_serial = Some(serial);
                cur_set = Some(set);
            }
            "seed" => {
                let s = sym(&step["arg"]);
                hist.verif_seed_serial(Serial::from(s));
                prev_serial = Some(s);
            }
            x => panic!("unknown step {x}"),
        }
        // C14: bounded history
        if args.wants("C14") {
            let n = hist.verif_delta_count();
            let model_n = step["ndeltas"].as_u64().unwrap() as usize;
            if changes + 1 > cap { evicted = true; }
            if n > cap {
                rep.violation("C14", &format!("unbounded-history/keep={}", if keep == 0 { "0" } else { "n" }),
                    format!("{n} change sets retained with history-size {keep} (limit {cap})"),
                    brief(si), json!({"retained": n}));
            }
            else if n != model_n {
                rep.divergence("C14", format!("retained {n} change sets, the model has {model_n}"));
            }
        }
        // C13: queries
        if !args.wants("C13") { continue }
        let cur = match cur_set.as_ref() { Some(c) => c, None => continue };
        let serial_now: u32 = hist.read().serial().into();
        for p in step["points"].as_array().unwrap() {
            let s = sym2(p[0].as_str().unwrap(), p[1].as_i64().unwrap());
            let is_own = p[2].as_bool().unwrap();
            let model = p[3].as_str().unwrap();
            let issued = p[4].as_bool().unwrap();
            let data_at = p[5].as_i64().unwrap();
            let window = p[6].as_bool().unwrap();
            let session = if is_own { own } else { own.wrapping_add(1) };
            rep.eval("C13");
            let res = hist.diff(State::from_parts(session, Serial::from(s)));
            let nontrivial = issued || window || s.wrapping_sub(serial_now) == 0x8000_0000 || !is_own;
            if nontrivial {
                rep.nontrivial("C13", format!("{}|{}|{}|{}", brief(si), s, is_own, model));
            }
            let point = json!({"client_serial": s, "own_session": is_own, "server_serial": serial_now,
                               "issued": issued, "window": window, "model": model});
            match res {
                None => {
                    if is_own && window {
                        rep.violation("C13", "refused-in-window",
                            "client at one of the retained serials was refused", brief(si), point.clone());
                    }
                    else if is_own && s == serial_now {
                        rep.violation("C13", "refused-at-current", "client at the current serial was refused",
                            brief(si), point.clone());
                    }
                    else if model != "refuse" {
                        rep.divergence("C13", format!("code refuses where the model answers {model}: {point}"));
                    }
                }
                Some((state, mut diff)) => {
                    let mut acts = Vec::new();
                    while let Some((pl, a)) = diff.next() {
                        acts.push((origins_of(pl), a.is_announce()));
                    }
                    let half = s.wrapping_sub(serial_now) == 0x8000_0000;
                    if !is_own {
                        rep.violation("C13", "served-foreign-session", "a foreign session was answered with a change set",
                            brief(si), point.clone());
                        continue
                    }
                    if !issued {
                        rep.violation("C13",
                            if half { "served-unissued/half-distance" } else { "served-unissued/other" },
                            format!("serial {s} was never issued by this session but was answered with a change set of {} actions (server serial {serial_now})", acts.len()),
                            brief(si), point.clone());
                        continue
                    }
                    // exactness
                    let mut have = items(data_at);
                    let mut ok = true;
                    for (item, ann) in &acts {
                        match item {
                            Some(it) => {
                                if *ann { if !have.insert(it.clone()) { ok = false } }
                                else if !have.remove(it) { ok = false }
                            }
                            None => ok = false,
                        }
                    }
                    if !ok || have != *cur {
                        rep.violation("C13", "inexact-change-set",
                            "change set does not turn the client's data into the current data",
                            brief(si), json!({"point": point, "actions": format!("{:?}", acts)}));
                    }
                    if u32::from(state.serial()) != serial_now || state.session() != own {
                        rep.violation("C13", "wrong-tag", "response not tagged with the current session/serial",
                            brief(si), json!({"point": point, "tag_serial": u32::from(state.serial())}));
                    }
                    if s == serial_now && !acts.is_empty() {
                        rep.violation("C13", "nonempty-at-current", "client at the current serial got a non-empty change set",
                            brief(si), point.clone());
                    }
                    if model == "refuse" {
                        rep.divergence("C13", format!("code answers where the model refuses: {point}"));
                    }
                }
            }
        }
    }
    rep.trace("C13");
    rep.trace("C14");
    if evicted {
        rep.nontrivial("C14", format!("{}", brief(steps.len() - 1)));
    }
    if changes >= 2 {
        rep.sample("C13", json!({"keep": keep, "steps": steps.iter().map(|s| json!({"act": s["act"], "arg": s["arg"], "serial": s["serial"], "queries": s["points"].as_array().map(|a| a.len())})).collect::<Vec<_>>()}));
        rep.sample("C14", json!({"keep": keep, "steps": steps.iter().map(|s| json!({"act": s["act"], "arg": s["arg"], "serial": s["serial"], "ndeltas": s["ndeltas"]})).collect::<Vec<_>>()}));
    }
}
