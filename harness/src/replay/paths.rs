//! Replay of `Gen_Paths` cases through the real engine (C30).
//!
//! A case is one or two URIs in a role ("kind"): rpkiManifest URIs of two
//! sibling CAs (`mft`; `mftn`: both CAs also carry an rpkiNotify URI), URIs of
//! two trust anchor locators (`ta` rsync, `tah` HTTPS), rpkiNotify URIs of two
//! CAs (`notify`; `notify1`: both CAs name the same manifest).  For every case real worlds are built with the object
//! factory - one with the first URI only, one with the second only, one with
//! both - published through the in-process rsync and HTTP doubles, validated
//! by the unmodified engine with the cache inside a jail directory, and
//! dumped (`Engine::dump`) into a sibling directory of the cache.
//!
//! Oracle (the property, not the model):
//!  * nothing appears in the jail (nor in the four directory levels above
//!    it) outside `cache/` and `dump/`;
//!  * for URIs that are not equivalent: what the code created on behalf of
//!    the one (tree of the single world minus the tree of the base world)
//!    shares no file with what it created for the other, no file of the one
//!    is a directory prefix of an entry of the other, and a run (or dump)
//!    that succeeds for each URI alone does not fail for both together.
//! The model's predicted entries are compared too; a difference is a model
//! divergence.

use std::collections::{BTreeMap, BTreeSet, HashMap};
use std::path::{Path, PathBuf};
use std::str::FromStr;
use std::sync::{Arc, Mutex, RwLock};
use bytes::Bytes;
use serde_json::{json, Value};
use routinator::slurm::LocalExceptions;
use rpki::uri;
use crate::common::{catch, read_behaviours, Args, Report};
use crate::env::{run_once, RunError, TestBed};
use crate::gen::*;

pub const PROPS: [&str; 1] = ["C30"];
const P: &str = "C30";

const TA_REPO: &str = "rsync://ta.test/ta/root/";
const TA_URI: &str = "rsync://ta.test/ta/t0.cer";
const FIXED_NOTIFY: &str = "https://r.test/n/notification.xml";

//------------ HTTP double ------------------------------------------------------

static HTTP_MAP: RwLock<Option<HashMap<String, Vec<u8>>>> = RwLock::new(None);
/// Cases that serve HTTP content run one at a time (the handler is process-global).
static HTTP_TURN: Mutex<()> = Mutex::new(());

fn install_http() {
    static ONCE: std::sync::Once = std::sync::Once::new();
    ONCE.call_once(|| {
        routinator::verif::set_http_override(Some(Arc::new(|uri: &str, _etag: Option<&[u8]>, _ims: Option<i64>| {
            let map = HTTP_MAP.read().unwrap_or_else(|e| e.into_inner());
            match map.as_ref().and_then(|m| m.get(uri)) {
                Some(body) => routinator::verif::HttpReply { status: 200, headers: Vec::new(), body: body.clone() },
                None => routinator::verif::HttpReply { status: 404, headers: Vec::new(), body: b"not found".to_vec() },
            }
        })));
    });
}

fn sha256_hex(data: &[u8]) -> String {
    hexs(rpki::crypto::DigestAlgorithm::sha256().digest(data).as_ref())
}

/// notification.xml and snapshot.xml publishing `files`.
fn rrdp_documents(snapshot_uri: &str, files: &[(String, Bytes)]) -> (Vec<u8>, Vec<u8>) {
    use rpki::rrdp::{Hash, NotificationFile, PublishElement, Snapshot, UriAndHash};
    let session = uuid::Uuid::from_u128(0x1234_5678_9abc_def0_1234_5678_9abc_def0);
    let elements: Vec<PublishElement> = files.iter().filter_map(|(u, b)| {
        uri::Rsync::from_str(u).ok().map(|u| PublishElement::new(u, b.clone()))
    }).collect();
    let mut snap = Vec::new();
    Snapshot::new(session, 1, elements).write_xml(&mut snap).expect("snapshot xml");
    let notif = NotificationFile::new(
        session, 1,
        UriAndHash::new(uri::Https::from_str(snapshot_uri).expect("snapshot uri"), Hash::from_data(&snap)),
        Vec::new(),
    );
    let mut n = Vec::new();
    notif.write_xml(&mut n).expect("notification xml");
    (n, snap)
}

//------------ Cases -------------------------------------------------------------

#[derive(Clone, Debug)]
struct Ent { n: String, file: bool, dump: bool, alt: bool }

#[derive(Clone, Debug)]
struct Case {
    kind: String,
    u: [String; 2],
    accept: [bool; 2],
    eq: bool,
    ents: [Vec<Ent>; 2],
    clash: bool,
    raw: Value,
}

fn long_seg(n: usize) -> String { "x".repeat(n) }

/// The model writes the 200 and 300 character segments as "x200" and "x300".
fn expand(s: &str) -> String { s.replace("x200", &long_seg(200)).replace("x300", &long_seg(300)) }

/// "#(text)" -> SHA-256 of text in hex (the model's uninterpreted hash).
fn subst_hash(s: &str) -> String {
    let mut out = String::new();
    let mut rest = s;
    while let Some(i) = rest.find("#(") {
        out.push_str(&rest[..i]);
        // the hashed text never contains ')' in this alphabet
        let end = rest[i..].find(')').map(|e| i + e).unwrap_or(rest.len());
        out.push_str(&sha256_hex(rest[i + 2..end].as_bytes()));
        rest = &rest[(end + 1).min(rest.len())..];
    }
    out.push_str(rest);
    out
}

fn parse_case(b: &Value) -> Case {
    let ents = |v: &Value| -> Vec<Ent> {
        v.as_array().map(|a| a.iter().map(|e| Ent {
            n: subst_hash(&expand(e["n"].as_str().unwrap())),
            file: e["t"] == "file",
            dump: e["w"] == "dump",
            // the name the dump registry gives the second repository of one authority (either may be second)
            alt: e["w"] == "dump2",
        }).collect()).unwrap_or_default()
    };
    Case {
        kind: b["kind"].as_str().unwrap().to_string(),
        u: [expand(b["u1"].as_str().unwrap()), expand(b["u2"].as_str().unwrap())],
        accept: [b["a1"].as_bool().unwrap(), b["a2"].as_bool().unwrap()],
        eq: b["eq"].as_bool().unwrap(),
        ents: [ents(&b["e1"]), ents(&b["e2"])],
        clash: b["clash"].as_array().map(|a| !a.is_empty()).unwrap_or(false),
        raw: b.clone(),
    }
}

fn brief(c: &Case) -> Value { json!({"kind": c.kind, "u1": short(&c.u[0]), "u2": short(&c.u[1])}) }

fn short(s: &str) -> String { s.replace(&long_seg(300), "x300").replace(&long_seg(200), "x200") }

fn real_accepts(kind: &str, u: &str) -> bool {
    if kind == "tah" || kind.starts_with("notify") { uri::Https::from_str(u).is_ok() } else { uri::Rsync::from_str(u).is_ok() }
}

//------------ Worlds ------------------------------------------------------------

struct Built {
    published: Published,
    http: HashMap<String, Vec<u8>>,
    /// payload (origin string) that shows the CA / TA of URI i was validated
    marks: [Option<String>; 2],
}

fn root_ca() -> Ca {
    let mut root = Ca::new("root", None, 0, TA_REPO);
    root.prefixes = vec!["10.0.0.0/8".into()];
    root.asns = vec![(64000, 65000)];
    root.objects.push(roa_obj("root.roa", 64500, "10.0.0.0", 8));
    root
}

fn roa_obj(name: &str, asn: u32, addr: &str, len: u8) -> Obj {
    Obj { name: name.into(), kind: ObjKind::Roa { asn, prefixes: vec![(format!("{addr}/{len}"), len)] },
          serial: 50, validity: (-2, 24), fault: Fault::None }
}

fn origin(addr: &str, len: u8, asn: u32) -> String { format!("{addr}/{len}-{len} AS{asn}") }

/// Splits an rsync URI into the directory URI (ends with '/') and the file name.
fn split_dir(u: &str) -> (String, String) {
    match u.rfind('/') {
        Some(i) => (u[..=i].to_string(), u[i + 1..].to_string()),
        None => (u.to_string(), String::new()),
    }
}

/// The world of a case with the URIs selected by `with`.
fn build(c: &Case, with: [bool; 2], f: &Factory) -> Built {
    let mut world = World::default();
    let mut http = HashMap::new();
    let mut marks = [None, None];
    world.tals.push(Tal { name: "t0".into(), ca: 0, uris: vec![(TA_URI.into(), TaVariant::Good)] });
    world.cas.push(root_ca());
    let mut https_tas: Vec<(usize, String)> = Vec::new();
    let mut rrdp_cas: Vec<(usize, String)> = Vec::new();
    // kind "mftr": the CAs whose objects the one RRDP repository FIXED_NOTIFY publishes
    let mut shared_rrdp: Vec<usize> = Vec::new();
    for i in 0..2 {
        if !with[i] { continue }
        let n = i + 1;
        let addr = format!("10.{n}.0.0");
        let idx = world.cas.len();
        match c.kind.as_str() {
            "mft" | "mftn" | "mftr" => {
                let (dir, name) = split_dir(&c.u[i]);
                let mut ca = Ca::new(&format!("c{n}"), Some(0), n, &dir);
                ca.mft_name = Some(name);
                ca.prefixes = vec![format!("{addr}/16")];
                ca.asns = vec![(64500 + n as u32, 64500 + n as u32)];
                ca.objects.push(roa_obj(&format!("c{n}.roa"), 64500 + n as u32, &addr, 16));
                if c.kind == "mftn" || c.kind == "mftr" { ca.notify = Some(FIXED_NOTIFY.into()); }
                if c.kind == "mftr" { shared_rrdp.push(idx); }
                world.cas.push(ca);
            }
            "notify" | "notify1" => {
                // notify1: both CAs name the same manifest (only one of them can be valid; the point file of
                // the other is created all the same)
                let dir = if c.kind == "notify1" { 1 } else { n };
                let mut ca = Ca::new(&format!("c{n}"), Some(0), n, &format!("rsync://o.test/m/c{dir}/"));
                ca.mft_name = Some(format!("c{dir}.mft"));
                ca.prefixes = vec![format!("{addr}/16")];
                ca.asns = vec![(64500 + n as u32, 64500 + n as u32)];
                ca.objects.push(roa_obj(&format!("c{n}.roa"), 64500 + n as u32, &addr, 16));
                ca.notify = Some(c.u[i].clone());
                rrdp_cas.push((idx, c.u[i].clone()));
                world.cas.push(ca);
            }
            "ta" | "tah" => {
                let mut ca = Ca::new(&format!("r{n}"), None, n, &format!("rsync://ta.test/r{n}/"));
                ca.prefixes = vec![format!("{addr}/16")];
                ca.asns = vec![(64500 + n as u32, 64500 + n as u32)];
                ca.objects.push(roa_obj(&format!("r{n}.roa"), 64500 + n as u32, &addr, 16));
                world.cas.push(ca);
                world.tals.push(Tal { name: format!("t{n}"), ca: idx, uris: vec![(c.u[i].clone(), TaVariant::Good)] });
                if c.kind == "tah" { https_tas.push((idx, c.u[i].clone())); }
            }
            k => panic!("unknown kind {k}"),
        }
        marks[i] = Some(origin(&addr, 16, 64500 + n as u32));
    }
    let published = world.build(f);
    for (_, u) in &https_tas {
        if let Some(b) = published.files.get(u) { http.insert(u.clone(), b.to_vec()); }
    }
    for (idx, notify) in &rrdp_cas {
        let repo = world.cas[*idx].repo.clone();
        let files: Vec<(String, Bytes)> = published.files.iter().filter(|(u, _)| u.starts_with(&repo))
            .map(|(u, b)| (u.clone(), b.clone())).collect();
        // same origin as the notification file (NotificationFile::has_matching_origins)
        let auth_end = notify[8..].find('/').map(|i| i + 8).unwrap_or(notify.len());
        let snap_uri = format!("{}/verif-snapshot-{idx}.xml", &notify[..auth_end]);
        let (n, s) = rrdp_documents(&snap_uri, &files);
        http.insert(notify.clone(), n);
        http.insert(snap_uri, s);
    }
    if c.kind == "mftr" {
        // one snapshot with the objects of both CAs.  Like an rsync tree, the dump directory cannot hold a file and a
        // directory of one name: of two CAs where an object of one is a directory of the other only the first publishes
        // (Paths.tla, Published)
        let canon = |u: &str| -> String {
            match u.find("://").and_then(|i| u[i + 3..].find('/').map(|j| i + 3 + j)) {
                Some(k) => format!("{}{}", u[..k].to_ascii_lowercase(), &u[k..]), None => u.to_string() }
        };
        let mut files: Vec<(String, Bytes)> = Vec::new();
        for (k, idx) in shared_rrdp.iter().enumerate() {
            let repo = world.cas[*idx].repo.clone();
            let own: Vec<(String, Bytes)> = published.files.iter().filter(|(u, _)| u.starts_with(&repo)).map(|(u, b)| (u.clone(), b.clone())).collect();
            let clash = k > 0 && own.iter().any(|(u, _)| files.iter().any(|(v, _)| {
                let (a, b) = (canon(u), canon(v));
                a == b || a.starts_with(&format!("{b}/")) || b.starts_with(&format!("{a}/"))
            }));
            if !clash { files.extend(own); }
        }
        let auth_end = FIXED_NOTIFY[8..].find('/').map(|i| i + 8).unwrap_or(FIXED_NOTIFY.len());
        let snap_uri = format!("{}/verif-snapshot-shared.xml", &FIXED_NOTIFY[..auth_end]);
        let (n, s) = rrdp_documents(&snap_uri, &files);
        http.insert(FIXED_NOTIFY.to_string(), n);
        http.insert(snap_uri, s);
    }
    Built { published, http, marks }
}

//------------ Running ------------------------------------------------------------

#[derive(Clone, Debug, Default)]
struct Obs {
    /// "ok" | "fatal" | "retry" | "init" | "panic: .."
    run: String,
    dump: String,
    /// entries below the jail after run + dump: path -> is regular file
    tree: BTreeMap<String, bool>,
    /// entries that appeared outside cache/ and dump/
    outside: Vec<String>,
    origins: BTreeSet<String>,
    skipped: Vec<String>,
    /// whether the payload of the CA / TA behind URI i is served
    validated: [Option<bool>; 2],
}

struct Bed {
    bed: TestBed,
    jail: PathBuf,
}

const NEST: [&str; 4] = ["j1", "j2", "j3", "jail"];

impl Bed {
    fn new() -> Self {
        let mut bed = TestBed::new();
        let mut jail = bed.dir.path().to_path_buf();
        for d in NEST { jail.push(d); }
        bed.cache = jail.join("cache");
        Bed { bed, jail }
    }

    fn reset(&self) {
        let top = self.bed.dir.path().join(NEST[0]);
        let _ = std::fs::remove_dir_all(&top);
        std::fs::create_dir_all(self.jail.join("cache")).unwrap();
        std::fs::create_dir_all(self.jail.join("dump")).unwrap();
        std::fs::create_dir_all(self.jail.join("sentinel")).unwrap();
        std::fs::write(self.jail.join("sentinel").join("keep"), b"sentinel").unwrap();
    }
}

fn walk(base: &Path, dir: &Path, out: &mut BTreeMap<String, bool>) {
    if let Ok(rd) = std::fs::read_dir(dir) {
        for e in rd.flatten() {
            let p = e.path();
            let rel = p.strip_prefix(base).unwrap().to_string_lossy().into_owned();
            // the harness' own directories (their names are not derived from URIs)
            if dir == base && (rel == "pub" || rel == "tals" || rel == "fail") { continue }
            let ft = match e.file_type() { Ok(t) => t, Err(_) => continue };
            if ft.is_dir() { out.insert(rel, false); walk(base, &p, out) } else { out.insert(rel, true); }
        }
    }
}

fn run_world(bed: &Bed, built: &Built, rrdp: bool) -> Obs {
    bed.reset();
    let mut obs = Obs::default();
    obs.skipped = built.published.write_rsync_tree_tolerant(&bed.bed.pubdir);
    built.published.write_tals(&bed.bed.tals);
    let _ = bed.bed.take_rsync_log();
    let _ = std::fs::remove_file(bed.bed.dir.path().join("rsync-dest.log"));
    let mut cfg = bed.bed.config();
    cfg.cache_dir = bed.jail.join("cache");
    cfg.disable_rrdp = !rrdp;
    cfg.allow_dubious_hosts = true;
    cfg.validation_threads = 1;
    let root = bed.bed.dir.path().to_path_buf();
    let mut before = BTreeMap::new();
    walk(&root, &root, &mut before);
    let cfg2 = cfg.clone();
    let res = catch(std::panic::AssertUnwindSafe(|| run_once(&cfg2, true, &LocalExceptions::empty())));
    obs.run = match res {
        Err(msg) => format!("panic: {msg}"),
        Ok(Err(RunError::Fatal)) => "fatal".into(),
        Ok(Err(RunError::Retry)) => "retry".into(),
        Ok(Err(RunError::Init(_))) => "init".into(),
        Ok(Ok(r)) => {
            if std::env::var_os("VERIF_PATHS_DEBUG").is_some() {
                for m in &r.metrics.rrdp {
                    eprintln!("rrdp {}: notify {:?} payload {:?} serial {:?} reason {:?}", m.notify_uri, m.notify_status,
                        m.payload_status, m.serial, m.snapshot_reason);
                }
            }
            obs.origins = r.payload.origins;
            "ok".into()
        }
    };
    // `routinator dump`: a fresh engine on the same cache
    let dump_dir = bed.jail.join("dump");
    let cfg3 = cfg.clone();
    let d = catch(std::panic::AssertUnwindSafe(|| {
        match routinator::engine::Engine::new(&cfg3, true) {
            Ok(engine) => if engine.dump(&dump_dir).is_ok() { "ok" } else { "failed" },
            Err(_) => "init",
        }
    }));
    obs.dump = match d { Ok(s) => s.to_string(), Err(msg) => format!("panic: {msg}") };
    let mut after = BTreeMap::new();
    walk(&root, &root, &mut after);
    let jail_rel = NEST.join("/");
    for (p, is_file) in &after {
        let inside = p.strip_prefix(&format!("{jail_rel}/"));
        match inside {
            Some(rel) if rel.starts_with("cache/") || rel.starts_with("dump/") || rel == "cache" || rel == "dump" => {
                obs.tree.insert(rel.to_string(), *is_file);
            }
            _ => {
                if before.get(p) != Some(is_file) && p != "rsync.log" && p != "rsync-dest.log" {
                    obs.outside.push(p.clone());
                }
            }
        }
    }
    for i in 0..2 { obs.validated[i] = built.marks[i].as_ref().map(|m| obs.origins.contains(m)); }
    // the sentinel must be untouched
    if std::fs::read(bed.jail.join("sentinel").join("keep")).ok().as_deref() != Some(b"sentinel") {
        obs.outside.push("sentinel/keep (modified or removed)".into());
    }
    obs
}

fn area_of(path: &str) -> &'static str {
    if path.starts_with("cache/stored/ta/") { "store-ta" }
    else if path.starts_with("cache/stored/") { "store-point" }
    else if path.starts_with("cache/rsync/") { "rsync-copy" }
    else if path.starts_with("cache/rrdp/") { "rrdp-archive" }
    else if path.starts_with("dump/") { "dump" }
    else { "other" }
}

/// Entries of `a` (single world) that are not in the base world.
fn own(a: &Obs, base: &Obs) -> BTreeMap<String, bool> {
    a.tree.iter().filter(|(p, f)| base.tree.get(*p) != Some(*f)).map(|(p, f)| (p.clone(), *f)).collect()
}

/// (file of x, entry of y) where the file is the entry or a directory prefix of it.
fn clashes(x: &BTreeMap<String, bool>, y: &BTreeMap<String, bool>) -> Vec<(String, String, &'static str)> {
    let mut res = Vec::new();
    for (p, is_file) in x {
        if !*is_file { continue }
        if let Some(other_file) = y.get(p) {
            res.push((p.clone(), p.clone(), if *other_file { "same-file" } else { "file-vs-directory" }));
        }
        let pre = format!("{p}/");
        if let Some((q, _)) = y.range(pre.clone()..).next() {
            if q.starts_with(&pre) { res.push((p.clone(), q.clone(), "file-vs-directory")); }
        }
    }
    res
}

struct Worker<'a> {
    /// divergence classes already written out
    said: &'a Mutex<BTreeSet<String>>,
    bed: Bed,
    factory: &'a Factory,
    /// observations of single worlds: (kind, index, uri)
    singles: HashMap<(String, usize, String), Arc<Obs>>,
    bases: HashMap<String, Arc<Obs>>,
    shared_singles: &'a Mutex<HashMap<(String, usize, String), Arc<Obs>>>,
}

impl Worker<'_> {
    fn needs_http(kind: &str) -> bool { kind == "tah" || kind == "mftr" || kind.starts_with("notify") }
    fn uses_rrdp(kind: &str) -> bool { kind != "mft" && kind != "ta" }

    fn observe(&mut self, c: &Case, with: [bool; 2]) -> Obs {
        let built = build(c, with, self.factory);
        if Self::needs_http(&c.kind) {
            let _turn = HTTP_TURN.lock().unwrap_or_else(|e| e.into_inner());
            *HTTP_MAP.write().unwrap_or_else(|e| e.into_inner()) = Some(built.http.clone());
            let obs = run_world(&self.bed, &built, true);
            *HTTP_MAP.write().unwrap_or_else(|e| e.into_inner()) = None;
            obs
        } else {
            run_world(&self.bed, &built, Self::uses_rrdp(&c.kind))
        }
    }

    fn base(&mut self, c: &Case) -> Arc<Obs> {
        if let Some(o) = self.bases.get(&c.kind) { return o.clone() }
        let o = Arc::new(self.observe(c, [false, false]));
        self.bases.insert(c.kind.clone(), o.clone());
        o
    }

    fn single(&mut self, c: &Case, i: usize) -> Arc<Obs> {
        let key = (c.kind.clone(), i, c.u[i].clone());
        if let Some(o) = self.singles.get(&key) { return o.clone() }
        if let Some(o) = self.shared_singles.lock().unwrap().get(&key) { return o.clone() }
        let mut with = [false, false];
        with[i] = true;
        let o = Arc::new(self.observe(c, with));
        self.singles.insert(key.clone(), o.clone());
        self.shared_singles.lock().unwrap().insert(key, o.clone());
        o
    }
}

fn obs_json(o: &Obs) -> Value {
    json!({"run": o.run, "dump": o.dump, "outside": o.outside, "origins": o.origins, "validated": o.validated,
           "tree": o.tree.iter().map(|(p, f)| format!("{}{}", short(p), if *f { "" } else { "/" })).collect::<Vec<_>>(),
           "not_publishable": o.skipped.iter().map(|s| short(s)).collect::<Vec<_>>()})
}

/// Counts a divergence class and writes out its first instance.
fn diverge(rep: &mut Report, said: &Mutex<BTreeSet<String>>, class: &str, text: String) {
    rep.add_note(P, &format!("divergence:{class}"), 1);
    if said.lock().unwrap().insert(class.to_string()) { rep.divergence(P, format!("[{class}] {text}")); }
}

/// Compares the model's predicted entries of URI i with a world's tree.
fn check_prediction(rep: &mut Report, said: &Mutex<BTreeSet<String>>, c: &Case, i: usize, o: &Obs) {
    if o.run != "ok" { return }
    // an entry with alternatives (the two names the dump registry may give): one of them is enough
    let alts: Vec<&Ent> = c.ents[i].iter().filter(|e| e.alt).collect();
    for e in &c.ents[i] {
        if e.alt || (e.dump && o.dump != "ok") { continue }
        if e.dump && !alts.is_empty() && e.n.starts_with("dump/store/")
            && alts.iter().any(|a| o.tree.get(&a.n) == Some(&a.file)) { continue }
        match o.tree.get(&e.n) {
            Some(is_file) if *is_file == e.file => {}
            Some(_) => diverge(rep, said, &format!("entry-type/{}/{}", c.kind, area_of(&e.n)),
                format!("{} {}: model expects {} to be a {}, it is not",
                    c.kind, short(&c.u[i]), short(&e.n), if e.file { "file" } else { "directory" })),
            None => diverge(rep, said, &format!("entry-missing/{}/{}", c.kind, area_of(&e.n)),
                format!("{} {}: the entry {} the model expects does not exist", c.kind, short(&c.u[i]), short(&e.n))),
        }
        rep.add_note(P, "predicted_entries_checked", 1);
    }
}

fn one(rep: &mut Report, w: &mut Worker, c: &Case) {
    rep.trace(P);
    let pair = !c.u[1].is_empty();
    // 1. the parsers
    let n = if pair { 2 } else { 1 };
    let mut reachable = true;
    for i in 0..n {
        let real = real_accepts(&c.kind, &c.u[i]);
        rep.eval(P);
        if real != c.accept[i] {
            diverge(rep, w.said, "parser", format!("{} {}: the rpki parser {} it, the model says {}", c.kind, short(&c.u[i]),
                if real { "accepts" } else { "refuses" }, if c.accept[i] { "accepted" } else { "refused" }));
        }
        if !real { reachable = false; }
    }
    if !reachable {
        rep.add_note(P, "not_reachable_refused_by_parser", 1);
        return
    }
    let base = w.base(c);
    if base.run != "ok" {
        diverge(rep, w.said, &format!("base-world/{}", c.kind), format!("base world of kind {} does not validate: {}", c.kind, base.run));
        return
    }
    // 2. confinement, URI by URI
    let mut singles = Vec::new();
    for i in 0..n {
        let o = w.single(c, i);
        rep.eval(P);
        if !o.outside.is_empty() {
            rep.violation(P, &format!("escape/{}", c.kind),
                format!("{}: entries appeared outside the cache and dump directories: {:?}", short(&c.u[i]), o.outside),
                json!({"behaviour": c.raw, "uri": short(&c.u[i])}), obs_json(&o));
        }
        if o.run.starts_with("panic") || o.dump.starts_with("panic") {
            diverge(rep, w.said, &format!("panic/{}", c.kind), format!("{} {}: panic ({} / {})", c.kind, short(&c.u[i]), o.run, o.dump));
        }
        if o.run != "ok" {
            let class = if c.u[i].ends_with('/') { "directory-uri" }
                        else if c.u[i].contains(&long_seg(300)) { "segment-over-name-max" } else { "other" };
            diverge(rep, w.said, &format!("single-uri-run-{}/{}/{}", o.run.split(':').next().unwrap(), c.kind, class),
                format!("{} {}: the run with this URI alone ends {}", c.kind, short(&c.u[i]), o.run));
        }
        check_prediction(rep, w.said, c, i, &o);
        if o.validated[i] == Some(true) { rep.add_note(P, "single_uri_validated", 1); }
        singles.push(o);
    }
    if !pair {
        rep.nontrivial(P, format!("single|{}|{}", c.kind, short(&c.u[0])));
        rep.sample(P, json!({"case": brief(c), "run": singles[0].run, "own_entries":
            own(&singles[0], &base).keys().map(|p| short(p)).collect::<Vec<_>>()}));
        return
    }
    // 3. both together
    let both = w.observe(c, [true, true]);
    rep.eval(P);
    let ctx = || json!({"behaviour": c.raw, "u1": short(&c.u[0]), "u2": short(&c.u[1])});
    let observed = || json!({"both": obs_json(&both), "first": obs_json(&singles[0]), "second": obs_json(&singles[1])});
    if !both.outside.is_empty() {
        rep.violation(P, &format!("escape/{}", c.kind),
            format!("entries appeared outside the cache and dump directories: {:?}", both.outside), ctx(), observed());
    }
    if c.eq {
        rep.add_note(P, "equivalent_pairs", 1);
        return
    }
    rep.nontrivial(P, format!("pair|{}|{}|{}", c.kind, short(&c.u[0]), short(&c.u[1])));
    let own1 = own(&singles[0], &base);
    let own2 = own(&singles[1], &base);
    let mut found: Vec<(String, String, &'static str)> = clashes(&own1, &own2);
    found.extend(clashes(&own2, &own1).into_iter().map(|(a, b, k)| (b, a, k)));
    found.sort();
    found.dedup();
    let alone_ok = singles[0].run == "ok" && singles[1].run == "ok";
    let mut reported = false;
    let mut sigs = BTreeSet::new();
    for (a, b, k) in &found {
        let area = area_of(a);
        // Below cache/rsync/ and dump/ the tree mirrors the remote one: a file above another URI's file there is a
        // clash the remote tree has itself (no rsync server can publish both); it says nothing about routinator's
        // naming.  A shared file does.  (A dump that fails only for both together is caught below.)
        // kind "mftr": both CAs live in one RRDP repository, its archive belongs to both
        if c.kind == "mftr" && a.starts_with("cache/rrdp/") && b.starts_with("cache/rrdp/") { continue }
        if *k == "file-vs-directory" && (area == "rsync-copy" || area == "dump") {
            rep.add_note(P, "remote_tree_clashes_ignored", 1);
            continue
        }
        // The dump registry names the directories of RRDP repositories in the order it meets them: two
        // repositories that get the same name when dumped alone get different names when dumped together.
        // A shared dump file is real only if the dump of both has no entry beyond those of the single dumps.
        // That can only be seen if both are in the store when the dump is made, i.e. both CAs validated.
        if area == "dump" && c.kind.starts_with("notify") {
            let both_valid = both.validated[0] == Some(true) && both.validated[1] == Some(true);
            let extra = both.tree.keys().any(|p| {
                p.starts_with("dump/") && !base.tree.contains_key(p) && !own1.contains_key(p) && !own2.contains_key(p)
            });
            if !both_valid || both.dump != "ok" || extra {
                rep.add_note(P, "dump_registry_names_not_comparable", 1);
                continue
            }
        }
        let sig = format!("collision/{}/{}", k, area);
        if !sigs.insert(sig.clone()) { continue }
        rep.violation(P, &sig,
            format!("{} and {} are not equivalent but map to clashing local paths {} and {} (together: run {}, dump {})",
                short(&c.u[0]), short(&c.u[1]), short(a), short(b), both.run, both.dump), ctx(), observed());
        reported = true;
    }
    if alone_ok && both.run != "ok" && !reported {
        rep.violation(P, &format!("collision/run-{}/{}", both.run.split(':').next().unwrap(), c.kind),
            format!("the run succeeds with {} alone and with {} alone but ends {} with both",
                short(&c.u[0]), short(&c.u[1]), both.run), ctx(), observed());
        reported = true;
    }
    let remote_clash = both.skipped.iter().any(|u| !singles[0].skipped.contains(u) && !singles[1].skipped.contains(u));
    let both_valid = both.validated[0] == Some(true) && both.validated[1] == Some(true);
    if alone_ok && both.run == "ok" {
        // nothing stored for one URI may be lost to the other (unless the remote tree cannot hold both; a point
        // that never had a valid manifest is removed by the cleanup of the same run when the run takes less than
        // a second - store.rs:1153 compares a whole-second time stamp with the start time - so only worlds in
        // which both validate are compared)
        for (o, i) in [(&own1, 0), (&own2, 1)] {
            if remote_clash || !both_valid { break }
            for (p, f) in o {
                if !p.starts_with("cache/stored/") { continue }
                if both.tree.get(p) != Some(f) {
                    rep.violation(P, &format!("collision/displaced/{}", area_of(p)),
                        format!("{} exists for {} alone but not next to {}", short(p), short(&c.u[i]), short(&c.u[1 - i])),
                        ctx(), observed());
                    reported = true;
                }
            }
        }
        // (`routinator dump` fails on a store that holds a point which never had a valid manifest; only a world
        // in which both CAs / TAs validate shows a failure that is due to the pair)
        if singles[0].dump == "ok" && singles[1].dump == "ok" && both.dump != "ok" && both_valid && !reported {
            rep.violation(P, &format!("collision/dump-{}/{}", both.dump.split(':').next().unwrap(), c.kind),
                format!("the dump works for {} alone and for {} alone but not for both", short(&c.u[0]), short(&c.u[1])),
                ctx(), observed());
            reported = true;
        }
    }
    if reported != (c.clash && alone_ok) && !(c.clash && !alone_ok) {
        diverge(rep, w.said, &format!("clash-prediction/{}", c.kind), format!("{} {} / {}: the model {} a clash, the code {}", c.kind, short(&c.u[0]), short(&c.u[1]),
            if c.clash { "expects" } else { "does not expect" }, if reported { "shows one" } else { "shows none" }));
    }
    // both validated?  (informative: a CA that lost its store file would lose its payload)
    rep.sample(P, json!({"case": brief(c), "run_both": both.run, "own1": own1.keys().map(|p| short(p)).collect::<Vec<_>>(),
                         "own2": own2.keys().map(|p| short(p)).collect::<Vec<_>>()}));
}

/// DumpRegistry.tla: every order of registrations exported by TLC goes through the real
/// `DumpRegistry::get_repo_path`; the directories must be inside the base directory, pairwise distinct for distinct
/// rpkiNotify URIs (C30), the same again for a URI asked twice, and named as the model says (conformance).
fn dump_registry(rep: &mut Report, regs: &[&Value]) {
    use std::str::FromStr;
    let base = PathBuf::from("/dump/store");
    for b in regs {
        let mut reg = routinator::utils::dump::DumpRegistry::new(base.clone());
        let mut given: Vec<(String, PathBuf)> = Vec::new();
        let seq = b["regs"].as_array().unwrap();
        for r in seq {
            let (auth, path) = (r[0][0].as_str().unwrap(), r[0][1].as_str().unwrap());
            // single-label hosts, so that the host "h-1" collides with the numbered name of the second repository of "h"
            let uri = format!("https://{auth}/{path}/notification.xml");
            let https = match rpki::uri::Https::from_str(&uri) { Ok(u) => u, Err(_) => { rep.divergence(P, format!("dump registry: {uri} refused")); continue } };
            let p = reg.get_repo_path(Some(&https));
            let again = reg.get_repo_path(Some(&https));
            rep.eval(P);
            let ctx = json!({"dump_registry_registrations": seq, "uri": uri});
            if again != p {
                rep.violation(P, "dump-registry/unstable", format!("{uri} gets {} and then {}", p.display(), again.display()), ctx.clone(), json!({}));
            }
            if !p.starts_with(&base) || p == base {
                rep.violation(P, "dump-registry/escape", format!("{uri} is dumped to {}", p.display()), ctx.clone(), json!({}));
            }
            if let Some((other, _)) = given.iter().find(|(u, q)| *u != uri && *q == p) {
                rep.violation(P, "dump-registry/shared-directory",
                    format!("{other} and {uri} are dumped to the same directory {}", p.display()), ctx.clone(), json!({"directory": p.display().to_string()}));
            }
            let want = r[1].as_str().unwrap().to_string();
            if p.file_name().map(|n| n.to_string_lossy().into_owned()) != Some(want.clone()) {
                rep.divergence(P, format!("dump registry: {uri} gets {}, the model says {want}", p.display()));
            }
            given.push((uri, p));
        }
        rep.nontrivial(P, format!("dumpreg|{}", b["regs"]));
    }
    rep.note(P, "dump_registry_sequences", json!(regs.len()));
}

pub fn main(args: &Args) -> i32 {
    let behaviours = read_behaviours(args.input.as_deref().expect("--in"));
    install_http();
    // unordered pairs once (the export lists neighbours in both directions)
    let mut seen = BTreeSet::new();
    let mut cases: Vec<Case> = Vec::new();
    let mut regs: Vec<&Value> = Vec::new();
    for b in &behaviours {
        if b["kind"] == "dumpreg" { regs.push(b); continue }
        let c = parse_case(b);
        let mut k = vec![c.u[0].clone(), c.u[1].clone()];
        k.sort();
        if seen.insert((c.kind.clone(), k)) { cases.push(c) }
    }
    // equivalent manifest URIs in one RRDP snapshot would be one object published twice
    cases.retain(|c| !(c.kind == "mftr" && c.eq));
    let only = args.opt("kinds").map(|s| s.split('+').map(String::from).collect::<Vec<_>>());
    if let Some(only) = only.as_ref() { cases.retain(|c| only.contains(&c.kind)); }
    let limit = args.opt_usize("limit", usize::MAX);
    if limit < cases.len() {
        let mut rng = crate::common::Rng::new(args.seed);
        // keep every case the model expects to clash, sample the rest
        let (mut keep, mut rest): (Vec<Case>, Vec<Case>) = cases.into_iter().partition(|c| c.clash);
        rng.shuffle(&mut rest);
        rest.truncate(limit.saturating_sub(keep.len()));
        keep.extend(rest);
        cases = keep;
    }
    // cases sharing a first URI next to each other (single worlds are cached per worker)
    cases.sort_by(|a, b| (a.kind.as_str(), a.u[0].as_str(), a.u[1].as_str()).cmp(&(b.kind.as_str(), b.u[0].as_str(), b.u[1].as_str())));
    let factory = Factory::new();
    let total = cases.len();
    let nthreads = args.opt_usize("jobs", 8).max(1);
    let chunk = 16usize;
    let next = Mutex::new(0usize);
    let shared = Mutex::new(HashMap::new());
    let said_all = Mutex::new(BTreeSet::new());
    let mut rep = Report::new("paths");
    rep.touch(P);
    let reports: Vec<Report> = std::thread::scope(|scope| {
        let handles: Vec<_> = (0..nthreads).map(|_| {
            let cases = &cases;
            let next = &next;
            let factory = &factory;
            let shared = &shared;
            let said = &said_all;
            scope.spawn(move || {
                let mut local = Report::new("paths");
                let mut w = Worker { said, bed: Bed::new(), factory, singles: HashMap::new(), bases: HashMap::new(),
                                     shared_singles: shared };
                loop {
                    let start = { let mut g = next.lock().unwrap(); let s = *g; *g += chunk; s };
                    if start >= total { break }
                    for c in &cases[start..(start + chunk).min(total)] {
                        one(&mut local, &mut w, c);
                    }
                    if w.singles.len() > 4000 { w.singles.clear(); }
                }
                local
            })
        }).collect();
        handles.into_iter().map(|h| h.join().expect("worker")).collect()
    });
    for r in reports { rep.absorb(r); }
    rep.note(P, "cases", json!(total));
    dump_registry(&mut rep, &regs);
    rep.write(args)
}
