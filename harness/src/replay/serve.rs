//! Replay of `Gen_Serve` schedules against a real server: the updater thread
//! runs `Server::process_once` and is parked at the preemption points between
//! its lock regions; HTTP and RTR requests go over loopback at the moments the
//! schedule prescribes (C15, C16, C17).

use std::collections::BTreeSet;
use std::sync::mpsc;
use std::time::{Duration, Instant};
use serde_json::{json, Value};
use routinator::payload::SharedHistory;
use crate::common::{read_behaviours, Args, Report};
use crate::env::server::*;
use super::history::{concrete, slurm};

pub const PROPS: [&str; 3] = ["C15", "C16", "C17"];

type DataSet = BTreeSet<(String, u8, u32)>;

fn body_dataset(body: &[u8]) -> Result<DataSet, String> {
    let v: Value = serde_json::from_slice(body).map_err(|e| format!("body is not JSON: {e}"))?;
    let roas = v["roas"].as_array().ok_or("no roas array")?;
    let mut res = DataSet::new();
    for r in roas {
        let asn = r["asn"].as_str().ok_or("asn")?.trim_start_matches("AS").parse::<u32>().map_err(|_| "asn parse")?;
        res.insert((r["prefix"].as_str().ok_or("prefix")?.to_string(), r["maxLength"].as_u64().ok_or("maxLength")? as u8, asn));
    }
    Ok(res)
}

fn rtr_dataset(items: &[RtrItem]) -> (DataSet, DataSet) {
    let mut ann = DataSet::new();
    let mut wd = DataSet::new();
    for i in items {
        if let RtrItem::Origin(a, s) = i {
            // "addr/len-max ASn"
            let (p, asn) = s.split_once(" AS").unwrap();
            let (prefix, max) = p.rsplit_once('-').unwrap();
            let item = (prefix.to_string(), max.parse().unwrap(), asn.parse().unwrap());
            if *a { ann.insert(item); } else { wd.insert(item); }
        }
    }
    (ann, wd)
}

enum Cmd { Run(i64), Stop }

struct Have { serial: u32, etag: String, date: String }

pub fn main(args: &Args) -> i32 {
    if let Some(out) = args.opt("freerun") {
        return freerun(args, out)
    }
    let behaviours = read_behaviours(args.input.as_deref().expect("--in"));
    let mut rep = Report::new("serve");
    for p in PROPS { rep.touch(p); }
    let (shard, nshards) = match args.opt("shard") {
        Some(s) => { let (a, b) = s.split_once('/').unwrap(); (a.parse::<usize>().unwrap(), b.parse::<usize>().unwrap()) }
        None => (0, 1),
    };
    let gate = Gate::install();
    if shard == 0 {
        for round in 0..(if args.thorough() { 20 } else { 4 }) {
            gate.disarm_all();
            let _ = gate.take_log();
            atomicity_probe(&mut rep, &gate, round);
        }
        gate.disarm_all();
        session_probe(&mut rep);
        if shard == 0 { rtr_timing_probe(&mut rep); initial_probe(&mut rep); burst_probe(&mut rep); full_history_probe(&mut rep); serial_identity_probe(&mut rep); }
    }
    for (idx, b) in behaviours.iter().enumerate() {
        if idx % nshards != shard { continue }
        gate.disarm_all();
        let _ = gate.take_log();
        one(&mut rep, &gate, b, idx);
    }
    Gate::uninstall();
    rep.write(args)
}

/// In-process hammer on `PayloadSource::{diff, full}` while the updater
/// installs several hundred data sets, each carrying a marker origin whose
/// AS number encodes the serial it is installed under.  Every answer must
/// lead to the data set of the serial it is tagged with.
fn diff_hammer(rep: &mut Report, args: &Args) {
    use std::sync::atomic::{AtomicBool, Ordering};
    use rpki::rtr::payload::PayloadRef;
    use rpki::rtr::server::{PayloadDiff, PayloadSet, PayloadSource};
    let updates = if args.thorough() { 60000 } else { 8000 };
    let cfg = super::history::config(8);
    let history = routinator::payload::SharedHistory::from_config(&cfg);
    let marker = |serial: u32| -> DataSet {
        let mut d: DataSet = concrete(1 + (serial % 3) as i64).into_iter().collect();
        d.insert(("192.0.2.0/24".to_string(), 24, 70000 + serial));
        d
    };
    let install = |serial: u32| {
        let report = routinator::payload::ValidationReport::new(&cfg);
        let set: std::collections::BTreeSet<(String, u8, u32)> = marker(serial).into_iter().collect();
        history.update(report, &slurm(&set), routinator::metrics::Metrics::new());
        history.mark_update_done();
    };
    install(0);
    let session = history.read().rtr_session();
    let stop = AtomicBool::new(false);
    let found: std::sync::Mutex<Vec<String>> = std::sync::Mutex::new(Vec::new());
    let queries = std::sync::atomic::AtomicU64::new(0);
    std::thread::scope(|scope| {
        for _ in 0..3 {
            scope.spawn(|| {
                let mut have: (u32, DataSet) = (0, marker(0));
                while !stop.load(Ordering::Relaxed) {
                    queries.fetch_add(1, Ordering::Relaxed);
                    match history.diff(rpki::rtr::State::from_parts(session, have.0.into())) {
                        Some((state, mut diff)) => {
                            let mut data = have.1.clone();
                            while let Some((p, a)) = diff.next() {
                                if let PayloadRef::Origin(o) = p {
                                    let item = (format!("{}/{}", o.prefix.addr(), o.prefix.prefix_len()), o.prefix.resolved_max_len(), o.asn.into_u32());
                                    if a.is_announce() { data.insert(item); } else { data.remove(&item); }
                                }
                            }
                            let ser = u32::from(state.serial());
                            if data != marker(ser) {
                                found.lock().unwrap().push(format!(
                                    "serial query from {} answered with serial {} but the change set leads to markers {:?}",
                                    have.0, ser, data.iter().filter(|x| x.2 >= 70000).map(|x| x.2 - 70000).collect::<Vec<_>>()));
                                // resynchronise
                                let (st, mut set) = history.full();
                                let mut d = DataSet::new();
                                while let Some(p) = set.next() { if let PayloadRef::Origin(o) = p {
                                    d.insert((format!("{}/{}", o.prefix.addr(), o.prefix.prefix_len()), o.prefix.resolved_max_len(), o.asn.into_u32())); } }
                                have = (u32::from(st.serial()), d);
                            } else {
                                have = (ser, data);
                            }
                        }
                        None => {
                            let (st, mut set) = history.full();
                            let mut d = DataSet::new();
                            while let Some(p) = set.next() { if let PayloadRef::Origin(o) = p {
                                d.insert((format!("{}/{}", o.prefix.addr(), o.prefix.prefix_len()), o.prefix.resolved_max_len(), o.asn.into_u32())); } }
                            let ser = u32::from(st.serial());
                            if d != marker(ser) {
                                found.lock().unwrap().push(format!("reset answered with serial {ser} but its data carries markers {:?}",
                                    d.iter().filter(|x| x.2 >= 70000).map(|x| x.2 - 70000).collect::<Vec<_>>()));
                            }
                            have = (ser, d);
                        }
                    }
                }
            });
        }
        for s in 1..=updates {
            install(s);
            if s % 16 == 0 { std::thread::yield_now(); }
        }
        std::thread::sleep(Duration::from_millis(20));
        stop.store(true, Ordering::Relaxed);
    });
    let q = queries.load(Ordering::Relaxed);
    rep.evals("C15", q);
    rep.add_note("C15", "in_process_queries_during_updates", q);
    rep.nontrivial("C15", "diff-hammer");
    rep.trace("C15");
    let found = found.into_inner().unwrap();
    if let Some(first) = found.first() {
        rep.violation("C15", "rtr-serial-data-mismatch/concurrent-update",
            format!("{} of {q} RTR answers computed while data sets were being installed pair a serial with foreign data; first: {first}", found.len()),
            json!({"probe": "in-process PayloadSource::diff/full hammer during updates", "updates": updates, "seed": args.seed}),
            json!({"examples": found.iter().take(5).collect::<Vec<_>>()}));
    }
}

fn one(rep: &mut Report, gate: &std::sync::Arc<Gate>, b: &Value, idx: usize) {
    let steps = b["steps"].as_array().unwrap();
    let shape: Vec<String> = steps.iter().map(|s| format!("{}:{}", s["s"].as_str().unwrap(), s["a"])).collect();
    let brief = json!({"steps": shape});
    let mut fx = Fixture::start(|c| { c.history_size = 10; });
    let port = fx.http_port;
    let rtr_port = fx.rtr_port;
    let history: SharedHistory = fx.history.clone();
    let session = history.read().session();
    let rtr_session = history.read().rtr_session();

    // updater thread
    let (tx, rx) = mpsc::channel::<Cmd>();
    let (done_tx, done_rx) = mpsc::channel::<Result<(), bool>>();
    for p in ["server-after-update", "server-after-mark-done", "server-after-notify"] { gate.arm("U", p); }
    let updater = std::thread::spawn(move || {
        routinator::verif::set_thread_name("U");
        let mut first = true;
        while let Ok(cmd) = rx.recv() {
            match cmd {
                Cmd::Run(d) => {
                    let res = fx.process_once(&slurm(&concrete(d)), first);
                    first = false;
                    let _ = done_tx.send(res);
                }
                Cmd::Stop => break,
            }
        }
        drop(fx);
    });

    let wait = Duration::from_secs(10);
    let mut data_at: Vec<(u32, DataSet)> = Vec::new();     // (serial, data) of every version installed
    let mut have: Option<Have> = None;
    let mut rhave: Option<(u32, DataSet)> = None;
    let mut notify_rx: Option<mpsc::Receiver<(Result<HttpResponse, String>, Instant)>> = None;
    let mut presented: Option<u32> = None;
    let mut differed_since: Option<Instant> = None;          // since when the served serial differs from the presented one
    let mut parked_update = false;
    let mut fidelity: Option<String> = None;

    let current = |h: &SharedHistory| -> (bool, u32) { let r = h.read(); (r.is_active(), u32::from(r.serial())) };

    'steps: for (si, step) in steps.iter().enumerate() {
        let s = step["s"].as_str().unwrap();
        let ctx = || json!({"schedule": shape, "step_index": si, "behaviour_index": idx});
        match s {
            "install" => {
                let d = step["a"].as_i64().unwrap();
                tx.send(Cmd::Run(d)).unwrap();
                if !gate.wait_parked("U", "server-after-update", wait) { fidelity = Some("updater did not reach server-after-update".into()); break 'steps }
                parked_update = true;
                let (_, ser) = current(&history);
                if data_at.last().map(|x| x.0) != Some(ser) || data_at.is_empty() {
                    data_at.push((ser, concrete(d).into_iter().collect()));
                }
                else if let Some(last) = data_at.last() {
                    if last.1 != concrete(d).into_iter().collect::<DataSet>() {
                        rep.violation("C15", "serial-not-advanced", "data changed but the serial did not", ctx(), json!({"serial": ser}));
                    }
                }
                if let Some(p) = presented { if p != ser && differed_since.is_none() { differed_since = Some(Instant::now()); } }
            }
            "markdone" => {
                gate.release("U", "server-after-update");
                if !gate.wait_parked("U", "server-after-mark-done", wait) { fidelity = Some("updater did not reach server-after-mark-done".into()); break 'steps }
            }
            "notify" => {
                gate.release("U", "server-after-mark-done");
                if !gate.wait_parked("U", "server-after-notify", wait) { fidelity = Some("updater did not reach server-after-notify".into()); break 'steps }
                gate.release("U", "server-after-notify");
                match done_rx.recv_timeout(wait) {
                    Ok(Ok(())) => {}
                    Ok(Err(_)) => { fidelity = Some("process_once failed".into()); break 'steps }
                    Err(_) => { fidelity = Some("process_once did not return".into()); break 'steps }
                }
                parked_update = false;
            }
            "http" => {
                let mode = step["a"].as_str().unwrap();
                let mut headers: Vec<(&str, &str)> = Vec::new();
                if let Some(h) = have.as_ref() {
                    if mode == "etag" || mode == "both" { headers.push(("If-None-Match", h.etag.as_str())); }
                    if mode == "date" || mode == "both" { headers.push(("If-Modified-Since", h.date.as_str())); }
                }
                let sent_validators = !headers.is_empty();
                let res = http_get(port, "/json", &headers);
                let (active, ser) = current(&history);
                rep.eval("C15");
                match res {
                    Err(e) => { fidelity = Some(format!("http request failed: {e}")); break 'steps }
                    Ok(r) => {
                        let observed = json!({"status": r.status, "etag": r.header("etag"), "last_modified": r.header("last-modified"),
                                              "server_serial": ser, "sent": headers.iter().map(|h| format!("{}: {}", h.0, h.1)).collect::<Vec<_>>()});
                        if r.status == 200 {
                            let etag = r.header("etag").unwrap_or("").to_string();
                            let date = r.header("last-modified").unwrap_or("").to_string();
                            let tag_serial: Option<u32> = etag.trim_matches('"').rsplit_once('-').and_then(|x| x.1.parse().ok());
                            if !active || data_at.is_empty() {
                                rep.violation("C15", "data-before-first-run", "data served before the first validation completed", ctx(), observed.clone());
                            }
                            match (tag_serial, body_dataset(&r.body)) {
                                (Some(ts), Ok(ds)) => {
                                    if parked_update { rep.nontrivial("C15", format!("{:?}@{}", shape, si)); }
                                    match data_at.iter().find(|x| x.0 == ts) {
                                        Some((_, exp)) if *exp == ds => {}
                                        _ => rep.violation("C15", "http-serial-data-mismatch",
                                                format!("response tagged serial {ts} carries data that is not the data set of that serial"),
                                                ctx(), observed.clone()),
                                    }
                                    have = Some(Have { serial: ts, etag, date });
                                }
                                (_, Err(e)) => rep.violation("C15", "http-bad-body", e, ctx(), observed.clone()),
                                (None, _) => rep.violation("C15", "http-no-etag", "200 response without a parsable ETag", ctx(), observed.clone()),
                            }
                        }
                        else if r.status == 304 {
                            rep.eval("C16");
                            match have.as_ref() {
                                Some(h) if sent_validators => {
                                    if h.serial != ser {
                                        let window = if parked_update { "between-install-and-markdone" } else { "idle" };
                                        rep.violation("C16", &format!("stale-304/{mode}/{window}"),
                                            format!("304 Not Modified for validators of serial {} while serial {} is served", h.serial, ser),
                                            ctx(), observed.clone());
                                    }
                                }
                                _ => rep.violation("C16", "304-without-validators", "304 although no validators were presented", ctx(), observed.clone()),
                            }
                        }
                        else if r.status == 503 {
                            // initial validation: fine while nothing is served
                            if step["h"]["status"] != 503 {
                                rep.divergence("C15", format!("503 where the model expects {}", step["h"]["status"]));
                            }
                        }
                        else {
                            fidelity = Some(format!("unexpected HTTP status {}", r.status));
                            break 'steps
                        }
                        if sent_validators {
                            rep.eval("C16");
                            if let Some(h) = have.as_ref() {
                                if h.serial != ser || parked_update { rep.nontrivial("C16", format!("{:?}@{}", shape, si)); }
                            }
                        }
                        if r.status as u64 != step["h"]["status"].as_u64().unwrap_or(0) {
                            rep.divergence("C16", format!("status {} where the model expects {} (step {si} of {:?})", r.status, step["h"]["status"], shape));
                            rep.add_note("C16", "model_mismatches", 1);
                        }
                    }
                }
            }
            "rtr_reset" | "rtr_serial" => {
                rep.eval("C15");
                let q = if s == "rtr_serial" { rhave.as_ref().map(|x| (rtr_session, x.0)) } else { None };
                if s == "rtr_serial" && q.is_none() { continue }
                let ans = rtr_query(rtr_port, q, Duration::from_secs(10));
                let (active, ser) = current(&history);
                let observed = json!({"kind": ans.kind, "serial": ans.serial, "items": format!("{:?}", ans.items), "server_serial": ser});
                if parked_update { rep.nontrivial("C15", format!("{:?}@{}", shape, si)); }
                if ans.kind == "cache-response" {
                    if !active || data_at.is_empty() {
                        rep.violation("C15", "rtr-data-before-first-run", "RTR data served before the first validation completed", ctx(), observed.clone());
                        continue
                    }
                    let (ann, wd) = rtr_dataset(&ans.items);
                    let result: DataSet = match q {
                        None => ann.clone(),
                        Some(_) => {
                            let base = rhave.as_ref().unwrap().1.clone();
                            base.difference(&wd).cloned().collect::<DataSet>().union(&ann).cloned().collect()
                        }
                    };
                    match data_at.iter().find(|x| x.0 == ans.serial) {
                        Some((_, exp)) if *exp == result => {}
                        _ => rep.violation("C15", &format!("rtr-serial-data-mismatch/{s}"),
                                format!("RTR answer ends at serial {} but its data is not the data set of that serial", ans.serial),
                                ctx(), observed.clone()),
                    }
                    if ans.session != rtr_session {
                        rep.violation("C15", "rtr-session", "RTR answer carries a foreign session", ctx(), observed.clone());
                    }
                    rhave = Some((ans.serial, result));
                }
                else if ans.kind == "cache-reset" {
                    rhave = None;
                }
                else if ans.kind.starts_with("error:") {
                    if active && step["r"]["kind"] != "nodata" {
                        rep.divergence("C15", format!("RTR error {} where the model expects {}", ans.kind, step["r"]["kind"]));
                    }
                }
                else {
                    fidelity = Some(format!("rtr query failed: {}", ans.kind));
                    break 'steps
                }
            }
            "n_start" => {
                let h = match have.as_ref() { Some(h) => h, None => continue };
                gate.arm("", "notify-after-subscribe");
                gate.arm("", "notify-after-check");
                let path = format!("/json-delta/notify?session={}&serial={}", session, h.serial);
                let (ntx, nrx) = mpsc::channel();
                std::thread::spawn(move || {
                    let r = http_request(port, "GET", &path, &[], None, Duration::from_secs(60));
                    let _ = ntx.send((r, Instant::now()));
                });
                notify_rx = Some(nrx);
                presented = Some(h.serial);
                let (_, ser) = current(&history);
                differed_since = if ser != h.serial { Some(Instant::now()) } else { None };
                // wait until the handler reached its first preemption point
                let t0 = Instant::now();
                while t0.elapsed() < Duration::from_secs(5) {
                    if gate.is_parked("", "notify-after-subscribe") || gate.is_parked("", "notify-after-check") { break }
                    std::thread::sleep(Duration::from_millis(2));
                }
            }
            "n_subscribe" => {}
            "n_check" => {
                if presented.is_none() { continue }
                if gate.is_parked("", "notify-after-subscribe") {
                    gate.release("", "notify-after-subscribe");
                    gate.wait_parked("", "notify-after-check", Duration::from_secs(5));
                }
                // The handler has made its check.  It stays parked right behind it, in front of the wait, while the
                // other threads take the steps the schedule puts here: a handler that had subscribed before the
                // check loses nothing by that, one that subscribes only now would miss the notification.
                gate.disarm("", "notify-after-subscribe");
            }
            "n_wake" => {
                if gate.is_parked("", "notify-after-check") {
                    gate.release("", "notify-after-check");
                }
                gate.disarm("", "notify-after-check");
            }
            x => { fidelity = Some(format!("unknown step {x}")); break 'steps }
        }
    }

    // let everything run to completion
    gate.disarm_all();
    if parked_update { let _ = done_rx.recv_timeout(wait); }

    // C17 verdict
    if let (Some(nrx), Some(p)) = (notify_rx.as_ref(), presented) {
        rep.eval("C17");
        let (_, ser) = current(&history);
        let ctx = json!({"schedule": shape, "behaviour_index": idx, "presented_serial": p, "server_serial": ser});
        if differed_since.is_some() || ser != p {
            rep.nontrivial("C17", format!("{:?}", shape));
            match nrx.recv_timeout(Duration::from_secs(3)) {
                Ok((Ok(r), _)) => {
                    if r.status != 200 {
                        rep.violation("C17", "notify-bad-status", format!("notify answered with status {}", r.status), ctx, json!({}));
                    }
                    else if let Ok(v) = serde_json::from_slice::<Value>(&r.body) {
                        if v["serial"].as_u64() == Some(p as u64) {
                            rep.add_note("C17", "returned_with_presented_serial", 1);
                        }
                    }
                }
                Ok((Err(e), _)) => rep.violation("C17", "notify-request-failed", e, ctx, json!({})),
                Err(_) => {
                    rep.violation("C17", "lost-wakeup",
                        format!("the long-poll presented serial {p}, serial {ser} is served and the updater is idle, but the request is still waiting after 3 s"),
                        ctx, json!({"gate_log": format!("{:?}", gate.take_log())}));
                }
            }
        }
        else {
            // presented version still current: must block ...
            match nrx.recv_timeout(Duration::from_millis(300)) {
                Ok((Ok(r), _)) if r.status == 200 => {
                    // A spurious early return (e.g. the notification of the very first
                    // data set) is not forbidden by the property: the client polls again.
                    rep.add_note("C17", "early_returns_while_current", 1);
                }
                _ => {
                    // ... and return on the next change
                    let (_, cur) = data_at.last().cloned().unwrap_or((0, DataSet::new()));
                    let next = if cur == concrete(1).into_iter().collect::<DataSet>() { 2 } else { 1 };
                    tx.send(Cmd::Run(next)).unwrap();
                    let _ = done_rx.recv_timeout(wait);
                    if nrx.recv_timeout(Duration::from_secs(3)).is_err() {
                        rep.violation("C17", "no-wakeup-on-change", "the long-poll did not return after the next data change",
                            ctx, json!({}));
                    }
                }
            }
        }
        rep.trace("C17");
        rep.sample("C17", json!({"schedule": shape}));
    }
    let _ = tx.send(Cmd::Stop);
    let _ = updater.join();
    if let Some(f) = fidelity {
        for p in PROPS { rep.divergence(p, format!("schedule not realisable: {f} ({:?})", shape)); rep.add_note(p, "unrealised_schedules", 1); }
    }
    else {
        rep.trace("C15"); rep.trace("C16");
        rep.sample("C15", brief.clone());
        rep.sample("C16", brief);
    }
}


/// Parks the updater *inside* the history update (write lock held, delta
/// pushed, snapshot not yet replaced) and fires readers at it.  In the
/// pinned code they block on the lock and, once released, see the new
/// serial with the new data; a change that splits the lock region lets them
/// through with a serial whose data has not arrived yet.
fn atomicity_probe(rep: &mut Report, gate: &std::sync::Arc<Gate>, round: usize) {
    let mut fx = Fixture::start(|c| { c.history_size = 10; });
    let port = fx.http_port;
    let rtr_port = fx.rtr_port;
    let history: SharedHistory = fx.history.clone();
    let (tx, rx) = mpsc::channel::<Cmd>();
    let (done_tx, done_rx) = mpsc::channel::<Result<(), bool>>();
    let updater = std::thread::spawn(move || {
        routinator::verif::set_thread_name("U");
        let mut first = true;
        while let Ok(cmd) = rx.recv() {
            match cmd {
                Cmd::Run(d) => { let r = fx.process_once(&slurm(&concrete(d)), first); first = false; let _ = done_tx.send(r); }
                Cmd::Stop => break,
            }
        }
    });
    let wait = Duration::from_secs(10);
    let d1 = 1 + (round % 2) as i64;
    let d2 = 3 - d1;
    tx.send(Cmd::Run(d1)).unwrap();
    let _ = done_rx.recv_timeout(wait);
    let mut data_at: Vec<(u32, DataSet)> = vec![(0, concrete(d1).into_iter().collect())];
    gate.arm("U", "history-update-mid");
    tx.send(Cmd::Run(d2)).unwrap();
    let ctx = json!({"probe": "readers against an update parked inside the history write lock", "round": round, "data": [d1, d2]});
    if gate.wait_parked("U", "history-update-mid", wait) {
        data_at.push((1, concrete(d2).into_iter().collect()));
        let (htx, hrx) = mpsc::channel();
        let htx2 = htx.clone();
        std::thread::spawn(move || { let _ = htx.send(("http", http_get(port, "/json", &[]).map(|r| (r.header("etag").unwrap_or("").to_string(), r.body)).ok(), None)); });
        std::thread::spawn(move || { let a = rtr_query(rtr_port, None, Duration::from_secs(10)); let _ = htx2.send(("rtr", None, Some(a))); });
        std::thread::sleep(Duration::from_millis(300));
        gate.release("U", "history-update-mid");
        gate.disarm_all();
        let _ = done_rx.recv_timeout(wait);
        for _ in 0..2 {
            match hrx.recv_timeout(wait) {
                Ok(("http", Some((etag, body)), _)) => {
                    rep.eval("C15");
                    rep.nontrivial("C15", format!("atomicity-probe-http-{round}"));
                    let ts: Option<u32> = etag.trim_matches('"').rsplit_once('-').and_then(|x| x.1.parse().ok());
                    match (ts, body_dataset(&body)) {
                        (Some(ts), Ok(ds)) => if data_at.iter().find(|x| x.0 == ts).map(|x| x.1 != ds).unwrap_or(true) {
                            rep.violation("C15", "http-serial-data-mismatch/mid-update",
                                format!("a request arriving while the update was in progress got serial {ts} with data that is not the data set of that serial"),
                                ctx.clone(), json!({"etag": etag, "data": format!("{:?}", ds)}));
                        },
                        _ => {}
                    }
                }
                Ok(("rtr", _, Some(a))) => {
                    rep.eval("C15");
                    rep.nontrivial("C15", format!("atomicity-probe-rtr-{round}"));
                    if a.kind == "cache-response" {
                        let (ann, _) = rtr_dataset(&a.items);
                        if data_at.iter().find(|x| x.0 == a.serial).map(|x| x.1 != ann).unwrap_or(true) {
                            rep.violation("C15", "rtr-serial-data-mismatch/mid-update",
                                format!("a reset query arriving while the update was in progress ended at serial {} with data that is not the data set of that serial", a.serial),
                                ctx.clone(), json!({"items": format!("{:?}", a.items)}));
                        }
                    }
                }
                _ => {}
            }
        }
        rep.trace("C15");
    }
    else {
        rep.divergence("C15", "atomicity probe: updater did not reach history-update-mid");
        gate.disarm_all();
    }
    let _ = tx.send(Cmd::Stop);
    let _ = updater.join();
    let _ = history;
}


/// Free-running server: one updater doing a few updates while reader threads
/// hammer HTTP and RTR.  The events recorded by the hooks (under the history
/// lock) are written as one ndjson trace for `Trace_Serve.tla`; the responses
/// are checked against the data set installed under their serial.
fn freerun(args: &Args, out: &str) -> i32 {
    use std::io::Write;
    use std::sync::atomic::{AtomicBool, Ordering};
    let rounds = args.opt_usize("rounds", 20);
    let mut rep = Report::new("serve");
    rep.touch("C15");
    let mut file = std::fs::File::create(out).expect("trace file");
    let mut rng = crate::common::Rng::new(args.seed);
    for round in 0..rounds {
        let mut fx = Fixture::start(|c| { c.history_size = 10; });
        let port = fx.http_port;
        let rtr_port = fx.rtr_port;
        routinator::verif::trace_start();
        let stop = std::sync::Arc::new(AtomicBool::new(false));
        let (rtx, rrx) = mpsc::channel::<(String, u32, DataSet)>();
        let mut readers = Vec::new();
        for r in 0..3 {
            let stop = stop.clone();
            let rtx = rtx.clone();
            readers.push(std::thread::spawn(move || {
                while !stop.load(Ordering::Relaxed) {
                    if r < 2 {
                        if let Ok(resp) = http_get(port, "/json", &[]) {
                            if resp.status == 200 {
                                let ts: Option<u32> = resp.header("etag").unwrap_or("").trim_matches('"').rsplit_once('-').and_then(|x| x.1.parse().ok());
                                if let (Some(ts), Ok(ds)) = (ts, body_dataset(&resp.body)) { let _ = rtx.send(("http".into(), ts, ds)); }
                            }
                        }
                    } else {
                        let a = rtr_query(rtr_port, None, Duration::from_secs(5));
                        if a.kind == "cache-response" { let _ = rtx.send(("rtr".into(), a.serial, rtr_dataset(&a.items).0)); }
                    }
                    std::thread::sleep(Duration::from_millis(1));
                }
            }));
        }
        drop(rtx);
        // the updater: data sets 1/2/3 in a seeded random order, sometimes unchanged
        let mut installed: Vec<DataSet> = Vec::new();
        let mut cur = 0i64;
        for u in 0..6 {
            let d = if u == 0 { 1 + rng.below(3) as i64 } else if rng.below(4) == 0 { cur } else { 1 + ((cur + rng.below(2) as i64) % 3) };
            if d != cur { installed.push(concrete(d).into_iter().collect()); }
            cur = d;
            let _ = fx.process_once(&slurm(&concrete(d)), u == 0);
            std::thread::sleep(Duration::from_millis(3 + rng.below(8)));
        }
        stop.store(true, Ordering::Relaxed);
        for r in readers { let _ = r.join(); }
        let events = routinator::verif::trace_take();
        writeln!(file, "{{\"ev\":\"Reset\",\"seq\":0,\"t\":\"\"}}").unwrap();
        for e in &events { writeln!(file, "{e}").unwrap(); }
        rep.add_note("C15", "trace_events", events.len() as u64 + 1);
        // responses against the installed data sets (serial k = k-th distinct data set)
        for (kind, serial, ds) in rrx.try_iter() {
            rep.eval("C15");
            match installed.get(serial as usize) {
                Some(exp) if *exp == ds => {}
                _ => rep.violation("C15", &format!("{kind}-serial-data-mismatch/free-running"),
                        format!("a {kind} response tagged serial {serial} carries data that is not the data set installed under that serial"),
                        json!({"round": round, "seed": args.seed}), json!({"serial": serial, "data": format!("{:?}", ds)})),
            }
        }
        rep.trace("C15");
        rep.nontrivial("C15", format!("freerun-{round}"));
    }
    diff_hammer(&mut rep, args);
    rep.write(args)
}


/// The presented version is (session, serial): a long-poll carrying another
/// session's identifier with a serial that happens to equal the current one
/// presents a version different from the served one and must not block; the
/// same holds for other serials of other sessions.
/// The Refresh Interval the RTR server announces in End of Data (SharedHistory::timing, RtrTiming.tla):
/// the time until the next data set is expected, in whole seconds.  RFC 8210 allows 1 .. 86400.  Queried every 100 ms
/// over one refresh period of 2 s; the smallest and largest values go into the evidence (not a listed property).
fn rtr_timing_probe(rep: &mut Report) {
    let mut fx = Fixture::start(|c| { c.refresh = Duration::from_secs(2); c.history_size = 10; });
    if fx.process_once(&slurm(&concrete(1)), true).is_err() { return }
    let _ = fx.process_once(&slurm(&concrete(2)), false);
    let t0 = std::time::Instant::now();
    let mut hints: Vec<(u128, u32)> = Vec::new();
    while t0.elapsed() < Duration::from_millis(2600) {
        let a = rtr_query(fx.rtr_port, None, Duration::from_secs(2));
        if let Some((refresh, _, _)) = a.timing { hints.push((t0.elapsed().as_millis(), refresh)); }
        std::thread::sleep(Duration::from_millis(100));
    }
    if hints.is_empty() { rep.divergence("C15", "RTR timing probe: no End of Data with timing parameters seen"); return }
    let min = hints.iter().map(|h| h.1).min().unwrap();
    let max = hints.iter().map(|h| h.1).max().unwrap();
    rep.note("C15", "rtr_refresh_hint_seconds", json!({"min": min, "max": max, "samples": hints.len(),
        "series_ms_value": hints.iter().map(|h| json!([h.0, h.1])).collect::<Vec<_>>()}));
    if min == 0 {
        rep.add_note("C15", "rtr_refresh_hint_zero_seen", 1);
        rep.divergence("C15", format!("observation (not a listed property): End of Data announced a Refresh Interval of 0 s ({} of {} answers; RFC 8210 allows 1..86400):                                        RtrTiming.tla RefreshHintInRange, variant as_coded", hints.iter().filter(|h| h.1 == 0).count(), hints.len()));
    }
}

/// C15, "before the first validation completes no data is served": a fresh server, nothing installed; also while
/// the first run is in progress (mark_update_start done, nothing installed).  Every payload endpoint must answer
/// 503, versioned delta requests with the server's own session included; RTR must answer "no data available".
fn initial_probe(rep: &mut Report) {
    let fx = Fixture::start(|c| { c.history_size = 10; });
    let port = fx.http_port;
    for state in ["nothing-installed", "first-run-in-progress"] {
        if state == "first-run-in-progress" { fx.history.mark_update_start(); }
        let own = http_get(port, "/json-delta/notify", &[]).ok().and_then(|r| serde_json::from_slice::<Value>(&r.body).ok())
            .and_then(|v| v["session"].as_u64().or_else(|| v["session"].as_str().and_then(|s| s.parse().ok())));
        let mut paths: Vec<String> = ["/json", "/csv", "/jsonext", "/rpsl", "/slurm", "/json-delta", "/json-delta?session=1&serial=0"]
            .iter().map(|s| s.to_string()).collect();
        if let Some(sess) = own {
            paths.push(format!("/json-delta?session={sess}&serial=0"));
            paths.push(format!("/json-delta?session={sess}&serial=1"));
        }
        for path in paths {
            for method in ["GET", "HEAD"] {
                rep.eval("C15");
                match http_request(port, method, &path, &[], None, Duration::from_secs(10)) {
                    Ok(r) if r.status == 503 => rep.nontrivial("C15", format!("initial|{state}|{method}|{path}")),
                    Ok(r) => rep.violation("C15", &format!("data-before-first-run/{}", path.split('?').next().unwrap_or("").trim_start_matches('/')),
                        format!("{method} {path} answered {} although no validation run has completed ({state})", r.status),
                        json!({"state": state, "method": method, "path": path}), json!({"status": r.status, "body": String::from_utf8_lossy(&r.body).chars().take(200).collect::<String>()})),
                    Err(e) => rep.divergence("C15", format!("initial probe {method} {path}: {e}")),
                }
            }
        }
        rep.eval("C15");
        let a = rtr_query(fx.rtr_port, None, Duration::from_secs(5));
        if a.kind == "cache-response" {
            rep.violation("C15", "data-before-first-run/rtr", format!("RTR reset query answered with a cache response although no validation run has completed ({state})"),
                json!({"state": state}), json!({"items": a.items.len()}));
        } else { rep.nontrivial("C15", format!("initial|{state}|rtr|{}", a.kind)); }
    }
}

/// C16 under bursts: several data-changing runs complete within one second (the Last-Modified time has whole seconds and
/// is pushed ahead of the clock so that it differs per data set, history.rs:107-123).  After every run the validators
/// of every earlier data set are presented (date only, both, ETag only): none of them may get 304; the current ones must.
fn burst_probe(rep: &mut Report) {
    for round in 0..6 {
        let mut fx = Fixture::start(|c| { c.history_size = 10; });
        let port = fx.http_port;
        // start right after a second boundary so that the burst fits into one second
        let now = std::time::SystemTime::now().duration_since(std::time::UNIX_EPOCH).unwrap();
        std::thread::sleep(Duration::from_millis(1000 - now.subsec_millis() as u64 + 5));
        let t0 = Instant::now();
        let mut issued: Vec<(usize, String, String)> = Vec::new();       // (version, etag, last-modified)
        let mut in_one_second = 0;
        for v in 1..=5usize {
            if fx.process_once(&slurm(&concrete((1 + (v + round) % 3) as i64)), v == 1).is_err() { rep.divergence("C16", "burst probe: run failed"); return }
            if t0.elapsed() < Duration::from_millis(950) { in_one_second = v; }
            let cur = match http_get(port, "/json", &[]) { Ok(r) if r.status == 200 => r, _ => { rep.divergence("C16", "burst probe: no data"); return } };
            let (etag, date) = (cur.header("etag").unwrap_or("").to_string(), cur.header("last-modified").unwrap_or("").to_string());
            for (old, oetag, odate) in issued.iter() {
                if *oetag == etag { continue }          // the same data set again (nothing changed): 304 is right
                for mode in ["date", "both", "etag"] {
                    let mut headers: Vec<(&str, &str)> = Vec::new();
                    if mode != "date" { headers.push(("If-None-Match", oetag.as_str())); }
                    if mode != "etag" { headers.push(("If-Modified-Since", odate.as_str())); }
                    rep.eval("C16");
                    match http_get(port, "/json", &headers) {
                        Ok(r) if r.status == 304 => rep.violation("C16", &format!("burst/stale-validators-304/{mode}"),
                            format!("the server is at data set {v} (ETag {etag}, Last-Modified {date}); a client holding data set {old} (ETag {oetag}, Last-Modified {odate}) revalidates ({mode}) and gets 304"),
                            json!({"probe": "burst", "runs_within_the_first_second": in_one_second, "mode": mode}),
                            json!({"status": 304, "current": [etag, date], "presented": [oetag, odate]})),
                        Ok(_) => {}
                        Err(e) => rep.divergence("C16", format!("burst probe: {e}")),
                    }
                }
            }
            rep.eval("C16");
            if let Ok(r) = http_get(port, "/json", &[("If-None-Match", etag.as_str()), ("If-Modified-Since", date.as_str())]) {
                if r.status != 304 { rep.divergence("C16", format!("burst probe: current validators answered {}", r.status)); }
            }
            issued.push((v, etag, date));
        }
        if in_one_second >= 3 { rep.nontrivial("C16", format!("burst|{round}|{in_one_second}")); rep.add_note("C16", "bursts_with_three_runs_in_one_second", 1); }
        rep.add_note("C16", "bursts", 1);
    }
}

/// C15 without any interleaving, over history sizes: a (session, serial) names one data set.  Four runs with pairwise
/// different data, then the same data again; after every run the RTR reset answer and the HTTP document are taken.
/// Two answers tagged with the same (session, serial) / ETag must carry the same data, and a serial query presenting
/// an earlier tag must not be told "nothing changed" when the data did.  history-size 0 keeps no usable history, but the
/// serial still has to move with the data (history.rs: "at least one delta since it carries the serial").
fn serial_identity_probe(rep: &mut Report) {
    for keep in [0usize, 1, 2, 10] {
        let mut fx = Fixture::start(move |c| { c.history_size = keep; });
        let port = fx.http_port;
        let mut seen: Vec<(usize, u16, u32, String, String, Vec<u8>)> = Vec::new();   // (run, session, serial, rtr items, etag, body)
        for (run, d) in [1i64, 2, 3, 1, 1].iter().enumerate() {
            if fx.process_once(&slurm(&concrete(*d)), run == 0).is_err() { rep.divergence("C15", "serial identity probe: run failed"); return }
            let a = rtr_query(fx.rtr_port, None, Duration::from_secs(5));
            let h = match http_get(port, "/json", &[]) { Ok(r) if r.status == 200 => r, _ => { rep.divergence("C15", "serial identity probe: no data"); return } };
            if a.kind != "cache-response" { rep.divergence("C15", format!("serial identity probe: RTR answered {}", a.kind)); return }
            let mut items: Vec<String> = a.items.iter().map(|i| format!("{:?}", i)).collect();
            items.sort();
            let items = items.join(";");
            let etag = h.header("etag").unwrap_or("").to_string();
            // the JSON document carries its generation time: compare the part after the metadata
            let body: Vec<u8> = { let b = String::from_utf8_lossy(&h.body).to_string(); b[b.find("\"roas\"").unwrap_or(0)..].as_bytes().to_vec() };
            let ctx = json!({"probe": "serial-identity", "history_size": keep, "data_sets": [1, 2, 3, 1, 1], "run": run});
            for (orun, osess, oserial, oitems, oetag, obody) in seen.iter() {
                rep.eval("C15");
                if *osess == a.session && *oserial == a.serial && *oitems != items {
                    rep.violation("C15", &format!("one-serial-two-data-sets/rtr/history-size-{}", if keep == 0 { "0" } else { "n" }),
                        format!("the RTR reset answers after run {orun} and after run {run} are both tagged (session {}, serial {}) but carry different data (history-size {keep})", a.session, a.serial),
                        ctx.clone(), json!({"serial": a.serial, "first": oitems, "second": items}));
                }
                if !etag.is_empty() && *oetag == etag && *obody != body {
                    rep.violation("C15", &format!("one-etag-two-data-sets/http/history-size-{}", if keep == 0 { "0" } else { "n" }),
                        format!("/json after run {orun} and after run {run} carry the same ETag {etag} but different data (history-size {keep})"),
                        ctx.clone(), json!({"etag": etag}));
                }
                // a router that holds the earlier answer asks for changes
                if *oitems != items {
                    rep.eval("C15");
                    let q = rtr_query(fx.rtr_port, Some((*osess, *oserial)), Duration::from_secs(5));
                    if q.kind == "cache-response" && q.items.is_empty() {
                        rep.violation("C15", &format!("changed-data-reported-unchanged/history-size-{}", if keep == 0 { "0" } else { "n" }),
                            format!("a router holding the data of run {orun} (serial {oserial}) is told nothing changed although the data of run {run} differs (history-size {keep})"),
                            ctx.clone(), json!({"presented": oserial, "answer_serial": q.serial}));
                    }
                }
            }
            rep.nontrivial("C15", format!("serial-identity|{keep}|{run}"));
            seen.push((run, a.session, a.serial, items, etag, body));
        }
    }
}

/// A long-poll parked with the current version while the retained history is already full (more changes than
/// history-size): the next change must wake it like any other.
fn full_history_probe(rep: &mut Report) {
    for keep in [1usize, 2, 10] {
        let mut fx = Fixture::start(move |c| { c.history_size = keep; });
        let port = fx.http_port;
        let mut d = 1i64;
        if fx.process_once(&slurm(&concrete(d)), true).is_err() { rep.divergence("C17", "full-history probe: first run failed"); return }
        for round in 0..(keep + 3) {
            let (session, serial) = { let r = fx.history.read(); (r.session(), u32::from(r.serial())) };
            let path = format!("/json-delta/notify?session={session}&serial={serial}");
            let (tx, rx) = std::sync::mpsc::channel();
            std::thread::spawn(move || { let _ = tx.send(http_request(port, "GET", &path, &[], None, Duration::from_secs(8)).map(|r| (r.status, r.body))); });
            std::thread::sleep(Duration::from_millis(150));          // the request is parked
            d = 1 + d % 3;
            if fx.process_once(&slurm(&concrete(d)), false).is_err() { rep.divergence("C17", "full-history probe: run failed"); return }
            let now = { let r = fx.history.read(); u32::from(r.serial()) };
            rep.eval("C17");
            rep.nontrivial("C17", format!("full-history/{keep}/{round}"));
            let ctx = json!({"probe": "long-poll parked while the retained history is full", "history_size": keep, "changes_so_far": round + 1,
                             "presented_serial": serial, "served_serial": now});
            match rx.recv_timeout(Duration::from_secs(4)) {
                Ok(Ok((200, body))) => {
                    let v: Value = serde_json::from_slice(&body).unwrap_or(Value::Null);
                    if v["serial"].as_u64() != Some(now as u64) {
                        rep.violation("C17", "notify-wrong-version", "notify answered with something else than the served version", ctx, json!({"body": v}));
                    }
                }
                Ok(Ok((st, _))) => rep.violation("C17", "notify-bad-status", format!("notify answered with status {st}"), ctx, json!({})),
                _ => rep.violation("C17", "lost-wakeup/history-full",
                    format!("the served version changed (serial {serial} -> {now}); the long-poll presenting serial {serial} is still waiting after 4 s ({} changes, history-size {keep})", round + 1),
                    ctx, json!({})),
            }
        }
        rep.trace("C17");
    }
}

fn session_probe(rep: &mut Report) {
    let mut fx = Fixture::start(|c| { c.history_size = 10; });
    let port = fx.http_port;
    let _ = fx.process_once(&slurm(&concrete(1)), true);
    let _ = fx.process_once(&slurm(&concrete(2)), false);
    let (session, serial) = { let r = fx.history.read(); (r.session(), u32::from(r.serial())) };
    for (other, ser) in [(session.wrapping_sub(1000), serial), (session.wrapping_add(1), serial), (1u64, serial), (session.wrapping_sub(1000), 0)] {
        rep.eval("C17");
        rep.nontrivial("C17", format!("foreign-session/{}/{}", other == session, ser));
        let path = format!("/json-delta/notify?session={other}&serial={ser}");
        let t0 = Instant::now();
        let r = http_request(port, "GET", &path, &[], None, Duration::from_secs(3));
        let ctx = json!({"probe": "long-poll presenting another session", "presented": [other, ser], "served": [session, serial]});
        match r {
            Ok(resp) if resp.status == 200 => {
                if let Ok(v) = serde_json::from_slice::<Value>(&resp.body) {
                    if v["session"].as_u64() != Some(session) || v["serial"].as_u64() != Some(serial as u64) {
                        rep.violation("C17", "notify-wrong-version", "notify answered with something else than the served version",
                            ctx.clone(), json!({"body": v}));
                    }
                }
            }
            Ok(resp) => rep.violation("C17", "notify-bad-status", format!("notify answered with status {}", resp.status), ctx.clone(), json!({})),
            Err(e) => rep.violation("C17", "blocked-on-foreign-session",
                format!("a long-poll presenting (session {other}, serial {ser}) while (session {session}, serial {serial}) is served did not return within {:?}: {e}", t0.elapsed()),
                ctx.clone(), json!({})),
        }
    }
    rep.trace("C17");
}
