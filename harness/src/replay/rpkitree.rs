//! Replay of `Gen_RpkiTree` worlds through the real engine
//! (C01, C02, C06, C07, C08, C41).
//!
//! Each behaviour is one world: a CA tree with objects, at most a few
//! injected faults and a configuration, plus the result the specification
//! expects from a validation run on a fresh cache.  The world is turned into
//! real signed objects, published through the fake rsync, validated by the
//! unmodified `Engine` / `ValidationReport`, and the snapshot is compared.

use std::collections::{BTreeMap, BTreeSet};
use std::sync::{mpsc, Arc, Mutex};
use std::time::Duration;
use serde_json::{json, Value};
use routinator::config::FilterPolicy;
use routinator::slurm::LocalExceptions;
use crate::common::{read_behaviours, Args, Report};
use crate::env::{run_once, Payload, RunError, TestBed};
use crate::gen::*;

pub const PROPS: [&str; 6] = ["C01", "C02", "C06", "C07", "C08", "C41"];

/// Bits below the whole address space: <<>> is 0.0.0.0/0 resp. ::/0.
/// Number of prefix bits, not counting a leading family tag (4 or 6).
pub fn plain_len(bits: &[u8]) -> usize {
    match bits.first() { Some(4) | Some(6) => bits.len() - 1, _ => bits.len() }
}

pub fn prefix_of(bits: &[u8], v6: bool) -> String {
    // a leading 4 or 6 names the address family (shape "families"); without it the family is that of the run
    let (bits, v6) = match bits.first() { Some(4) => (&bits[1..], false), Some(6) => (&bits[1..], true), _ => (bits, v6) };
    if v6 {
        let mut v: u128 = 0;
        for (i, b) in bits.iter().enumerate() { if *b == 1 { v |= 1u128 << (127 - i); } }
        format!("{}/{}", std::net::Ipv6Addr::from(v), bits.len())
    } else {
        let mut v: u32 = 0;
        for (i, b) in bits.iter().enumerate() { if *b == 1 { v |= 1u32 << (31 - i); } }
        format!("{}/{}", std::net::Ipv4Addr::from(v), bits.len())
    }
}

pub fn bits(v: &Value) -> Vec<u8> {
    v.as_array().map(|a| a.iter().map(|x| x.as_u64().unwrap() as u8).collect()).unwrap_or_default()
}

pub fn fault_of(s: &str) -> Fault {
    match s {
        "BadSig" => Fault::BadSig, "Revoked" => Fault::Revoked, "Expired" => Fault::Expired,
        "NotYet" => Fault::NotYet, "WrongCrl" => Fault::WrongCrl, "Garbage" => Fault::Garbage,
        "Missing" => Fault::Missing, "HashMismatch" => Fault::HashMismatch, "Unlisted" => Fault::Unlisted,
        "Stale" => Fault::Stale, "Premature" => Fault::Premature, "Overclaim" => Fault::Overclaim,
        "None" => Fault::None,
        x => panic!("unknown fault {x}"),
    }
}

pub fn policy_of(s: &str) -> FilterPolicy {
    match s { "reject" => FilterPolicy::Reject, "warn" => FilterPolicy::Warn, "accept" => FilterPolicy::Accept,
              x => panic!("policy {x}") }
}

pub fn repo_host(r: u64) -> String { format!("rsync://r{r}.verif.test/repo/") }

/// A prefix (3 bits) not overlapping any of the given blocks; a harmless
/// default if the blocks cover everything (the specification never asks
/// for an overclaim in that case).
pub fn outside_of(res: &[Value], v6: bool) -> String {
    let blocks: Vec<Vec<u8>> = res.iter().map(bits).collect();
    for n in 0..8u8 {
        let q = vec![(n >> 2) & 1, (n >> 1) & 1, n & 1];
        let overlap = blocks.iter().any(|p| {
            let l = p.len().min(q.len());
            p[..l] == q[..l]
        });
        if !overlap { return prefix_of(&q, v6) }
    }
    prefix_of(&[1, 1, 1], v6)
}

pub struct Concrete {
    pub world: World,
    /// (ca, n) -> payload string as `env::payload_of` renders it (origins and keys)
    pub obj_payload: BTreeMap<(u64, u64), (String, String)>,
}

pub fn asn_of(a: u64) -> u32 { 64500 + a as u32 }

pub fn router_key_str(asn: u32, ec: usize) -> String {
    let key = ec_key(ec);
    let info = key.to_info_bytes();
    let tail: String = info.as_ref().iter().rev().take(8).map(|b| format!("{b:02x}")).collect();
    format!("AS{} {} {}", asn, key.key_identifier(), tail)
}

/// Turns the abstract world of a behaviour into a concrete one.
pub fn concretise(b: &Value, v6: bool) -> Concrete {
    let cas = b["cas"].as_array().unwrap();
    let mut world = World::default();
    let mut obj_payload = BTreeMap::new();
    let fault_at = |site: &[Value]| -> Option<String> {
        for f in b["faults"].as_array().unwrap() {
            let s = f[0].as_array().unwrap();
            if s.len() == site.len() && s.iter().zip(site.iter()).all(|(x, y)| x == y) {
                return Some(f[1].as_str().unwrap().to_string())
            }
        }
        None
    };
    for (i, c) in cas.iter().enumerate() {
        let id = i as u64 + 1;
        let parent = c["parent"].as_u64().unwrap();
        let repo = c["repo"].as_u64().unwrap();
        let mut ca = Ca::new(&format!("ca{id}"), if parent == 0 { None } else { Some(parent as usize - 1) },
                             c["key"].as_u64().unwrap() as usize - 1,
                             &format!("{}ca{}/", repo_host(repo), id));
        ca.prefixes = c["res"].as_array().unwrap().iter().map(|p| prefix_of(&bits(p), v6)).collect();
        ca.asns = vec![(64000, 65000)];
        ca.outside = outside_of(c["res"].as_array().unwrap(), v6);
        ca.serial = 1000 + id;
        ca.mft_serial = 1;
        if parent == 0 {
            let variant = match fault_at(&[json!("ta"), json!(id)]).as_deref() {
                None => TaVariant::Good,
                Some("WrongKey") => TaVariant::WrongKey, Some("Garbage") => TaVariant::Garbage,
                Some("Expired") => TaVariant::Expired, Some("Absent") => TaVariant::Absent,
                Some(x) => panic!("ta fault {x}"),
            };
            world.tals.push(Tal { name: format!("tal{id}"), ca: i,
                                  uris: vec![(format!("{}ta{}.cer", repo_host(repo), id), variant)] });
        } else if let Some(f) = fault_at(&[json!("cert"), json!(id)]) {
            ca.cert_fault = fault_of(&f);
        }
        if let Some(f) = fault_at(&[json!("mft"), json!(id)]) { ca.mft_fault = fault_of(&f); }
        if let Some(f) = fault_at(&[json!("crl"), json!(id)]) { ca.crl_fault = fault_of(&f); }
        world.cas.push(ca);
    }
    for o in b["objs"].as_array().unwrap() {
        let ca = o["ca"].as_u64().unwrap();
        let n = o["n"].as_u64().unwrap();
        let fault = fault_at(&[json!("obj"), json!(ca), json!(n)]).map(|f| fault_of(&f)).unwrap_or(Fault::None);
        let serial = 10 + n;
        let (kind, name, pl) = match o["kind"].as_str().unwrap() {
            "roa" => {
                let p = prefix_of(&bits(&o["p"]), v6);
                let len = plain_len(&bits(&o["p"])) as u8;
                let asn = asn_of(o["asn"].as_u64().unwrap());
                let (addr, _) = p.split_once('/').unwrap();
                (ObjKind::Roa { asn, prefixes: vec![(p.clone(), len)] }, format!("o{n}.roa"),
                 ("roa".to_string(), format!("{addr}/{len}-{len} AS{asn}")))
            }
            "rtr" => {
                let asn = asn_of(o["asn"].as_u64().unwrap());
                let ec = o["rk"].as_u64().unwrap() as usize - 1;
                (ObjKind::Router { asns: vec![asn], ec }, format!("o{n}.cer"),
                 ("rtr".to_string(), router_key_str(asn, ec)))
            }
            "aspa" => {
                let cust = 64600 + o["cust"].as_u64().unwrap() as u32;
                let provs: Vec<u32> = o["prov"].as_array().unwrap().iter().map(|p| 64700 + p.as_u64().unwrap() as u32).collect();
                (ObjKind::Aspa { customer: cust, providers: provs }, format!("o{n}.asa"), ("aspa".to_string(), String::new()))
            }
            x => panic!("kind {x}"),
        };
        obj_payload.insert((ca, n), pl);
        world.cas[ca as usize - 1].objects.push(Obj { name, kind, serial, validity: (-2, 48), fault });
    }
    Concrete { world, obj_payload }
}

/// The payload the specification expects, rendered like `env::payload_of`.
pub fn expected_payload(b: &Value, v6: bool) -> Payload {
    let mut p = Payload::default();
    for item in b["payload"].as_array().unwrap() {
        match item[0].as_str().unwrap() {
            "roa" => {
                let pre = prefix_of(&bits(&item[1]), v6);
                let len = plain_len(&bits(&item[1]));
                let (addr, _) = pre.split_once('/').unwrap();
                p.origins.insert(format!("{addr}/{len}-{len} AS{}", asn_of(item[2].as_u64().unwrap())));
            }
            "rtr" => { p.keys.insert(router_key_str(asn_of(item[1].as_u64().unwrap()), item[2].as_u64().unwrap() as usize - 1)); }
            "aspa" => {
                let mut provs: Vec<u32> = item[2].as_array().unwrap().iter().map(|x| 64700 + x.as_u64().unwrap() as u32).collect();
                provs.sort();
                let provs: Vec<String> = provs.iter().map(|x| format!("AS{x}")).collect();
                p.aspas.insert(format!("AS{} => [{}]", 64600 + item[1].as_u64().unwrap(), provs.join(",")));
            }
            x => panic!("payload kind {x}"),
        }
    }
    p.count = p.origins.len() + p.keys.len() + p.aspas.len();
    p
}

pub fn brief(b: &Value) -> Value {
    json!({"shape": b["shape"], "faults": b["faults"], "config": b["config"]})
}

/// Runs `f` under a watchdog; `None` means it did not finish in time.
pub fn with_watchdog<T: Send + 'static>(secs: u64, f: impl FnOnce() -> T + Send + 'static) -> Option<T> {
    let (tx, rx) = mpsc::channel();
    std::thread::spawn(move || { let _ = tx.send(f()); });
    rx.recv_timeout(Duration::from_secs(secs)).ok()
}

pub fn main(args: &Args) -> i32 {
    let behaviours = read_behaviours(args.input.as_deref().expect("--in"));
    let factory = Arc::new(Factory::new());
    let total = behaviours.len();
    // optional sampling: --opt limit=N keeps a seed-dependent subset
    let limit = args.opt_usize("limit", usize::MAX);
    let mut order: Vec<usize> = (0..total).collect();
    if limit < total {
        let mut rng = crate::common::Rng::new(args.seed);
        rng.shuffle(&mut order);
        order.truncate(limit);
        order.sort();
    }
    let work = Arc::new(Mutex::new(order.into_iter()));
    let behaviours = Arc::new(behaviours);
    let nthreads = args.opt_usize("jobs", 12);
    let mut rep = Report::new("rpkitree");
    for p in PROPS { rep.touch(p); }
    let reports: Vec<Report> = std::thread::scope(|scope| {
        let handles: Vec<_> = (0..nthreads).map(|_| {
            let work = work.clone();
            let behaviours = behaviours.clone();
            let factory = factory.clone();
            scope.spawn(move || {
                let mut local = Report::new("rpkitree");
                let mut bed = TestBed::new();
                loop {
                    let idx = match work.lock().unwrap().next() { Some(i) => i, None => break };
                    let b = &behaviours[idx];
                    let hung = one(&mut local, &bed, &factory, b, idx, args);
                    if hung {
                        // the bed is still in use by the stuck run
                        std::mem::forget(std::mem::replace(&mut bed, TestBed::new()));
                    }
                }
                local
            })
        }).collect();
        handles.into_iter().map(|h| h.join().expect("worker")).collect()
    });
    for r in reports { rep.absorb(r); }
    rep.write(args)
}

fn one(rep: &mut Report, bed: &TestBed, factory: &Arc<Factory>, b: &Value, idx: usize, args: &Args) -> bool {
    let v6 = (idx as u64 + args.seed) % 2 == 1;
    let conc = concretise(b, v6);
    let published = conc.world.build(factory);
    bed.wipe_cache();
    bed.publish(&published);
    let _ = bed.take_rsync_log();
    let mut cfg = bed.config();
    cfg.stale = policy_of(b["config"]["stale"].as_str().unwrap());
    cfg.unsafe_vrps = policy_of(b["config"]["unsafe"].as_str().unwrap());
    cfg.max_ca_depth = configured_depth(b["config"]["maxdepth"].as_u64().unwrap() as usize, idx);
    cfg.enable_aspa = true;
    cfg.enable_bgpsec = true;
    cfg.validation_threads = [1, 2, 4][idx % 3];
    let expected = expected_payload(b, v6);
    let shape = b["shape"].as_str().unwrap().to_string();
    let faults = b["faults"].as_array().unwrap();
    let fault_kinds: BTreeSet<String> = faults.iter().map(|f| f[1].as_str().unwrap().to_string()).collect();

    let cfg2 = cfg.clone();
    let res = with_watchdog(60, move || {
        crate::common::catch(std::panic::AssertUnwindSafe(|| run_once(&cfg2, true, &LocalExceptions::empty())))
    });
    let ctx = || json!({"world": brief(b), "v6": v6, "threads": cfg.validation_threads, "behaviour": b});
    for p in ["C01", "C02"] { rep.eval(p); rep.trace(p); }
    let real = match res {
        None => {
            rep.eval("C07");
            rep.violation("C07", &format!("hang/{shape}"), "validation run did not terminate within 60 s", ctx(), json!({}));
            return true
        }
        Some(Err(msg)) => {
            for p in ["C01", "C07"] {
                rep.violation(p, &format!("panic/{shape}"), format!("panic during validation: {msg}"), ctx(), json!({"panic": msg}));
            }
            return false
        }
        Some(Ok(Err(e))) => {
            // A failed run on a world whose faults are all "remote" is not
            // what any of these properties allows: nothing is served.
            let sig = format!("run-failed/{:?}/{}", e_kind(&e), fault_kinds.iter().cloned().collect::<Vec<_>>().join("+"));
            rep.violation("C02", &sig, format!("validation run failed ({:?}) on a world with remote faults only", e_kind(&e)), ctx(), json!({}));
            rep.violation("C41", &sig, format!("validation run failed ({:?}): a repository fault took down everything", e_kind(&e)), ctx(), json!({}));
            return false
        }
        Some(Ok(Ok(r))) => r.payload,
    };

    let observed = || json!({"origins": real.origins, "keys": real.keys, "aspas": real.aspas,
                             "expected_origins": expected.origins, "expected_keys": expected.keys, "expected_aspas": expected.aspas});
    // C01: nothing beyond the expected set
    let extra: Vec<String> = real.origins.difference(&expected.origins).cloned()
        .chain(real.keys.difference(&expected.keys).cloned())
        .chain(real.aspas.difference(&expected.aspas).cloned()).collect();
    let unsafe_reject = b["config"]["unsafe"] == "reject" && !b["unsafe"].as_array().unwrap().is_empty();
    if !faults.is_empty() { rep.nontrivial("C01", brief(b).to_string()); }
    if !extra.is_empty() {
        // attribute: is the extra item one the unsafe filter should have removed?
        let all_valid_unfiltered = b["valid"].as_array().unwrap().len() != b["expected"].as_array().unwrap().len();
        if unsafe_reject && all_valid_unfiltered && extra.iter().all(|x| conc.obj_payload.iter().any(|(k, v)| {
            v.1 == *x && b["unsafe"].as_array().unwrap().iter().any(|u| u[0].as_u64() == Some(k.0) && u[1].as_u64() == Some(k.1))
        })) {
            rep.violation("C08", &format!("unsafe-vrp-served/{shape}"),
                format!("VRPs overlapping rejected CA resources are served under unsafe-vrps=reject: {:?}", extra), ctx(), observed());
        } else {
            let sig = format!("extra-payload/{}", fault_kinds.iter().cloned().collect::<Vec<_>>().join("+"));
            rep.violation("C01", &sig, format!("payload not backed by a valid object is served: {:?}", extra), ctx(), observed());
        }
    }
    if real.count != real.origins.len() + real.keys.len() + real.aspas.len() {
        rep.violation("C01", "duplicate-items", "snapshot contains an item more than once", ctx(), observed());
    }
    // C02: nothing valid is missing
    let missing: Vec<String> = expected.origins.difference(&real.origins).cloned()
        .chain(expected.keys.difference(&real.keys).cloned())
        .chain(expected.aspas.difference(&real.aspas).cloned()).collect();
    if !faults.is_empty() && expected.count > 0 { rep.nontrivial("C02", brief(b).to_string()); }
    if !missing.is_empty() {
        if b["config"]["unsafe"] != "reject" && b["valid"].as_array().unwrap().len() == b["expected"].as_array().unwrap().len()
            && false { unreachable!() }
        let sig = format!("missing-payload/{}", fault_kinds.iter().cloned().collect::<Vec<_>>().join("+"));
        rep.violation("C02", &sig, format!("valid payload is not served: {:?}", missing), ctx(), observed());
    }
    rep.sample("C01", json!({"world": brief(b), "served": real.origins, "expected": expected.origins}));
    rep.sample("C02", json!({"world": brief(b), "served": real.origins, "expected": expected.origins}));

    // C06: stale / premature
    let stale = fault_kinds.contains("Stale");
    let premature = fault_kinds.contains("Premature");
    if stale || premature {
        rep.eval("C06"); rep.trace("C06");
        rep.nontrivial("C06", brief(b).to_string());
        // payload of the CA carrying the fault and of its descendants
        for f in faults {
            let kind = f[1].as_str().unwrap();
            if kind != "Stale" && kind != "Premature" { continue }
            let ca = f[0][1].as_u64().unwrap();
            let sub = subtree(b, ca);
            let sub_payload: BTreeSet<String> = conc.obj_payload.iter()
                .filter(|(k, _)| sub.contains(&k.0)).map(|(_, v)| v.1.clone()).filter(|s| !s.is_empty()).collect();
            let others: BTreeSet<String> = conc.obj_payload.iter()
                .filter(|(k, _)| !sub.contains(&k.0)).map(|(_, v)| v.1.clone()).collect();
            let served_from_sub: Vec<&String> = sub_payload.iter().filter(|s| !others.contains(*s))
                .filter(|s| real.origins.contains(*s) || real.keys.contains(*s)).collect();
            let must_drop = kind == "Premature" || b["config"]["stale"] == "reject";
            if must_drop && !served_from_sub.is_empty() {
                rep.violation("C06", &format!("{}-accepted/{}", kind.to_lowercase(), f[0][0].as_str().unwrap()),
                    format!("CA ca{ca} with a {kind} {} still contributes payload {:?} (stale policy {})",
                        f[0][0].as_str().unwrap(), served_from_sub, b["config"]["stale"]), ctx(), observed());
            }
            if !must_drop {
                // warn/accept: processed normally => what the model expects from this subtree must be there
                let exp_sub: Vec<&String> = sub_payload.iter().filter(|s| expected.origins.contains(*s) || expected.keys.contains(*s)).collect();
                let lost: Vec<&&String> = exp_sub.iter().filter(|s| !(real.origins.contains(**s) || real.keys.contains(**s))).collect();
                if !lost.is_empty() {
                    rep.violation("C06", &format!("stale-dropped/{}", f[0][0].as_str().unwrap()),
                        format!("stale CA ca{ca} is not processed although the stale policy is {}: lost {:?}", b["config"]["stale"], lost),
                        ctx(), observed());
                }
            }
        }
        rep.sample("C06", json!({"world": brief(b), "served": real.origins}));
    }

    // C07: depth and loops (termination is the watchdog above)
    if shape == "deep" || shape == "loop" {
        rep.eval("C07"); rep.trace("C07");
        rep.nontrivial("C07", brief(b).to_string());
        if !extra.is_empty() && faults.is_empty() {
            rep.violation("C07", &format!("depth-or-loop/{shape}"),
                format!("payload from beyond max-ca-depth or from a repeated key is served: {:?}", extra), ctx(), observed());
        }
        if !missing.is_empty() && faults.is_empty() {
            rep.violation("C07", &format!("rest-of-tree/{shape}"),
                format!("payload of the regular part of the tree is missing: {:?}", missing), ctx(), observed());
        }
        rep.sample("C07", json!({"world": brief(b), "served": real.origins, "threads": cfg.validation_threads}));
    }

    // C08
    if !b["rejected"].as_array().unwrap().is_empty() {
        rep.eval("C08"); rep.trace("C08");
        if !b["unsafe"].as_array().unwrap().is_empty() { rep.nontrivial("C08", brief(b).to_string()); }
        if b["config"]["unsafe"] != "reject" {
            // filter must remove nothing: every valid object's payload is served
            let lost: Vec<&String> = b["unsafe"].as_array().unwrap().iter().filter_map(|u| {
                conc.obj_payload.get(&(u[0].as_u64().unwrap(), u[1].as_u64().unwrap())).map(|v| &v.1)
            }).filter(|s| !real.origins.contains(*s)).collect();
            if !lost.is_empty() {
                rep.violation("C08", &format!("filtered-without-reject/{}", b["config"]["unsafe"].as_str().unwrap()),
                    format!("unsafe VRPs removed although the policy is {}: {:?}", b["config"]["unsafe"], lost), ctx(), observed());
            }
        }
        rep.sample("C08", json!({"world": brief(b), "rejected": b["rejected"], "unsafe": b["unsafe"], "served": real.origins}));
    }

    // C41: CAs outside the faulty repositories (and not below them) keep their payload
    if !faults.is_empty() {
        rep.eval("C41"); rep.trace("C41");
        let affected: BTreeSet<u64> = b["affected"].as_array().unwrap().iter().map(|x| x.as_u64().unwrap()).collect();
        let ncas = b["cas"].as_array().unwrap().len() as u64;
        if (affected.len() as u64) < ncas { rep.nontrivial("C41", brief(b).to_string()); }
        let unsafe_objs: BTreeSet<(u64, u64)> = if b["config"]["unsafe"] == "reject" {
            b["unsafe"].as_array().unwrap().iter().map(|u| (u[0].as_u64().unwrap(), u[1].as_u64().unwrap())).collect()
        } else { BTreeSet::new() };
        for c in b["clean"].as_array().unwrap() {
            let key = (c[0].as_u64().unwrap(), c[1].as_u64().unwrap());
            if affected.contains(&key.0) || unsafe_objs.contains(&key) { continue }
            let (kind, s) = &conc.obj_payload[&key];
            if kind == "aspa" { continue }
            if !(real.origins.contains(s) || real.keys.contains(s)) {
                rep.violation("C41", &format!("collateral/{}", fault_kinds.iter().cloned().collect::<Vec<_>>().join("+")),
                    format!("payload {s} of unaffected CA ca{} disappeared because of a fault elsewhere", key.0), ctx(), observed());
            }
        }
        rep.sample("C41", json!({"world": brief(b), "affected": b["affected"], "served": real.origins}));
    }
    false
}

fn e_kind(e: &RunError) -> &'static str {
    match e { RunError::Init(_) => "init", RunError::Retry => "retry", RunError::Fatal => "fatal" }
}

/// CA `ca` and all its descendants.
pub fn subtree(b: &Value, ca: u64) -> BTreeSet<u64> {
    let cas = b["cas"].as_array().unwrap();
    let mut res: BTreeSet<u64> = [ca].into_iter().collect();
    loop {
        let mut grew = false;
        for (i, c) in cas.iter().enumerate() {
            let id = i as u64 + 1;
            if !res.contains(&id) && res.contains(&c["parent"].as_u64().unwrap()) {
                res.insert(id);
                grew = true;
            }
        }
        if !grew { break }
    }
    res
}


/// The maximum depth as Routinator understands it when it is configured: every other world through the command line
/// option, the others through a configuration file (the option parser's result is what the engine gets).
fn configured_depth(depth: usize, idx: usize) -> usize {
    use std::ffi::OsString;
    let dir = std::env::temp_dir();
    let via_file = idx % 2 == 1;
    let mut argv: Vec<OsString> = vec!["routinator".into()];
    let file = dir.join(format!("vh-depth-{}-{}.conf", std::process::id(), idx));
    if via_file {
        if std::fs::write(&file, format!("max-ca-depth = {depth}\n")).is_err() { return depth }
        argv.push("-c".into()); argv.push(file.clone().into_os_string());
    } else {
        argv.push("--max-ca-depth".into()); argv.push(depth.to_string().into());
    }
    argv.push("vrps".into());
    let res = super::configrt::build(&argv, &dir);
    let _ = std::fs::remove_file(&file);
    match res {
        Ok(c) => c.max_ca_depth,
        // the file route needs more than this file gives on some builds: fall back to the command line
        Err(_) if via_file => configured_depth(depth, idx + 1),
        Err(e) => panic!("max-ca-depth {depth} not accepted by the option parser: {e}"),
    }
}
