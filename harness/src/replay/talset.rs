//! Replay of `TalSet.tla`: which trust anchor locators an instance works with.
//!
//! Every row (names given with `--tal`, `no-rir-tals`, state of the extra TAL
//! directory) is built as a real configuration and a real directory.
//! `Engine::new` loads the TALs (start-up failure or not); the loaded set is
//! read back from the per-TAL metrics of a run without collector on an empty
//! cache (every trust anchor is reported, none is found).
//!
//! No listed property speaks about the set of TALs: differences from the
//! specification are divergences (reported under C10, whose check runs this).

use std::collections::{BTreeMap, BTreeSet};
use serde_json::{json, Value};
use routinator::engine::Engine;
use routinator::payload::ValidationReport;
use crate::common::{catch, read_behaviours, Args, Report};
use crate::env::{init_process, TestBed};

const P: &str = "C10";

fn tal_text() -> &'static str { routinator::tals::BUNDLED_TALS[0].content }

pub fn main(args: &Args) -> i32 {
    let rows = read_behaviours(args.input.as_deref().expect("--in"));
    let mut rep = Report::new("talset");
    rep.touch(P);
    init_process();
    let production: BTreeSet<&str> = ["afrinic", "apnic", "arin", "lacnic", "ripe"].into_iter().collect();
    let mut differ = 0u64;
    let mut failed_rows = 0u64;
    for row in &rows {
        match catch(std::panic::AssertUnwindSafe(|| one(row, &production))) {
            Ok(Ok((same, started))) => { if !same.is_empty() { differ += 1; rep.divergence(P, format!("TalSet row {row}: {same}")); } if !started { failed_rows += 1; } }
            Ok(Err(e)) => { differ += 1; rep.divergence(P, format!("TalSet row {row}: {e}")); }
            Err(p) => { differ += 1; rep.divergence(P, format!("TalSet row {row}: panic {p}")); }
        }
    }
    rep.note(P, "talset_rows", json!(rows.len()));
    rep.note(P, "talset_rows_with_startup_failure", json!(failed_rows));
    rep.note(P, "talset_rows_differing_from_TalSet", json!(differ));
    rep.write(args)
}

/// Ok((difference text or empty, the instance started)).
fn one(row: &Value, production: &BTreeSet<&str>) -> Result<(String, bool), String> {
    let bed = TestBed::new();
    let mut cfg = bed.config();
    cfg.no_rir_tals = row["no_rir"].as_bool().unwrap();
    cfg.bundled_tals = row["mention"].as_array().unwrap().iter().map(|x| x.as_str().unwrap().to_string()).collect();
    let dir = bed.dir.path().join("extra-tals");
    let state = row["dir"].as_str().unwrap();
    let shadow = production.iter().next().unwrap().to_string();
    cfg.extra_tals_dir = match state {
        "unset" => None,
        "missing" => Some(bed.dir.path().join("no-such-directory")),
        _ => {
            std::fs::create_dir_all(&dir).map_err(|e| e.to_string())?;
            let put = |name: &str, text: &str| std::fs::write(dir.join(name), text).map_err(|e| e.to_string());
            match state {
                "empty" => {}
                "good" => put("x.tal", tal_text())?,
                "junk" => {
                    put("x.tal", tal_text())?;
                    put("notes.txt", tal_text())?;
                    put("old.tal.bak", tal_text())?;
                    std::fs::create_dir_all(dir.join("d.tal")).map_err(|e| e.to_string())?;
                }
                "broken" => { put("x.tal", tal_text())?; put("y.tal", "this is not a trust anchor locator\n")?; }
                "shadow" => put(&format!("{shadow}.tal"), tal_text())?,
                x => return Err(format!("directory state {x}")),
            }
            Some(dir.clone())
        }
    };
    cfg.dirty_repository = true;
    cfg.validation_threads = 2;
    let want_ok = row["ok"].as_bool().unwrap();
    let mut engine = match Engine::new(&cfg, false) {
        Ok(e) => e,
        Err(_) => return Ok((if want_ok { "the specification starts, Engine::new failed".to_string() } else { String::new() }, false)),
    };
    if !want_ok { return Ok(("the specification fails at start-up, Engine::new succeeded".into(), true)) }
    engine.ignite().map_err(|_| "ignite failed".to_string())?;
    let (_report, metrics) = ValidationReport::process(&engine, &cfg, false).map_err(|e| format!("run failed (fatal {})", e.is_fatal()))?;
    let mut count: BTreeMap<String, usize> = BTreeMap::new();
    for t in &metrics.tals { *count.entry(t.tal.name().to_string()).or_default() += 1; }
    let names: BTreeSet<String> = count.keys().cloned().collect();
    let twice: BTreeSet<String> = count.iter().filter(|x| *x.1 > 1).map(|x| x.0.clone()).collect();
    let set_of = |v: &Value| -> BTreeSet<String> { v.as_array().unwrap().iter().map(|x| x.as_str().unwrap().to_string()).collect() };
    let (want_names, want_twice) = (set_of(&row["names"]), set_of(&row["twice"]));
    if names != want_names || twice != want_twice {
        return Ok((format!("the specification loads {want_names:?} (twice: {want_twice:?}), the engine worked with {names:?} (twice: {twice:?})"), true))
    }
    Ok((String::new(), true))
}
