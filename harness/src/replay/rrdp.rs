//! Replay of `Gen_Rrdp` histories (C25) against the real collector, and the
//! table checks C38 (object size limit) and C29 (RRDP to rsync fallback).
//!
//! C25: every history (server versions, per client run the server steps, the
//! injected faults and the model's expectation) is realised on an RRDP server
//! double (`env::rrdp`, HTTP interception hook H1).  A client run is
//! `collector::Run::repository(ca)` for a CA certificate carrying the
//! server's rpkiNotify URI - the very call the validation engine makes.  It
//! returning an RRDP repository is "the update was reported successful and
//! the copy is used in this run".  After every run the archive file is opened
//! read-only and compared with the double's object map at the state's
//! (session, serial).

use std::collections::BTreeMap;
use std::path::PathBuf;
use std::str::FromStr;
use std::sync::{Arc, Mutex};
use bytes::Bytes;
use serde_json::{json, Value};
use routinator::collector::{Collector, RrdpArchive};
use routinator::config::{Config, FallbackPolicy};
use routinator::engine::CaCert;
use routinator::metrics::Metrics;
use rpki::repository::cert::Cert;
use rpki::repository::tal::{TalInfo, TalUri};
use rpki::uri;
use crate::common::{catch, read_behaviours, Args, Report, Rng};
use crate::env::rrdp::{self as dbl, FaultPlan, FileFault, ListFault, Objects, ReqKind, RrdpServer};
use crate::env::TestBed;
use crate::gen::*;

pub const SMALL_LIMIT: u64 = 3000;

//------------ A collector bound to one server double ---------------------------

pub struct Rig {
    pub bed: TestBed,
    pub srv: RrdpServer,
    pub ca: Arc<CaCert>,
    pub archive_path: PathBuf,
}

/// A trust anchor CA certificate with the given rpkiNotify (or none).
pub fn ca_cert(factory: &Factory, repo: &str, notify: Option<String>) -> Arc<CaCert> { ca_cert_with_key(factory, repo, notify, 0) }

pub fn ca_cert_with_key(factory: &Factory, repo: &str, notify: Option<String>, key: usize) -> Arc<CaCert> {
    let spec = CaCertSpec {
        key, issuer_key: None, serial: 1, validity: (-24, 24 * 30), repo: repo.to_string(),
        manifest: format!("{repo}ca.mft"), notify, crl_uri: None, ca_issuer: None,
        prefixes: vec!["10.0.0.0/8".into()], asns: vec![(64000, 65000)],
        inherit: false, overclaim_trim: false, forged: false,
    };
    let bytes = factory.ca_cert(&spec);
    let cert = Cert::decode(bytes).expect("decode ca cert");
    let cert = cert.validate_ta(TalInfo::from_name("verif".into()).into_arc(), true).expect("validate ta");
    CaCert::root(cert, TalUri::Rsync(uri::Rsync::from_str(&format!("{repo}ca.cer")).unwrap()), 0).expect("ca cert")
}

pub fn archive_path(bed: &TestBed, srv: &RrdpServer) -> PathBuf {
    bed.cache.join("rrdp").join(&srv.host).join(format!("{}.bin", dbl::hex(&dbl::sha256(srv.notify_uri().as_bytes()))))
}

impl Rig {
    pub fn new(factory: &Factory) -> Self {
        let bed = TestBed::new();
        let srv = RrdpServer::new();
        let ca = ca_cert(factory, &srv.rsync_base(), Some(srv.notify_uri()));
        let archive_path = archive_path(&bed, &srv);
        Rig { bed, srv, ca, archive_path }
    }

    /// Configuration: RRDP on, rsync off, the size limit at SMALL_LIMIT.
    pub fn config(&self) -> Config {
        let mut c = self.bed.config();
        c.disable_rrdp = false;
        c.disable_rsync = true;
        c.rrdp_fallback = FallbackPolicy::Never;
        c.max_object_size = Some(SMALL_LIMIT);
        c
    }

    pub fn collector(&self, config: &Config) -> Collector {
        let mut c = Collector::new(config).expect("collector");
        c.ignite().expect("ignite");
        c
    }

    pub fn wipe_archive(&self) {
        let _ = std::fs::remove_dir_all(self.bed.cache.join("rrdp"));
        std::fs::create_dir_all(self.bed.cache.join("rrdp")).unwrap();
    }

    /// Reads the archive back (read-only): state and objects.
    pub fn read_archive(&self) -> Option<LocalCopy> { read_archive(&self.archive_path) }
}

#[derive(Clone, Debug, PartialEq, Eq)]
pub struct LocalCopy {
    pub session: uuid::Uuid,
    pub serial: u64,
    pub etag: Option<String>,
    pub best_before: i64,
    pub objects: Objects,
}

pub fn read_archive(path: &PathBuf) -> Option<LocalCopy> {
    if !path.exists() { return None }
    let archive = RrdpArchive::open(Arc::new(path.clone())).ok()?;
    let state = archive.load_state().ok()?;
    let mut objects = Objects::new();
    for item in archive.objects().ok()? {
        let (uri, data) = item.ok()?;
        objects.insert(uri.to_string(), data);
    }
    Some(LocalCopy {
        session: state.session, serial: state.serial,
        etag: state.etag.as_ref().map(|e| String::from_utf8_lossy(e).into_owned()),
        best_before: state.best_before_ts, objects,
    })
}

/// What one client run showed.
pub struct RunObs {
    /// `Run::repository` returned a repository read from the RRDP archive.
    pub updated: bool,
    /// ... a repository at all (rsync when not `updated`).
    pub some: bool,
    /// What the returned repository serves for the probed URIs.
    pub served: Objects,
    pub notify_status: i16,
    pub payload_status: Option<i16>,
    pub metric_serial: Option<u64>,
    pub snapshot_reason: Option<String>,
    pub requests: Vec<dbl::Request>,
}

/// One client run: `Run::repository(ca)` and what the repository hands out for `probe`.
pub fn client_run(collector: &Collector, ca: &Arc<CaCert>, srv: &RrdpServer, probe: &[String]) -> Result<RunObs, String> {
    srv.take_log();
    let run = collector.start();
    let repo = run.repository(ca).map_err(|e| format!("run failed (fatal: {})", e.is_fatal()))?;
    let mut served = Objects::new();
    let (some, updated) = match repo.as_ref() { Some(r) => (true, r.is_rrdp()), None => (false, false) };
    if let Some(r) = repo.as_ref() {
        if updated {
            for u in probe {
                let uri = uri::Rsync::from_str(u).map_err(|e| format!("{e}"))?;
                if let Some(b) = r.load_object(&uri).map_err(|_| "load_object failed".to_string())? {
                    served.insert(u.clone(), b);
                }
            }
        }
    }
    drop(repo);
    let mut metrics = Metrics::new();
    run.done(&mut metrics);
    let m = metrics.rrdp.first();
    Ok(RunObs {
        updated, some, served,
        notify_status: m.map(|m| m.notify_status.into_i16()).unwrap_or(-9),
        payload_status: m.and_then(|m| m.payload_status.map(|s| s.into_i16())),
        metric_serial: m.and_then(|m| m.serial),
        snapshot_reason: m.and_then(|m| m.snapshot_reason.map(|r| r.code().to_string())),
        requests: srv.take_log(),
    })
}

//------------ C25: concretisation ------------------------------------------------

fn obj_uri(base: &str, o: u64) -> String { format!("{base}o{o}.roa") }

fn obj_bytes(o: u64, c: u64) -> Bytes {
    let mut v = format!("object {o} content {c} ").into_bytes();
    let n = 40 + ((o * 7 + c * 13) % 50) as usize;
    while v.len() < n { v.push(b'a' + ((v.len() as u64 + c) % 26) as u8) }
    Bytes::from(v)
}

/// Object map of a model version ("objs": [c1, c2, ..], 0 = absent).
fn objects_of(base: &str, objs: &Value) -> Objects {
    let mut res = Objects::new();
    for (i, c) in objs.as_array().unwrap().iter().enumerate() {
        let c = c.as_u64().unwrap();
        if c != 0 { res.insert(obj_uri(base, i as u64 + 1), obj_bytes(i as u64 + 1, c)); }
    }
    res
}

/// Turns the abstract fault choices of a run into a fault plan of the double.
/// `rot` selects among the concrete faults of a class.
fn fault_plan(plan: &Value, nelems: usize, snap_objs: usize, rot: u64) -> (FaultPlan, Vec<String>) {
    let mut fp = FaultPlan::default();
    let mut names = Vec::new();
    match plan["notify"].as_str().unwrap() {
        "err" => { let st = [500u16, 404, 503, 403][(rot % 4) as usize]; fp.notify_status = Some(st); names.push(format!("notify-http-{st}")) }
        "xml" => { fp.notify_bad_xml = true; names.push("notify-bad-xml".into()) }
        _ => {}
    }
    let s = plan["list"]["s"].as_u64().unwrap();
    match plan["list"]["k"].as_str().unwrap() {
        "trunc" => { fp.list = ListFault::Truncate(1); names.push("list-truncated".into()) }
        "nodeltas" => { fp.list = ListFault::DropAll; names.push("list-empty".into()) }
        "nolast" => { fp.list = ListFault::DropLast; names.push("list-newest-missing".into()) }
        "gap" => { fp.list = ListFault::Gap(s); names.push("list-gap".into()) }
        "dup" => { fp.list = ListFault::Duplicate(s); names.push("list-duplicate".into()) }
        _ => {}
    }
    let m = plan["mut"].as_u64().unwrap();
    if m != 0 { fp.mutate_hash = Some(m); names.push("listed-hash-mutated".into()) }
    if plan["snap"] == "fail" {
        let big = SMALL_LIMIT as usize + 1 + (rot as usize % 3) * 1000;
        let mut choices: Vec<(&str, FileFault, bool)> = vec![
            ("snapshot-http-500", FileFault::Http(500), false), ("snapshot-http-404", FileFault::Http(404), false),
            ("snapshot-bad-xml", FileFault::BadXmlAt(rot as usize % (snap_objs + 1)), false),
            ("snapshot-hash-wrong-in-notification", FileFault::None, true),
            ("snapshot-content-altered", FileFault::ContentAltered, false),
            ("snapshot-wrong-session", FileFault::WrongSession, false), ("snapshot-wrong-serial", FileFault::WrongSerial, false),
            ("snapshot-oversize-object", FileFault::OversizeAt(rot as usize % (snap_objs + 1), big), false),
        ];
        if snap_objs > 0 { choices.push(("snapshot-repeated-object", FileFault::RepeatAt(rot as usize % snap_objs), false)); }
        let (name, ff, hash_wrong) = choices[(rot as usize) % choices.len()].clone();
        fp.snapshot = ff; fp.snapshot_hash_wrong = hash_wrong; names.push(name.into());
    }
    let dser = plan["dser"].as_u64().unwrap();
    if dser != 0 {
        let k = plan["dk"].as_u64().unwrap() as usize;
        let big = SMALL_LIMIT as usize + 1 + (rot as usize % 3) * 777;
        let mut choices: Vec<(&str, FileFault)> = Vec::new();
        if k == 0 {
            choices.push(("delta-http-500", FileFault::Http(500))); choices.push(("delta-http-404", FileFault::Http(404)));
            choices.push(("delta-wrong-session", FileFault::WrongSession)); choices.push(("delta-wrong-serial", FileFault::WrongSerial));
        }
        if k < nelems { choices.push(("delta-element-wrong-hash", FileFault::WrongHashAt(k))); }
        if k == nelems { choices.push(("delta-content-altered", FileFault::ContentAltered)); }
        if k >= 1 { choices.push(("delta-element-repeated", FileFault::RepeatAt(k - 1))); }
        choices.push(("delta-bad-xml", FileFault::BadXmlAt(k)));
        choices.push(("delta-withdraw-unknown", FileFault::WithdrawUnknownAt(k)));
        choices.push(("delta-oversize-object", FileFault::OversizeAt(k, big)));
        let (name, ff) = choices[(rot as usize) % choices.len()].clone();
        fp.delta = Some((dser, ff)); names.push(format!("{name}@{k}/{nelems}"));
    }
    (fp, names)
}

pub const C25: &str = "C25";

struct Worker<'a> {
    rig: Rig,
    collector: Collector,
    rep: Report,
    args: &'a Args,
}

fn c25_main(args: &Args) -> i32 {
    let behaviours = read_behaviours(args.input.as_deref().expect("--in"));
    let total = behaviours.len();
    let limit = args.opt_usize("limit", usize::MAX);
    let mut order: Vec<usize> = (0..total).collect();
    if limit < total {
        let mut rng = Rng::new(args.seed);
        rng.shuffle(&mut order);
        order.truncate(limit);
        order.sort();
    }
    let factory = Arc::new(Factory::new());
    let work = Arc::new(Mutex::new(order.into_iter()));
    let behaviours = Arc::new(behaviours);
    let nthreads = args.opt_usize("jobs", 8);
    let mut rep = Report::new("rrdp");
    rep.touch(C25);
    if let Err(e) = dbl::self_test() {
        eprintln!("vh rrdp: the server double renders unparseable XML: {e}");
        return 2
    }
    let reports: Vec<Report> = std::thread::scope(|scope| {
        let handles: Vec<_> = (0..nthreads).map(|_| {
            let work = work.clone();
            let behaviours = behaviours.clone();
            let factory = factory.clone();
            scope.spawn(move || {
                let rig = Rig::new(&factory);
                let collector = rig.collector(&rig.config());
                let mut w = Worker { rig, collector, rep: Report::new("rrdp"), args };
                loop {
                    let idx = match work.lock().unwrap().next() { Some(i) => i, None => break };
                    let b = &behaviours[idx];
                    let res = catch(std::panic::AssertUnwindSafe(|| c25_one(&mut w, b, idx)));
                    if let Err(msg) = res {
                        w.rep.violation(C25, "panic", format!("panic during an RRDP update: {msg}"), b.clone(), json!({"panic": msg}));
                    }
                }
                w.rep
            })
        }).collect();
        handles.into_iter().map(|h| h.join().expect("worker")).collect()
    });
    for r in reports { rep.absorb(r); }
    // a server that rewrites its history: the same session and serials, other content (the listed delta hashes change)
    for retain_first in [1usize, 2, 100] {
        for fork_at in [1usize, 2] {
            match catch(std::panic::AssertUnwindSafe(|| c25_rewrite(&factory, retain_first, fork_at))) {
                Ok(r) => rep.absorb(r),
                Err(msg) => rep.violation(C25, "rrdp/history-rewritten/panic", format!("panic: {msg}"), json!({"retain_first": retain_first, "fork_at": fork_at}), json!({"panic": msg})),
            }
        }
    }
    // an honest server with an object over the size limit in its state
    for place in ["snapshot", "delta"] {
        for excess in [1usize, 2, 3, 64, 3000] {
            match catch(std::panic::AssertUnwindSafe(|| c25_oversize(&factory, place, excess))) {
                Ok(r) => rep.absorb(r),
                Err(msg) => rep.violation(C25, "rrdp/oversize/panic", format!("panic: {msg}"), json!({"place": place, "excess": excess}), json!({"panic": msg})),
            }
        }
    }
    let stray = dbl::stray_requests();
    if !stray.is_empty() { rep.note(C25, "stray_requests", json!(stray.len())); }
    rep.write(args)
}

/// Versions 1..3 of a session; the client copies version 3 while the server lists only the newest `retain_first`
/// deltas (so the client remembers the hashes of those only).  Then the server goes back to version `fork_at` and
/// publishes other versions `fork_at`+1 .. 4 under the same session and serials (every delta behind the fork has another
/// hash) and lists them all; the last one touches an object the old history never had, so it applies to the old
/// copy without conflict.  A successful update must leave the server's version 4.
fn c25_rewrite(factory: &Factory, retain_first: usize, fork_at: usize) -> Report {
    let mut rep = Report::new("rrdp");
    let rig = Rig::new(factory);
    let base = rig.srv.rsync_base();
    rig.srv.set_validators(false, false);
    let objs = |tag: &str, extra: bool| -> Objects {
        let mut o: Objects = [(format!("{base}o1.roa"), Bytes::from(format!("object one, {tag}")))].into_iter().collect();
        if extra { o.insert(format!("{base}o2.roa"), Bytes::from(format!("object two, {tag}"))); }
        o
    };
    let mut idx = Vec::new();
    for s in 1..=3 { idx.push(rig.srv.publish(objs(&format!("first history, version {s}"), false))); }
    rig.srv.with(|s| s.retain = retain_first);
    let collector = rig.collector(&rig.config());
    let ctx = json!({"history": "versions 1-3, client copies 3; the server rewrites its history behind the fork and goes on to serial 4",
                     "deltas_listed_at_first": retain_first, "fork_after_version": fork_at});
    match client_run(&collector, &rig.ca, &rig.srv, &[]) {
        Ok(o) if o.updated => {}
        _ => { rep.divergence(C25, format!("history rewrite {ctx}: the first update failed")); return rep }
    }
    rig.srv.announce(idx[fork_at - 1]);
    rig.srv.with(|s| s.retain = 100);
    let mut last = objs("nothing", false);
    for s in (fork_at + 1)..=4 {
        last = objs(&format!("second history, version {s}"), s == 4);
        if s == 4 { last.insert(format!("{base}o1.roa"), Bytes::from("object one, second history, version 3".to_string())); }
        rig.srv.publish(last.clone());
    }
    let obs = match client_run(&collector, &rig.ca, &rig.srv, &[]) {
        Ok(o) => o,
        Err(e) => { rep.divergence(C25, format!("history rewrite {ctx}: {e}")); return rep }
    };
    let after = rig.read_archive();
    rep.eval(C25);
    rep.trace(C25);
    rep.nontrivial(C25, format!("history-rewritten/{retain_first}/{fork_at}"));
    let made: Vec<String> = obs.requests.iter().filter(|q| !matches!(q.kind, ReqKind::Notify)).map(|q| format!("{:?}", q.kind)).collect();
    if obs.updated {
        let ok = after.as_ref().map(|l| l.serial == 4 && l.objects == last).unwrap_or(false);
        if !ok {
            rep.violation(C25, "rrdp/history-rewritten/copy-differs",
                "the update is reported successful; the local copy is not the server's state at the notified serial (deltas of the rewritten history were applied to a copy of the old one)".to_string(),
                ctx, json!({"requests": made, "snapshot_reason": obs.snapshot_reason,
                            "copy": after.as_ref().map(|l| l.objects.iter().map(|(u, b)| (u.clone(), String::from_utf8_lossy(b).into_owned())).collect::<BTreeMap<_, _>>())}));
        }
    }
    rep
}

/// An honest server whose state really holds an object over the size limit (every listed hash is right; the
/// oversize faults of the generated histories always come with a hash that vouches for the intact file, so those
/// updates fail at the hash check whatever the size gate does).  Either the update is not reported successful, or the
/// copy is the server's state, object for object, the big one in full.  Then the server withdraws the object: the next
/// update must succeed and reproduce the server again.
fn c25_oversize(factory: &Factory, place: &str, excess: usize) -> Report {
    let mut rep = Report::new("rrdp");
    let rig = Rig::new(factory);
    let base = rig.srv.rsync_base();
    rig.srv.set_validators(false, false);
    let collector = rig.collector(&rig.config());
    let small: Objects = [(format!("{base}o1.roa"), Bytes::from_static(b"a small object"))].into_iter().collect();
    let mut with_big = small.clone();
    with_big.insert(format!("{base}big.bin"), body_of(SMALL_LIMIT as usize + excess, excess as u64));
    let ctx = json!({"history": "an honest server publishes an object over max-object-size, then withdraws it", "travels_in": place,
                     "limit": SMALL_LIMIT, "object_size": SMALL_LIMIT as usize + excess});
    if place == "delta" {
        rig.srv.publish(small.clone());
        match client_run(&collector, &rig.ca, &rig.srv, &[]) {
            Ok(o) if o.updated => {}
            _ => { rep.divergence(C25, format!("oversize {ctx}: the first update failed")); return rep }
        }
    }
    rig.srv.publish(with_big.clone());
    let mut later = small.clone();
    later.insert(format!("{base}o2.roa"), Bytes::from_static(b"another small object"));
    for (step, want) in [("oversize-published", &with_big), ("oversize-withdrawn", &later)] {
        if step == "oversize-withdrawn" { rig.srv.publish(later.clone()); }
        let obs = match client_run(&collector, &rig.ca, &rig.srv, &[]) {
            Ok(o) => o,
            Err(e) => { rep.divergence(C25, format!("oversize {ctx}: {e}")); return rep }
        };
        let after = rig.read_archive();
        rep.eval(C25);
        rep.trace(C25);
        rep.nontrivial(C25, format!("oversize/{place}/{excess}/{step}"));
        let sizes = after.as_ref().map(|l| l.objects.iter().map(|(u, b)| (u.clone(), b.len())).collect::<BTreeMap<_, _>>());
        if obs.updated {
            if after.as_ref().map(|l| l.objects != *want).unwrap_or(true) {
                rep.violation(C25, &format!("rrdp/{step}/copy-differs/{place}"),
                    "the update is reported successful; the local copy is not the server's state at the notified serial".to_string(),
                    ctx.clone(), json!({"step": step, "copy_sizes": sizes, "server_sizes": want.iter().map(|(u, b)| (u.clone(), b.len())).collect::<BTreeMap<_, _>>()}));
            }
        }
        else if step == "oversize-withdrawn" {
            // not a violation of C25 (a failure is reported as one), but worth seeing
            rep.divergence(C25, format!("oversize {ctx}: the server no longer publishes the oversize object, every file is intact, yet the update fails ({:?}, copy {:?})", obs.snapshot_reason, sizes));
        }
    }
    rep
}

fn local_json(l: &Option<LocalCopy>, base: &str) -> Value {
    match l {
        None => json!(null),
        Some(l) => json!({"session": l.session.to_string(), "serial": l.serial, "etag": l.etag,
            "objects": l.objects.iter().map(|(u, b)| (u.strip_prefix(base).unwrap_or(u).to_string(),
                String::from_utf8_lossy(b).chars().take(24).collect::<String>())).collect::<BTreeMap<_, _>>()}),
    }
}

fn c25_one(w: &mut Worker, b: &Value, idx: usize) {
    let rig = &w.rig;
    let srv = &rig.srv;
    let base = srv.rsync_base();
    rig.wipe_archive();
    srv.reset();
    let etag_on = b["etag"].as_bool().unwrap();
    srv.set_validators(etag_on, false);
    let vers = b["vers"].as_array().unwrap();
    let nobj = vers[0]["objs"].as_array().unwrap().len() as u64;
    let mut probe: Vec<String> = (1..=nobj).map(|o| obj_uri(&base, o)).collect();
    probe.push(format!("{base}oversize.bin"));
    probe.push(format!("{base}never-published.roa"));
    // version 1 exists from the start
    srv.new_session(vers[0]["serial"].as_u64().unwrap(), objects_of(&base, &vers[0]["objs"]));
    let mut created = 1usize;
    let runs = b["runs"].as_array().unwrap();
    let mut any_fault = false;
    let mut fault_names_all: Vec<String> = Vec::new();
    // did a run that was not reported successful rewrite (session, serial) of the state record?
    let mut failed_run_moved_state = false;
    for (ri, r) in runs.iter().enumerate() {
        // --- server steps
        for step in r["env"].as_array().unwrap() {
            let v = step["v"].as_u64().unwrap() as usize;
            match step["op"].as_str().unwrap() {
                "publish" => {
                    assert_eq!(v, created + 1, "versions are created in order");
                    srv.publish(objects_of(&base, &vers[v - 1]["objs"]));
                    created += 1;
                }
                "newsession" => {
                    assert_eq!(v, created + 1, "versions are created in order");
                    srv.new_session(vers[v - 1]["serial"].as_u64().unwrap(), objects_of(&base, &vers[v - 1]["objs"]));
                    created += 1;
                }
                "announce" => { any_fault = true; srv.announce(v - 1) }
                "expire" => {}
                other => panic!("unknown server step {other}"),
            }
        }
        // the double must agree with the model about what is announced
        let (cur_idx, cur_sess, cur_serial) = srv.current().unwrap();
        // --- faults
        let plan = &r["plan"];
        let dser = plan["dser"].as_u64().unwrap();
        let nelems = if dser != 0 {
            srv.with(|s| s.versions.iter().rev().find(|v| v.session == cur_sess && v.serial == dser).map(|v| v.delta.len()).unwrap_or(0))
        } else { 0 };
        let rot = w.args.seed.wrapping_mul(31).wrapping_add(idx as u64 * 7 + ri as u64);
        let (fp, fault_names) = fault_plan(plan, nelems, srv.version(cur_idx).objects.len(), rot);
        if !fp.is_clean() { any_fault = true; }
        fault_names_all.extend(fault_names.iter().cloned());
        srv.set_faults(fp);
        let before = rig.read_archive();
        // --- the client run
        let obs = match client_run(&w.collector, &rig.ca, srv, &probe) {
            Ok(o) => o,
            Err(e) => {
                w.rep.violation(C25, "run-failed", format!("the collector run failed: {e}"),
                    json!({"behaviour": b, "run_index": ri, "faults": fault_names}), json!({}));
                srv.clear_faults();
                return
            }
        };
        srv.clear_faults();
        let after = rig.read_archive();
        let reqs: Vec<String> = obs.requests.iter().map(|q| format!("{:?}:{}", q.kind, q.status)).collect();
        let observed = json!({
            "updated": obs.updated, "notify_status": obs.notify_status, "payload_status": obs.payload_status,
            "metric_serial": obs.metric_serial, "snapshot_reason": obs.snapshot_reason, "requests": reqs,
            "local_before": local_json(&before, &base), "local_after": local_json(&after, &base),
            "announced": {"session": cur_sess.to_string(), "serial": cur_serial},
        });
        let ctx = || json!({"vers": b["vers"], "etag": etag_on, "runs": runs[..=ri], "run_index": ri,
                            "concrete_faults": fault_names, "rot": rot});
        // ---- the property
        w.rep.eval(C25);
        if obs.updated {
            // was the archive already something else than what its state record says?
            let dirty_before = before.as_ref().map(|l| !srv.objects_at(l.session, l.serial).iter().any(|o| *o == l.objects)).unwrap_or(false);
            let dirty = if dirty_before && failed_run_moved_state { "dirty-archive-restamped-then-" }
                        else if dirty_before { "dirty-archive-then-" } else { "" };
            let shape = if obs.notify_status == 304 { format!("{dirty}304") }
                else if !obs.requests.iter().any(|q| !matches!(q.kind, ReqKind::Notify)) { format!("{dirty}same-serial") }
                else if obs.requests.iter().any(|q| matches!(q.kind, ReqKind::Snapshot(_))) { format!("{dirty}snapshot") }
                else if plan["list"]["k"] != "ok" && !dirty_before { format!("delta-list-{}", plan["list"]["k"].as_str().unwrap()) }
                else { format!("{dirty}deltas") };
            match &after {
                None => w.rep.violation(C25, &format!("rrdp/updated-without-copy/{shape}"),
                    "the update is reported successful but there is no local copy", ctx(), observed.clone()),
                Some(l) => {
                    let at = srv.objects_at(l.session, l.serial);
                    if !at.iter().any(|o| *o == l.objects) {
                        w.rep.violation(C25, &format!("rrdp/{shape}"),
                            format!("the update is reported successful, the local copy claims session {} serial {} but its objects \
                                     are not the server's snapshot at that serial", l.session, l.serial), ctx(), observed.clone());
                    }
                    else if l.session != cur_sess || l.serial != cur_serial {
                        w.rep.violation(C25, &format!("rrdp/not-announced/{shape}"),
                            format!("the update is reported successful but the local copy is at session {} serial {} while the server \
                                     announces session {} serial {}", l.session, l.serial, cur_sess, cur_serial), ctx(), observed.clone());
                    }
                    // what the validation gets to see is the archive content
                    let mut want = l.objects.clone();
                    want.retain(|u, _| probe.contains(u));
                    if obs.served != want {
                        w.rep.violation(C25, &format!("rrdp/served-differs/{shape}"),
                            "the repository handed to the validation serves other objects than the archive holds", ctx(), observed.clone());
                    }
                }
            }
        }
        else if obs.some {
            w.rep.violation(C25, "rrdp/failed-update-used", "the update failed, yet a repository was handed to the validation (rsync is disabled)",
                ctx(), observed.clone());
        }
        if !obs.updated {
            let key = |l: &Option<LocalCopy>| l.as_ref().map(|l| (l.session, l.serial));
            if key(&before) != key(&after) && before.is_some() { failed_run_moved_state = true; }
        }
        // ---- model conformance (not an alarm)
        let exp = &r["exp"];
        let exp_updated = exp["result"] == "Updated";
        let exp_local: Option<(u64, Objects)> = if exp["present"].as_bool().unwrap() {
            Some((exp["serial"].as_u64().unwrap(), objects_of(&base, &exp["objs"])))
        } else { None };
        let got_local = after.as_ref().map(|l| (l.serial, l.objects.clone()));
        // an abandoned update may leave altered bytes behind: compare names only in that case
        let same = if obs.updated { exp_local == got_local } else {
            exp_local.as_ref().map(|(s, o)| (*s, o.keys().cloned().collect::<Vec<_>>()))
                == got_local.as_ref().map(|(s, o)| (*s, o.keys().cloned().collect::<Vec<_>>()))
        };
        if exp_updated != obs.updated || !same {
            w.rep.divergence(C25, format!("behaviour {idx} run {ri}: model expects {} / {:?}, code gives updated={} / {} (faults {:?}, requests {:?})",
                exp["result"], exp_local.as_ref().map(|(s, o)| (s, o.keys().map(|k| k.strip_prefix(&base).unwrap().to_string()).collect::<Vec<_>>())),
                obs.updated, local_json(&after, &base), fault_names, reqs));
            w.rep.add_note(C25, "model_mismatches", 1);
        }
        w.rep.add_note(C25, &format!("via_{}", exp["via"].as_str().unwrap_or("none")), 1);
        for n in &fault_names {
            let class = n.split('@').next().unwrap();
            w.rep.add_note(C25, &format!("fault_{class}"), 1);
        }
    }
    w.rep.trace(C25);
    if any_fault {
        w.rep.nontrivial(C25, format!("{}|{}|{}|{:?}", b["vers"], b["etag"], b["runs"], fault_names_all));
    }
    if any_fault && runs.len() >= 2 && idx % 97 == 0 {
        w.rep.sample(C25, json!({"vers": b["vers"], "etag": etag_on, "runs": runs, "concrete_faults": fault_names_all}));
    }
}

//------------ C38: the object size limit -----------------------------------------

pub const C38: &str = "C38";

fn body_of(size: usize, salt: u64) -> Bytes {
    let mut v = Vec::with_capacity(size);
    let mut x = salt.wrapping_mul(0x9E3779B97F4A7C15) | 1;
    while v.len() < size {
        x ^= x << 13; x ^= x >> 7; x ^= x << 17;
        v.extend_from_slice(&x.to_le_bytes());
    }
    v.truncate(size);
    Bytes::from(v)
}

fn c38_main(args: &Args) -> i32 {
    let rows = read_behaviours(args.input.as_deref().expect("--in"));
    let factory = Arc::new(Factory::new());
    let mut rep = Report::new("rrdp");
    rep.touch(C38);
    let default_limit = Config::default_with_paths(PathBuf::from("/nonexistent.conf"), PathBuf::from("/nonexistent"))
        .max_object_size.expect("the default configuration has a size limit");
    rep.note(C38, "default_limit", json!(default_limit));
    rep.note(C38, "small_limits", json!([SMALL_LIMIT, 768, 1536, 1000, 63, 4096, 249]));
    let work = Arc::new(Mutex::new((0..rows.len()).collect::<Vec<_>>().into_iter()));
    let rows = Arc::new(rows);
    let nthreads = args.opt_usize("jobs", 8);
    let reports: Vec<Report> = std::thread::scope(|scope| {
        let handles: Vec<_> = (0..nthreads).map(|_| {
            let work = work.clone();
            let rows = rows.clone();
            let factory = factory.clone();
            scope.spawn(move || {
                let rig = Rig::new(&factory);
                let mut rep = Report::new("rrdp");
                loop {
                    let idx = match work.lock().unwrap().next() { Some(i) => i, None => break };
                    let row = &rows[idx];
                    // the class "small limit" stands for several concrete limits: a round one, and values at which the
                    // pieces the base64 reader hands out end exactly (768 and its multiples, 63, ...)
                    let uses_small = row["limit"].as_u64() == Some(10) || matches!(row["size"].as_u64(), Some(9) | Some(10) | Some(11));
                    let smalls: &[u64] = if uses_small { &[SMALL_LIMIT, 768, 1536, 1000, 63, 4096, 249] } else { &[SMALL_LIMIT] };
                    for small in smalls {
                        let res = catch(std::panic::AssertUnwindSafe(|| c38_row(&mut rep, &rig, row, default_limit, idx as u64 + args.seed, *small)));
                        if let Err(msg) = res {
                            rep.violation(C38, "panic", format!("panic: {msg}"), row.clone(), json!({"panic": msg, "small_limit": small}));
                        }
                    }
                }
                rep
            })
        }).collect();
        handles.into_iter().map(|h| h.join().expect("worker")).collect()
    });
    for r in reports { rep.absorb(r); }
    // end to end: a real trust anchor certificate behind an https TAL URI, whole validation runs
    for (name, limit) in [("none", None), ("small", Some(SMALL_LIMIT)), ("default", Some(default_limit))] {
        c38_end_to_end(&mut rep, &factory, name, limit);
        c38_rsync(&mut rep, &factory, name, limit);
    }
    rep.write(args)
}

/// The rsync transport: Routinator does not see the objects before rsync has written them, the limit is enforced by
/// rsync itself.  What can be checked is that the limit reaches the command line exactly: one `--max-size=<L>` with a
/// limit, none without (SizeGate.tla, RsyncArgs).  The fake rsync is spawned as a process here and logs its arguments.
fn c38_rsync(rep: &mut Report, factory: &Factory, name: &str, limit: Option<u64>) {
    let bed = TestBed::new_spawning();
    let mut ta = Ca::new("ca1", None, 0, "rsync://sz.verif.test/repo/ca1/");
    ta.prefixes = vec!["10.0.0.0/8".into()];
    ta.asns = vec![(64000, 65000)];
    ta.objects.push(Obj { name: "o1.roa".into(), kind: ObjKind::Roa { asn: 64501, prefixes: vec![("10.1.0.0/16".into(), 16)] },
        serial: 11, validity: (-2, 48), fault: Fault::None });
    let world = World { tals: vec![Tal { name: "tal1".into(), ca: 0, uris: vec![("rsync://sz.verif.test/repo/ta1.cer".into(), TaVariant::Good)] }], cas: vec![ta] };
    bed.publish(&world.build(factory));
    let mut cfg = bed.config();
    cfg.max_object_size = limit;
    // Routinator's own rsync arguments (rsync-args unset; given arguments replace the defaults, limit included, by
    // design): the rsync command is a script that answers `-h` and hands everything else to the fake rsync
    let script = bed.dir.path().join("rsync.sh");
    let exe = std::env::current_exe().expect("current exe");
    std::fs::write(&script, format!("#!/bin/sh\nif [ \"$1\" = \"-h\" ]; then echo 'fake rsync --contimeout'; exit 0; fi\nexec '{}' fake-rsync '{}' \"$@\"\n",
        exe.display(), bed.dir.path().display())).expect("script");
    {
        use std::os::unix::fs::PermissionsExt;
        let _ = std::fs::set_permissions(&script, std::fs::Permissions::from_mode(0o755));
    }
    cfg.rsync_command = script.to_string_lossy().into_owned();
    cfg.rsync_args = None;
    // spawn the command (no in-process replacement), whatever other beds installed
    routinator::verif::set_rsync_override(None);
    let res = crate::env::run_once(&cfg, true, &routinator::slurm::LocalExceptions::empty());
    crate::env::install_inproc_rsync_again();
    let log = std::fs::read_to_string(bed.dir.path().join("rsync-args.log")).unwrap_or_default();
    let ctx = json!({"transport": "rsync", "limit": limit});
    rep.eval(C38);
    let calls: Vec<&str> = log.lines().collect();
    if res.is_err() || calls.is_empty() {
        rep.divergence(C38, format!("rsync/limit-{name}: no rsync command line was recorded (run ok: {})", res.is_ok()));
        return
    }
    rep.nontrivial(C38, format!("rsync-args|{name}"));
    for call in calls.iter() {
        let sizes: Vec<&str> = call.split(' ').filter(|a| a.starts_with("--max-size")).collect();
        let ok = match limit { None => sizes.is_empty(), Some(l) => sizes == vec![format!("--max-size={l}").as_str()] };
        if !ok {
            rep.violation(C38, &format!("rsync/limit-{name}/command-line"),
                format!("limit {limit:?}: the rsync command line carries {sizes:?}"), ctx.clone(), json!({"command_line": call}));
            return
        }
    }
}

fn limit_name(l: u64) -> &'static str { match l { 0 => "none", 10 => "small", _ => "default" } }

fn c38_row(rep: &mut Report, rig: &Rig, row: &Value, default_limit: u64, salt: u64, small_limit: u64) {
    let l = row["limit"].as_u64().unwrap();
    let limit = match l { 0 => None, 10 => Some(small_limit), 20 => Some(default_limit), _ => panic!("limit class") };
    let size = match row["size"].as_u64().unwrap() {
        9 => small_limit - 1, 10 => small_limit, 11 => small_limit + 1,
        19 => default_limit - 1, 20 => default_limit, 21 => default_limit + 1,
        40 => default_limit + 5_000_000, _ => panic!("size class"),
    } as usize;
    let place = row["place"].as_str().unwrap();
    let expected = row["accepted"].as_bool().unwrap();
    // the property's own arithmetic, independent of the model
    assert_eq!(expected, limit.map(|l| size as u64 <= l).unwrap_or(true));
    if !row["len"].as_bool().unwrap() {
        // the interception hook always answers with a complete body: Content-Length is always known
        rep.add_note(C38, "rows_without_content_length_left_to_the_tls_pass", 1);
        return
    }
    let srv = &rig.srv;
    let base = srv.rsync_base();
    rig.wipe_archive();
    srv.reset();
    let mut cfg = rig.config();
    cfg.max_object_size = limit;
    let collector = rig.collector(&cfg);
    let body = body_of(size, salt);
    let small = format!("{base}small.roa");
    let big = format!("{base}big.bin");
    let ctx = json!({"row": row, "limit": limit, "size": size, "place": place, "small_limit": small_limit});
    let (accepted, detail): (bool, Value) = match place {
        "ta" => {
            let uri = srv.put_file("/ta/ta.cer", body.clone());
            let run = collector.start();
            let got = run.load_ta(&TalUri::Https(uri::Https::from_str(&uri).unwrap()));
            let reqs = srv.take_log();
            let ok = got.as_ref().map(|b| *b == body).unwrap_or(false);
            if let Some(b) = got.as_ref() { if !ok { rep.add_note(C38, "ta_partial_body_returned", 1); let _ = b; } }
            (ok, json!({"returned_len": got.map(|b| b.len()), "requests": reqs.len()}))
        }
        "snapshot" => {
            srv.publish([(small.clone(), Bytes::from_static(b"a small object")), (big.clone(), body.clone())].into_iter().collect());
            let obs = match client_run(&collector, &rig.ca, srv, &[big.clone(), small.clone()]) {
                Ok(o) => o, Err(e) => { rep.violation(C38, "run-failed", e, ctx, json!({})); return }
            };
            let stored = rig.read_archive().map(|l| l.objects.get(&big).map(|b| b.len()));
            let ok = obs.updated && obs.served.get(&big) == Some(&body);
            if !ok && stored.clone().flatten().is_some() {
                rep.violation(C38, &format!("snapshot/limit-{}/refused-but-stored", limit_name(l)),
                    "the object was refused but is in the local copy", ctx.clone(), json!({"stored": stored}));
            }
            (ok, json!({"updated": obs.updated, "stored_len": stored, "snapshot_reason": obs.snapshot_reason}))
        }
        "delta" | "delta_replace" => {
            let mut first: Objects = [(small.clone(), Bytes::from_static(b"a small object"))].into_iter().collect();
            // replacing: the copy already holds an object of that name, the delta element carries its hash
            if place == "delta_replace" { first.insert(big.clone(), Bytes::from_static(b"the object before it grew")); }
            srv.publish(first);
            match client_run(&collector, &rig.ca, srv, &[]) {
                Ok(o) if o.updated => {}
                _ => { rep.add_note(C38, "unrealised_rows", 1); rep.divergence(C38, format!("row {row}: the first update failed")); return }
            }
            srv.publish([(small.clone(), Bytes::from_static(b"a small object")), (big.clone(), body.clone())].into_iter().collect());
            let obs = match client_run(&collector, &rig.ca, srv, &[big.clone(), small.clone()]) {
                Ok(o) => o, Err(e) => { rep.violation(C38, "run-failed", e, ctx, json!({})); return }
            };
            let ok = obs.updated && obs.served.get(&big) == Some(&body);
            let delta_asked = obs.requests.iter().any(|q| matches!(q.kind, ReqKind::Delta(_)));
            let snap_asked = obs.requests.iter().any(|q| matches!(q.kind, ReqKind::Snapshot(_)));
            if !delta_asked || (ok && snap_asked) {
                rep.divergence(C38, format!("row {row}: the object did not travel in a delta (delta asked {delta_asked}, snapshot asked {snap_asked})"));
                rep.add_note(C38, "unrealised_rows", 1);
                return
            }
            let stored = rig.read_archive().map(|l| l.objects.get(&big).map(|b| b.len()));
            if !obs.updated && stored.clone().flatten().is_some() {
                // the delta was applied in place before it was refused; the copy is not reported updated (C25's subject)
                rep.add_note(C38, "refused_object_left_in_unreported_copy", 1);
            }
            (ok, json!({"updated": obs.updated, "stored_len": stored, "snapshot_reason": obs.snapshot_reason}))
        }
        other => panic!("place {other}"),
    };
    rep.eval(C38);
    rep.trace(C38);
    rep.nontrivial(C38, format!("{}|{}|{}", limit_name(l), row["size"], place));
    if accepted != expected {
        let sig = format!("{place}/limit-{}/{}", limit_name(l), if expected { "refused" } else { "accepted" });
        rep.violation(C38, &sig,
            format!("limit {:?}, object of {size} bytes as {place}: expected {}, the collector {} it", limit,
                if expected { "accepted" } else { "refused" }, if accepted { "accepted" } else { "refused" }),
            ctx, detail);
    }
    else if size <= small_limit as usize + 1 {
        rep.sample(C38, json!({"row": row, "limit": limit, "size": size, "accepted": accepted}));
    }
}

/// A TAL with an https URI: the real trust anchor certificate (about 1.3 kB,
/// below every limit used) must be accepted whatever the limit is; visible in
/// the payload of a whole validation run.
fn c38_end_to_end(rep: &mut Report, factory: &Factory, name: &str, limit: Option<u64>) {
    use routinator::slurm::LocalExceptions;
    let bed = TestBed::new();
    let srv = RrdpServer::new();
    let ta_uri = format!("https://{}/ta/ta.cer", srv.host);
    let mut ta = Ca::new("ta", None, 0, &format!("rsync://{}/repo/ta/", srv.host));
    ta.prefixes = vec!["10.0.0.0/8".into()];
    ta.asns = vec![(64000, 65000)];
    ta.objects.push(Obj { name: "r1.roa".into(), kind: ObjKind::Roa { asn: 64501, prefixes: vec![("10.1.0.0/16".into(), 24)] },
        serial: 11, validity: (-2, 48), fault: Fault::None });
    // the first URI (rsync, nothing published there) is what the objects name as their issuer's location
    let world = World { tals: vec![Tal { name: "ta".into(), ca: 0, uris: vec![
        (format!("rsync://{}/repo/ta.cer", srv.host), TaVariant::Absent), (ta_uri.clone(), TaVariant::Good)] }], cas: vec![ta] };
    let mut published = world.build(factory);
    let cert = published.files.remove(&ta_uri).expect("ta cert");
    let cert_len = cert.len();
    srv.put_file("/ta/ta.cer", cert);
    bed.publish(&published);
    let mut cfg = bed.config();
    cfg.disable_rrdp = false;
    cfg.max_object_size = limit;
    let res = crate::env::run_once(&cfg, true, &LocalExceptions::empty());
    rep.eval(C38);
    rep.nontrivial(C38, format!("ta-end-to-end|{name}"));
    let ctx = json!({"case": "TAL with https URI, whole validation run", "limit": limit, "certificate_len": cert_len});
    match res {
        Ok(r) => {
            let ok = r.payload.origins.iter().any(|o| o.contains("AS64501"));
            if !ok {
                rep.violation(C38, &format!("ta-end-to-end/limit-{name}/refused"),
                    format!("limit {limit:?}: the trust anchor certificate of {cert_len} bytes fetched over https was not accepted: no payload"),
                    ctx, json!({"origins": r.payload.origins, "requests": srv.take_log().len()}));
            }
        }
        Err(e) => rep.violation(C38, "ta-end-to-end/run-failed", format!("{e:?}"), ctx, json!({})),
    }
}

/// The trust anchor rows over a real HTTPS connection (loopback server behind
/// `rrdp-proxy`, trusted through `rrdp-root-cert`): responses with and without
/// a Content-Length.  Hook-free; the interceptor must not be installed in
/// this process, so no `RrdpServer` is created here.
fn c38_tls_main(args: &Args) -> i32 {
    use crate::env::tls::TlsServer;
    let rows = read_behaviours(args.input.as_deref().expect("--in"));
    let mut rep = Report::new("rrdp");
    rep.touch(C38);
    let bed = TestBed::new();
    let host = "ta-loopback.verif.test";
    let srv = TlsServer::start(host, bed.dir.path());
    let default_limit = Config::default_with_paths(PathBuf::from("/nonexistent.conf"), PathBuf::from("/nonexistent"))
        .max_object_size.expect("the default configuration has a size limit");
    let collector_for = |limit: Option<u64>| -> Collector {
        let mut cfg = bed.config();
        cfg.disable_rrdp = false;
        cfg.disable_rsync = true;
        cfg.max_object_size = limit;
        cfg.rrdp_root_certs = vec![srv.ca_pem.clone()];
        cfg.rrdp_proxies = vec![srv.proxy()];
        let mut c = Collector::new(&cfg).expect("collector");
        c.ignite().expect("ignite");
        c
    };
    // can this environment do it at all?
    {
        let c = collector_for(Some(default_limit));
        let uri = srv.put("/probe.cer", b"probe".to_vec(), true);
        let got = c.start().load_ta(&TalUri::Https(uri::Https::from_str(&uri).unwrap()));
        if got.as_deref() != Some(&b"probe"[..]) {
            rep.note(C38, "tls_loopback_unavailable", json!(format!("probe returned {:?}; server log {:?}", got.map(|b| b.len()), srv.take_log())));
            return rep.write(args)
        }
    }
    for (idx, row) in rows.iter().enumerate() {
        if row["place"] != "ta" { continue }
        let l = row["limit"].as_u64().unwrap();
        let limit = match l { 0 => None, 10 => Some(SMALL_LIMIT), _ => Some(default_limit) };
        let size = match row["size"].as_u64().unwrap() {
            9 => SMALL_LIMIT - 1, 10 => SMALL_LIMIT, 11 => SMALL_LIMIT + 1,
            19 => default_limit - 1, 20 => default_limit, 21 => default_limit + 1,
            40 => default_limit + 5_000_000, _ => panic!("size class"),
        } as usize;
        let with_len = row["len"].as_bool().unwrap();
        let expected = row["accepted"].as_bool().unwrap();
        assert_eq!(expected, limit.map(|l| size as u64 <= l).unwrap_or(true));
        let body = body_of(size, idx as u64 + args.seed);
        let uri = srv.put(&format!("/ta/ta-{idx}.cer"), body.to_vec(), with_len);
        let collector = collector_for(limit);
        srv.take_log();
        let got = catch(std::panic::AssertUnwindSafe(|| collector.start().load_ta(&TalUri::Https(uri::Https::from_str(&uri).unwrap()))));
        let got = match got { Ok(g) => g, Err(msg) => { rep.violation(C38, "panic", msg, row.clone(), json!({})); continue } };
        let log = srv.take_log();
        if !log.iter().any(|l| l.starts_with("GET ")) {
            rep.add_note(C38, "unrealised_rows", 1);
            rep.divergence(C38, format!("row {row}: the request did not reach the loopback server ({log:?})"));
            continue
        }
        let accepted = got.as_ref().map(|b| *b == body).unwrap_or(false);
        if got.is_some() && !accepted { rep.add_note(C38, "ta_partial_body_returned", 1); }
        rep.eval(C38);
        rep.trace(C38);
        let what = if with_len { "ta-https" } else { "ta-no-content-length" };
        rep.nontrivial(C38, format!("{}|{}|{what}", limit_name(l), row["size"]));
        if accepted != expected {
            let sig = if with_len { format!("ta/limit-{}/{}", limit_name(l), if expected { "refused" } else { "accepted" }) }
                      else { format!("ta-no-content-length/limit-{}/{}", limit_name(l), if expected { "refused" } else { "accepted" }) };
            rep.violation(C38, &sig,
                format!("limit {:?}, trust anchor response of {size} bytes {} Content-Length over https: expected {}, load_ta {} it", limit,
                    if with_len { "with" } else { "without" }, if expected { "accepted" } else { "refused" },
                    if accepted { "accepted" } else { "refused" }),
                json!({"row": row, "limit": limit, "size": size, "transport": "loopback https through rrdp-proxy"}),
                json!({"returned_len": got.map(|b| b.len())}));
        }
        else if !with_len && size <= SMALL_LIMIT as usize + 1 {
            rep.sample(C38, json!({"row": row, "limit": limit, "size": size, "accepted": accepted, "content_length": false}));
        }
    }
    rep.write(args)
}

//------------ C29: RRDP to rsync fallback ----------------------------------------

pub const C29: &str = "C29";

struct FbCase {
    row: Value,
    rig: Rig,
    ca: Arc<CaCert>,
    /// A second CA in the same repository (thorough tier).
    ca2: Option<Arc<CaCert>>,
    cfg: Config,
    ok: bool,
}

fn c29_main(args: &Args) -> i32 {
    let rows = read_behaviours(args.input.as_deref().expect("--in"));
    let factory = Factory::new();
    let mut rep = Report::new("rrdp");
    rep.touch(C29);
    let mut cases: Vec<FbCase> = Vec::new();
    // --- phase 1: local state
    for row in rows.iter() {
        let rig = Rig::new(&factory);
        let base = rig.srv.rsync_base();
        let notify = row["notify"].as_bool().unwrap();
        let ca = if notify { rig.ca.clone() } else { ca_cert(&factory, &base, None) };
        let ca2 = if args.thorough() {
            Some(ca_cert_with_key(&factory, &base, if notify { Some(rig.srv.notify_uri()) } else { None }, 1))
        } else { None };
        // something for rsync to fetch
        let mut published = Published::default();
        published.files.insert(format!("{base}ca.mft"), Bytes::from_static(b"not a manifest"));
        rig.bed.publish(&published);
        rig.srv.publish([(format!("{base}o1.roa"), Bytes::from_static(b"object one"))].into_iter().collect());
        let mut cfg = rig.bed.config();
        cfg.disable_rrdp = !row["rrdp"].as_bool().unwrap();
        cfg.disable_rsync = !row["rsync"].as_bool().unwrap();
        cfg.rrdp_fallback = match row["policy"].as_str().unwrap() {
            "never" => FallbackPolicy::Never, "stale" => FallbackPolicy::Stale, "new" => FallbackPolicy::New, p => panic!("policy {p}"),
        };
        let copy = row["copy"].as_str().unwrap();
        if copy == "expired" {
            cfg.refresh = std::time::Duration::from_secs(1);
            cfg.rrdp_fallback_time = std::time::Duration::from_secs(0);
        }
        let mut ok = true;
        if copy != "none" {
            // a successful update leaves a local copy (always with RRDP on and a CA announcing RRDP)
            let mut prime = cfg.clone();
            prime.disable_rrdp = false;
            prime.disable_rsync = true;
            let collector = rig.collector(&prime);
            match client_run(&collector, &rig.ca, &rig.srv, &[]) {
                Ok(o) if o.updated => {}
                _ => ok = false,
            }
        }
        cases.push(FbCase { row: row.clone(), rig, ca, ca2, cfg, ok });
    }
    // histories: a copy whose best-before time has passed is made current again by a successful update that has
    // nothing to fetch (304 with validators; 200 with the same serial without), then an update fails
    let mut touched: Vec<(Rig, bool)> = Vec::new();
    for etag in [true, false] {
        let rig = Rig::new(&factory);
        let base = rig.srv.rsync_base();
        let mut published = Published::default();
        published.files.insert(format!("{base}ca.mft"), Bytes::from_static(b"not a manifest"));
        rig.bed.publish(&published);
        rig.srv.set_validators(etag, etag);
        rig.srv.publish([(format!("{base}o1.roa"), Bytes::from_static(b"object one"))].into_iter().collect());
        let mut prime = rig.bed.config();
        prime.disable_rrdp = false;
        prime.disable_rsync = true;
        prime.refresh = std::time::Duration::from_secs(1);
        prime.rrdp_fallback_time = std::time::Duration::from_secs(0);
        let collector = rig.collector(&prime);
        let ok = matches!(client_run(&collector, &rig.ca, &rig.srv, &[]), Ok(o) if o.updated);
        if ok { touched.push((rig, etag)); } else { rep.divergence(C29, "history: the first update failed".to_string()); }
    }
    // --- phase 2: let the copies of the "stale" rows expire (best-before = update + 1..2 s)
    std::thread::sleep(std::time::Duration::from_millis(3300));
    for (rig, etag) in touched.iter() {
        let res = catch(std::panic::AssertUnwindSafe(|| c29_touched(rig, *etag)));
        match res {
            Ok(r) => rep.absorb(r),
            Err(msg) => rep.violation(C29, "panic", format!("panic: {msg}"), json!({"history": "touched"}), json!({"panic": msg})),
        }
    }
    // --- phase 3: the runs
    for case in cases.iter() {
        let res = catch(std::panic::AssertUnwindSafe(|| c29_case(case)));
        match res {
            Ok(r) => rep.absorb(r),
            Err(msg) => rep.violation(C29, "panic", format!("panic: {msg}"), case.row.clone(), json!({"panic": msg})),
        }
    }
    rep.write(args)
}

/// See `c29_main`: expired copy, successful update with nothing to fetch, failed update under policy `stale`.
fn c29_touched(rig: &Rig, etag: bool) -> Report {
    let mut rep = Report::new("rrdp");
    let how = if etag { "304" } else { "200-same-serial" };
    let ctx = json!({"history": ["update (copy expires)", format!("successful update with nothing to fetch ({how})"), "failed update"],
                     "policy": "stale", "rrdp": true, "rsync": true});
    let now = chrono::Utc::now().timestamp();
    let expired = rig.read_archive().map(|l| l.best_before < now).unwrap_or(false);
    if !expired { rep.add_note(C29, "unrealised_rows", 1); rep.divergence(C29, format!("history {how}: the copy did not expire")); return rep }
    let mut cfg = rig.bed.config();
    cfg.disable_rrdp = false;
    cfg.disable_rsync = false;
    cfg.rrdp_fallback = FallbackPolicy::Stale;
    cfg.refresh = std::time::Duration::from_secs(300);
    cfg.rrdp_fallback_time = std::time::Duration::from_secs(600);
    let collector = rig.collector(&cfg);
    // the update that has nothing to fetch
    let obs = match client_run(&collector, &rig.ca, &rig.srv, &[]) { Ok(o) => o, Err(e) => { rep.divergence(C29, format!("history {how}: {e}")); return rep } };
    let fetched: Vec<String> = obs.requests.iter().filter(|q| !matches!(q.kind, ReqKind::Notify)).map(|q| format!("{:?}", q.kind)).collect();
    if !obs.updated || !fetched.is_empty() || (etag != (obs.notify_status == 304)) {
        rep.add_note(C29, "unrealised_rows", 1);
        rep.divergence(C29, format!("history {how}: the second update was not a successful update with nothing to fetch (updated {}, status {}, fetched {fetched:?})", obs.updated, obs.notify_status));
        return rep
    }
    // the failing update
    rig.srv.set_faults(FaultPlan { notify_status: Some(500), ..Default::default() });
    rig.bed.take_rsync_log();
    let run = collector.start();
    let repo = run.repository(&rig.ca);
    let decision = match repo.as_ref() { Ok(Some(r)) if r.is_rrdp() => "rrdp", Ok(Some(_)) => "rsync", Ok(None) => "none", Err(_) => "failed" };
    drop(repo);
    drop(run);
    rig.srv.clear_faults();
    let rsync_log = rig.bed.take_rsync_log();
    let local = rig.read_archive();
    let observed = json!({"decision": decision, "rsync_log": rsync_log,
                          "best_before_minus_now": local.as_ref().map(|l| l.best_before - chrono::Utc::now().timestamp())});
    rep.eval(C29);
    rep.trace(C29);
    let sig = format!("policy-stale/current-by-{how}/rrdp-on/rsync-on/notify-yes");
    rep.nontrivial(C29, sig.clone());
    // no collector repository at all: the engine then uses its stored data
    if decision != "none" || !rsync_log.is_empty() {
        rep.violation(C29, &sig, format!("the copy was updated successfully a moment ago ({how}) and is current; the failed update must not fall back (stored data is used), Run::repository gives {decision}"),
            ctx, observed);
    }
    rep
}

fn fnv_str(s: &str) -> u64 {
    let mut h = 0xcbf29ce484222325u64;
    for b in s.bytes() { h ^= b as u64; h = h.wrapping_mul(0x100000001b3); }
    h
}

fn c29_case(case: &FbCase) -> Report {
    let mut rep = Report::new("rrdp");
    let row = &case.row;
    let rig = &case.rig;
    let rrdp_on = row["rrdp"].as_bool().unwrap();
    let rsync_on = row["rsync"].as_bool().unwrap();
    let notify = row["notify"].as_bool().unwrap();
    // was the local state produced?
    let now = chrono::Utc::now().timestamp();
    let local = rig.read_archive();
    let copy0 = row["copy"].as_str().unwrap();
    let produced = case.ok && match copy0 {
        "none" => local.is_none(),
        "current" => local.as_ref().map(|l| l.best_before > now + 60).unwrap_or(false),
        "expired" => local.as_ref().map(|l| l.best_before < now).unwrap_or(false),
        _ => false,
    };
    if !produced {
        rep.add_note(C29, "unrealised_rows", 1);
        rep.divergence(C29, format!("row {row}: local state {copy0} not produced (copy {:?}, now {now})",
            local.as_ref().map(|l| (l.serial, l.best_before))));
        return rep
    }
    // the runs use long times: what a successful update leaves stays current for the rest of the history
    let mut cfg = case.cfg.clone();
    cfg.refresh = std::time::Duration::from_secs(300);
    cfg.rrdp_fallback_time = std::time::Duration::from_secs(600);
    let collector = rig.collector(&cfg);
    let base = rig.srv.rsync_base();
    let module = format!("rsync://{}/repo/", rig.srv.host);
    let runs = row["runs"].as_array().unwrap();
    let mut nobj = 1u64;
    let mut path = String::new();
    for (k, r) in runs.iter().enumerate() {
        let result = r["result"].as_str().unwrap();
        let before = r["before"].as_str().unwrap();
        let outcome = r["outcome"].as_str().unwrap();
        let expected = r["decision"].as_str().unwrap();
        // how this run's update goes (Fallback.tla, Results)
        nobj += 1;
        let more: Objects = (1..=nobj).map(|i| (format!("{base}o{i}.roa"), Bytes::from(format!("object {i}")))).collect();
        let plan = match (result, before) {
            ("ok", "none") => FaultPlan::default(),
            // on top of a copy: one delta to apply
            ("ok", _) => { rig.srv.publish(more); FaultPlan::default() }
            ("delta_fails", _) => {
                let idx = rig.srv.publish(more);
                FaultPlan { delta: Some((rig.srv.version(idx).serial, FileFault::Http(404))), ..Default::default() }
            }
            // the notification request fails: server errors, client errors, and redirects the client does not follow
            // (the interceptor answers where the HTTP client would hand back the 3xx of a refused redirect)
            ("notify_fails", _) => {
                let statuses = [500u16, 302, 404, 307, 503, 301, 308, 403];
                let pick = statuses[(fnv_str(&row.to_string()) as usize + k) % statuses.len()];
                FaultPlan { notify_status: Some(pick), ..Default::default() }
            }
            // a good notification; the snapshot it needs fails (with a copy: a new session, so that no delta can be tried)
            ("snapshot_fails", "none") => FaultPlan { snapshot: FileFault::Http(404), ..Default::default() },
            ("snapshot_fails", _) => { rig.srv.new_session(1, more); FaultPlan { snapshot: FileFault::Http(404), ..Default::default() } }
            x => panic!("row {x:?}"),
        };
        rig.srv.set_faults(plan.clone());
        rig.bed.take_rsync_log();
        rig.srv.take_log();
        let run = collector.start();
        let repo = run.repository(&case.ca);
        let decision = match repo.as_ref() {
            Ok(Some(r)) if r.is_rrdp() => "rrdp", Ok(Some(_)) => "rsync", Ok(None) => "none", Err(_) => "failed",
        };
        drop(repo);
        drop(run);
        let rsync_log = rig.bed.take_rsync_log();
        let http_log = rig.srv.take_log();
        rig.srv.clear_faults();
        let rsync_asked = rsync_log.iter().any(|l| l.starts_with(&module));
        let rrdp_asked = !http_log.is_empty();
        let local = rig.read_archive();
        let now = chrono::Utc::now().timestamp();
        let observed = json!({"run": k + 1, "decision": decision, "rsync_log": rsync_log,
                              "rrdp_requests": http_log.iter().map(|q| format!("{:?}:{}", q.kind, q.status)).collect::<Vec<_>>(),
                              "local_copy_after": local.as_ref().map(|l| json!({"serial": l.serial, "best_before_minus_now": l.best_before - now}))});
        path = if k == 0 { format!("{before}-{result}") } else { format!("{path}+{result}") };
        let sig = format!("policy-{}/{}/rrdp-{}/rsync-{}/notify-{}", row["policy"].as_str().unwrap(), path,
            if rrdp_on { "on" } else { "off" }, if rsync_on { "on" } else { "off" }, if notify { "yes" } else { "no" });
        rep.eval(C29);
        rep.trace(C29);
        rep.nontrivial(C29, sig.clone());
        if decision != expected {
            rep.violation(C29, &sig, format!("run {}: the copy was {before} and the update {}: documented decision {expected}, Run::repository gives {decision}",
                k + 1, result.replace('_', " ")), row.clone(), observed.clone());
        }
        else if rsync_asked != (expected == "rsync") {
            rep.violation(C29, &format!("{sig}/rsync-log"), format!("run {}: decision {decision} but the rsync module was {}fetched", k + 1, if rsync_asked { "" } else { "not " }),
                row.clone(), observed.clone());
        }
        else if rrdp_asked != (notify && rrdp_on) {
            rep.violation(C29, &format!("{sig}/rrdp-log"), format!("run {}: RRDP requests were {}made although the CA {} RRDP and RRDP is {}", k + 1,
                if rrdp_asked { "" } else { "not " }, if notify { "announces" } else { "does not announce" }, if rrdp_on { "enabled" } else { "disabled" }),
                row.clone(), observed.clone());
        }
        if notify && rrdp_on && outcome != "updated" && k + 1 == runs.len() { rep.sample(C29, json!({"row": row, "observed": observed})); }
        // thorough: after the last run, one more in which two CAs of the same repository are looked up by two threads at once
        if let (Some(ca2), true) = (case.ca2.as_ref(), k + 1 == runs.len()) {
            // the copy is now what this run left: an update that went well has nothing left to do
            let again = match result { "ok" | "delta_fails" => FaultPlan::default(), _ => plan.clone() };
            rig.srv.set_faults(again);
            let run = collector.start();
            let decide = |ca: &Arc<CaCert>| -> &'static str {
                match run.repository(ca) {
                    Ok(Some(r)) if r.is_rrdp() => "rrdp", Ok(Some(_)) => "rsync", Ok(None) => "none", Err(_) => "failed",
                }
            };
            let (d1, d2) = std::thread::scope(|s| {
                let t1 = s.spawn(|| decide(&case.ca));
                let t2 = s.spawn(|| decide(ca2));
                (t1.join().unwrap_or("panic"), t2.join().unwrap_or("panic"))
            });
            drop(run);
            let rsync_log = rig.bed.take_rsync_log();
            let http_log = rig.srv.take_log();
            rig.srv.clear_faults();
            let fetches = rsync_log.iter().filter(|l| l.starts_with(&module)).count();
            let notifies = http_log.iter().filter(|q| matches!(q.kind, ReqKind::Notify)).count();
            let observed = json!({"decisions": [d1, d2], "rsync_fetches": fetches, "notification_requests": notifies});
            rep.eval(C29);
            rep.nontrivial(C29, format!("{sig}/two-cas"));
            if d1 != expected || d2 != expected {
                rep.violation(C29, &format!("{sig}/two-cas"), format!("documented decision {expected}, two CAs of the repository get {d1} and {d2}"),
                    row.clone(), observed);
            }
            else if fetches > 1 || notifies > 1 {
                rep.divergence(C29, format!("row {row}: two CAs of one repository caused {fetches} rsync fetches and {notifies} notification requests"));
            }
        }
    }
    rep
}

//------------ DeltaPlan: nothing / deltas / snapshot ------------------------------

/// Rows of `DeltaPlan.tla`.  Per row: a server with versions 1..5 of one session, a client copy at `local`, then the
/// notification the row describes under the two limits of the row.  Compared with the specification's plan: the requests
/// made after the notification file and the snapshot reason in the metrics (differences are divergences from the model,
/// no property speaks about the plan); C25's own oracle is evaluated on every row as well.
fn plan_main(args: &Args) -> i32 {
    let rows = read_behaviours(args.input.as_deref().expect("--in"));
    let factory = Factory::new();
    let mut rep = Report::new("rrdp");
    rep.touch(C25);
    let limit = args.opt_usize("limit", usize::MAX);
    let mut order: Vec<usize> = (0..rows.len()).collect();
    if limit < rows.len() {
        let mut rng = Rng::new(args.seed);
        rng.shuffle(&mut order);
        order.truncate(limit);
        order.sort();
    }
    let mut differ = 0u64;
    let mut kinds: BTreeMap<String, u64> = BTreeMap::new();
    for idx in order.iter() {
        let row = &rows[*idx];
        let res = catch(std::panic::AssertUnwindSafe(|| plan_row(&factory, row)));
        match res {
            Ok((r, d, kind)) => { rep.absorb(r); differ += d; *kinds.entry(kind).or_default() += 1; }
            Err(msg) => rep.violation(C25, "plan/panic", format!("panic: {msg}"), row.clone(), json!({"panic": msg})),
        }
    }
    rep.note(C25, "plan_rows", json!(order.len()));
    rep.note(C25, "plan_rows_differing_from_DeltaPlan", json!(differ));
    rep.note(C25, "plan_kinds", json!(kinds));
    rep.write(args)
}

fn plan_row(factory: &Factory, row: &Value) -> (Report, u64, String) {
    let mut rep = Report::new("rrdp");
    let rig = Rig::new(factory);
    let base = rig.srv.rsync_base();
    let objs_at = |s: u64, salt: &str| -> Objects {
        let mut o: Objects = (2..=s).map(|i| (format!("{base}o{i}.roa"), Bytes::from(format!("object {i}{salt}")))).collect();
        o.insert(format!("{base}o1.roa"), Bytes::from(format!("first object as of {s}{salt}")));
        o
    };
    const MAX: u64 = 5;
    // no validators: a notification answered with 304 is not planned at all (Rrdp.tla has that step)
    rig.srv.set_validators(false, false);
    for s in 1..=MAX { rig.srv.publish(objs_at(s, "")); }
    let local = row["local"].as_u64().unwrap();
    let notified = row["notified"].as_u64().unwrap();
    let same = row["same"].as_bool().unwrap();
    let plan = &row["plan"];
    let kind = plan["kind"].as_str().unwrap();
    let label = format!("{}{}", kind, if kind == "snapshot" { format!("/{}", plan["reason"].as_str().unwrap()) } else { String::new() });
    // the client copy
    rig.srv.announce(local as usize - 1);
    let prime = rig.collector(&rig.config());
    match client_run(&prime, &rig.ca, &rig.srv, &[]) {
        Ok(o) if o.updated => {}
        _ => { rep.divergence(C25, format!("plan row {row}: the copy at serial {local} could not be produced")); return (rep, 0, label) }
    }
    drop(prime);
    if rig.read_archive().map(|l| l.serial) != Some(local) {
        rep.divergence(C25, format!("plan row {row}: the copy is not at serial {local}")); return (rep, 0, label)
    }
    // the notification of the row
    let expected_objs = if same {
        rig.srv.announce(notified as usize - 1);
        rig.srv.with(|s| s.retain = row["retain"].as_u64().unwrap() as usize);
        let fs = row["fault_serial"].as_u64().unwrap();
        let list = match row["fault"].as_str().unwrap() {
            "none" => ListFault::None, "drop_last" => ListFault::DropLast, "drop_all" => ListFault::DropAll,
            "gap" => ListFault::Gap(fs), "dup" => ListFault::Duplicate(fs), x => panic!("list fault {x}"),
        };
        rig.srv.set_faults(FaultPlan { list, ..Default::default() });
        objs_at(notified, "")
    } else {
        let o = objs_at(notified, " of the new session");
        rig.srv.new_session(notified, o.clone());
        o
    };
    let mut cfg = rig.config();
    cfg.rrdp_max_delta_count = row["maxc"].as_u64().unwrap() as usize;
    cfg.rrdp_max_delta_list_len = row["maxl"].as_u64().unwrap() as usize;
    let collector = rig.collector(&cfg);
    let obs = match client_run(&collector, &rig.ca, &rig.srv, &[]) {
        Ok(o) => o,
        Err(e) => { rep.divergence(C25, format!("plan row {row}: {e}")); return (rep, 0, label) }
    };
    rig.srv.clear_faults();
    let after = rig.read_archive();
    // ---- C25 on this row
    rep.eval(C25);
    rep.trace(C25);
    rep.nontrivial(C25, format!("plan/{}/{}", label, row["fault"].as_str().unwrap()));
    let made: Vec<String> = obs.requests.iter().filter(|q| !matches!(q.kind, ReqKind::Notify)).map(|q| format!("{:?}", q.kind)).collect();
    let observed = json!({"updated": obs.updated, "requests": made, "snapshot_reason": obs.snapshot_reason,
                          "copy_after": after.as_ref().map(|l| json!({"serial": l.serial, "objects": l.objects.len()}))});
    if obs.updated {
        let ok = after.as_ref().map(|l| l.serial == notified && l.objects == expected_objs).unwrap_or(false);
        if !ok {
            rep.violation(C25, &format!("plan/{label}/copy-differs"),
                format!("the update is reported successful, the copy is not the server's state at serial {notified}"), row.clone(), observed.clone());
        }
    }
    // ---- the plan
    let want: Vec<String> = match kind {
        "nothing" => vec![],
        "deltas" => plan["deltas"].as_array().unwrap().iter().map(|s| format!("Delta({})", s.as_u64().unwrap())).collect(),
        _ => vec![format!("Snapshot({notified})")],
    };
    let want_reason = if kind == "snapshot" { Some(plan["reason"].as_str().unwrap().to_string()) } else { None };
    let mut differ = 0;
    if made != want || obs.snapshot_reason != want_reason || !obs.updated {
        differ = 1;
        rep.divergence(C25, format!("plan row {row}: DeltaPlan.tla expects requests {want:?} and reason {want_reason:?}; the collector made {made:?}, reason {:?}, updated {}",
            obs.snapshot_reason, obs.updated));
    }
    if differ == 0 && kind != "nothing" { rep.sample(C25, json!({"plan_row": row, "observed": observed})); }
    (rep, differ, label)
}

//------------ entry point ---------------------------------------------------------

pub fn main(args: &Args) -> i32 {
    match args.opt("mode").unwrap_or("c25") {
        "c25" => c25_main(args),
        "c38" => c38_main(args),
        "c29" => c29_main(args),
        "c38tls" => c38_tls_main(args),
        "plan" => plan_main(args),
        "selftest" => match dbl::self_test() { Ok(()) => { println!("ok"); 0 } Err(e) => { eprintln!("{e}"); 2 } },
        other => { eprintln!("vh rrdp: unknown mode {other}"); 2 }
    }
}
