//! Replay of `Gen_Compose` worlds through the real engine (C09).
//!
//! A world: a multiset of validated payload (ROA prefix entries, router
//! certificates, ASPA objects in CA "A" below TAL 1 and CA "B" below TAL 2),
//! the resources of a rejected sibling CA "R", a SLURM file and the options,
//! plus the documented composition as the expected served set.  The world is
//! realised as a real repository tree (signed objects, two trust anchors,
//! the rejected CA has a listed-but-missing object), the SLURM file is built
//! as JSON and parsed by `LocalExceptions::from_json`, one validation run is
//! made on a fresh cache and the snapshot is compared item by item.
//!
//! Prefixes are bit strings below 10.8.0.0/23 resp. 2001:db8::/47, so that
//! lengths 0 / 1 / 2 are /23 /24 /25 resp. /47 /48 /49 around the configured
//! limits 24 and 48.  Providers 1..3 of a world with `wt = "block"` stand
//! for 5460 ASNs each (3 * 5460 = ProviderAsns::MAX_COUNT).

use std::collections::{BTreeMap, BTreeSet};
use std::sync::{Arc, Mutex};
use serde_json::{json, Value};
use routinator::slurm::LocalExceptions;
use rpki::rtr::pdu::ProviderAsns;
use crate::common::{read_behaviours, Args, Report};
use crate::env::{run_once, Payload, TestBed};
use crate::gen::*;
use super::rpkitree::{policy_of, router_key_str, with_watchdog};

pub const PID: &str = "C09";
const V4_BASE: u32 = 0x0A08_0000;
const V4_BASE_LEN: u8 = 23;
const V6_BASE: u128 = 0x2001_0db8_0000_0000_0000_0000_0000_0000;
const V6_BASE_LEN: u8 = 47;
const LIMIT_V4: u8 = 24;
const LIMIT_V6: u8 = 48;
const BLOCK: u32 = 5460;
const BLOCKS: u32 = 3;

fn bits(v: &Value) -> Vec<u8> {
    v.as_array().map(|a| a.iter().map(|x| x.as_u64().unwrap() as u8).collect()).unwrap_or_default()
}

/// (address, length) of the prefix `p` below the base of family `fam`.
fn prefix(fam: &str, p: &[u8]) -> (String, u8) {
    match fam {
        "v4" => {
            let mut v = V4_BASE;
            for (i, b) in p.iter().enumerate() { if *b == 1 { v |= 1u32 << (31 - (V4_BASE_LEN as usize + i)); } }
            (std::net::Ipv4Addr::from(v).to_string(), V4_BASE_LEN + p.len() as u8)
        }
        "v6" => {
            let mut v = V6_BASE;
            for (i, b) in p.iter().enumerate() { if *b == 1 { v |= 1u128 << (127 - (V6_BASE_LEN as usize + i)); } }
            (std::net::Ipv6Addr::from(v).to_string(), V6_BASE_LEN + p.len() as u8)
        }
        x => panic!("family {x}"),
    }
}

fn base_len(fam: &str) -> u8 { if fam == "v4" { V4_BASE_LEN } else { V6_BASE_LEN } }
fn origin_asn(a: u64) -> u32 { 64500 + a as u32 }
fn customer_asn(c: u64) -> u32 { 64600 + c as u32 }

/// The real provider ASNs behind an abstract provider.
fn providers(block: bool, p: u64) -> Vec<u32> {
    if block && p <= BLOCKS as u64 {
        (0..BLOCK).map(|j| 100_000 + p as u32 * 10_000 + j).collect()
    } else {
        vec![64700 + p as u32]
    }
}

fn provider_set(block: bool, v: &Value) -> Vec<u32> {
    let mut res: Vec<u32> = v.as_array().unwrap().iter().flat_map(|p| providers(block, p.as_u64().unwrap())).collect();
    res.sort();
    res
}

/// "addr/len-maxlen ASn" as `env::payload_of` renders an origin.
fn vrp_str(v: &Value) -> String {
    let fam = v["fam"].as_str().unwrap();
    let (addr, len) = prefix(fam, &bits(&v["p"]));
    let ml = base_len(fam) + v["ml"].as_u64().unwrap() as u8;
    format!("{addr}/{len}-{ml} AS{}", origin_asn(v["asn"].as_u64().unwrap()))
}

fn key_str(k: &Value) -> String {
    router_key_str(origin_asn(k["asn"].as_u64().unwrap()), k["rk"].as_u64().unwrap() as usize - 1)
}

fn aspa_str(block: bool, a: &Value) -> String {
    let provs: Vec<String> = provider_set(block, &a["prov"]).iter().map(|x| format!("AS{x}")).collect();
    format!("AS{} => [{}]", customer_asn(a["cust"].as_u64().unwrap()), provs.join(","))
}

fn short(s: &str) -> String {
    if s.len() > 120 { format!("{}...({} bytes)", &s[..100], s.len()) } else { s.to_string() }
}

/// The repository tree of a world.  The entries of a ROA are encoded in the
/// order given (and processed in that order by `add_roa`): with an even
/// `variant` the longest prefixes come first, otherwise last.
pub fn concretise(b: &Value, variant: u64) -> World {
    let block = b["wt"] == "block";
    let arr = |k: &str| b[k].as_array().unwrap().clone();
    let has = |ca: &str| ["occ", "certs", "aspas"].iter().any(|k| arr(k).iter().any(|o| o["ca"] == ca));
    let mut world = World::default();
    let all_asns = vec![(64000u32, 65000u32)];
    let mut index: BTreeMap<&str, usize> = BTreeMap::new();
    let add_ta = |world: &mut World, n: usize, key: usize| -> usize {
        let host = format!("rsync://r{n}.verif.test/repo/");
        let mut ta = Ca::new(&format!("ta{n}"), None, key, &format!("{host}ta{n}/"));
        ta.prefixes = vec!["0.0.0.0/0".into(), "::/0".into()];
        ta.asns = all_asns.clone();
        ta.serial = 1000 + n as u64;
        let idx = world.cas.len();
        world.tals.push(Tal { name: format!("tal{n}"), ca: idx, uris: vec![(format!("{host}ta{n}.cer"), TaVariant::Good)] });
        world.cas.push(ta);
        idx
    };
    let rej = arr("rej");
    let need_a = has("A") || !rej.is_empty() || !has("B");
    if need_a {
        let ta1 = add_ta(&mut world, 1, 0);
        let mut a = Ca::new("caA", Some(ta1), 2, "rsync://r1.verif.test/repo/caA/");
        a.prefixes = vec![format!("10.8.0.0/{V4_BASE_LEN}"), format!("2001:db8::/{V6_BASE_LEN}")];
        a.asns = all_asns.clone();
        a.serial = 1010;
        index.insert("A", world.cas.len());
        world.cas.push(a);
        if !rej.is_empty() {
            let mut r = Ca::new("caR", Some(ta1), 4, "rsync://r3.verif.test/repo/caR/");
            let mut inside: Option<(String, u8)> = None;
            for x in &rej {
                let fam = x["fam"].as_str().unwrap();
                if x["all"] == true {
                    r.prefixes.push(if fam == "v4" { "0.0.0.0/0".into() } else { "::/0".into() });
                } else {
                    let (addr, len) = prefix(fam, &bits(&x["p"]));
                    r.prefixes.push(format!("{addr}/{len}"));
                    inside.get_or_insert((format!("{addr}/{len}"), len));
                }
            }
            let inside = inside.unwrap_or_else(|| {
                if rej[0]["fam"] == "v4" { ("192.0.2.0/24".into(), 24) } else { ("2001:db8:ffff::/48".into(), 48) }
            });
            r.asns = vec![(64990, 64999)];
            r.serial = 1030;
            // a listed but absent object: the fetch of the point fails, the CA is rejected
            r.objects.push(Obj { name: "lost.roa".into(), kind: ObjKind::Roa { asn: 64999, prefixes: vec![inside] },
                                 serial: 11, validity: (-2, 48), fault: Fault::Missing });
            world.cas.push(r);
        }
    }
    if has("B") {
        let ta2 = add_ta(&mut world, 2, 1);
        let mut bca = Ca::new("caB", Some(ta2), 3, "rsync://r2.verif.test/repo/caB/");
        bca.prefixes = vec![format!("10.8.0.0/{V4_BASE_LEN}"), format!("2001:db8::/{V6_BASE_LEN}")];
        bca.asns = all_asns.clone();
        bca.serial = 1020;
        index.insert("B", world.cas.len());
        world.cas.push(bca);
    }
    // ROAs: the entries of one (ca, roa) make one object
    let mut roas: BTreeMap<(String, u64), (u32, Vec<(String, u8)>)> = BTreeMap::new();
    for o in arr("occ") {
        let fam = o["fam"].as_str().unwrap();
        let (addr, len) = prefix(fam, &bits(&o["p"]));
        let ml = base_len(fam) + o["ml"].as_u64().unwrap() as u8;
        let e = roas.entry((o["ca"].as_str().unwrap().to_string(), o["roa"].as_u64().unwrap()))
            .or_insert((origin_asn(o["asn"].as_u64().unwrap()), Vec::new()));
        assert_eq!(e.0, origin_asn(o["asn"].as_u64().unwrap()), "one ASN per ROA");
        e.1.push((format!("{addr}/{len}"), ml));
    }
    for ((ca, roa), (asn, mut prefixes)) in roas {
        let len_of = |p: &(String, u8)| -> u8 { p.0.rsplit('/').next().unwrap().parse().unwrap() };
        prefixes.sort_by_key(|p| (p.0.contains(':'), len_of(p), p.0.clone(), p.1));
        if variant % 2 == 0 { prefixes.reverse(); }
        world.cas[index[ca.as_str()]].objects.push(Obj {
            name: format!("r{roa}.roa"), kind: ObjKind::Roa { asn, prefixes }, serial: 20 + roa, validity: (-2, 48), fault: Fault::None,
        });
    }
    for (i, c) in arr("certs").iter().enumerate() {
        let asns: Vec<u32> = c["asns"].as_array().unwrap().iter().map(|a| origin_asn(a.as_u64().unwrap())).collect();
        world.cas[index[c["ca"].as_str().unwrap()]].objects.push(Obj {
            name: format!("k{i}.cer"), kind: ObjKind::Router { asns, ec: c["rk"].as_u64().unwrap() as usize - 1 },
            serial: 100 + i as u64, validity: (-2, 48), fault: Fault::None,
        });
    }
    for (i, a) in arr("aspas").iter().enumerate() {
        world.cas[index[a["ca"].as_str().unwrap()]].objects.push(Obj {
            name: format!("a{i}.asa"),
            kind: ObjKind::Aspa { customer: customer_asn(a["cust"].as_u64().unwrap()), providers: provider_set(block, &a["prov"]) },
            serial: 200 + i as u64, validity: (-2, 48), fault: Fault::None,
        });
    }
    world
}

/// The SLURM file of a world (RFC 8416).  `variant` decides whether a max
/// length equal to the prefix length is written out or left implicit.
pub fn slurm_json(b: &Value, variant: u64) -> Value {
    let mut pf = Vec::new();
    for f in b["pf"].as_array().unwrap() {
        let mut m = serde_json::Map::new();
        if f["fam"] != "none" {
            let (addr, len) = prefix(f["fam"].as_str().unwrap(), &bits(&f["p"]));
            m.insert("prefix".into(), json!(format!("{addr}/{len}")));
        }
        if f["asn"].as_u64().unwrap() != 0 { m.insert("asn".into(), json!(origin_asn(f["asn"].as_u64().unwrap()))); }
        m.insert("comment".into(), json!("filter"));
        pf.push(Value::Object(m));
    }
    let mut bf = Vec::new();
    for f in b["bf"].as_array().unwrap() {
        let mut m = serde_json::Map::new();
        if f["asn"].as_u64().unwrap() != 0 { m.insert("asn".into(), json!(origin_asn(f["asn"].as_u64().unwrap()))); }
        if f["ski"].as_u64().unwrap() != 0 {
            let key = ec_key(f["ski"].as_u64().unwrap() as usize - 1);
            m.insert("SKI".into(), json!(rpki::util::base64::Slurm.encode(key.key_identifier().as_slice())));
        }
        bf.push(Value::Object(m));
    }
    let mut pa = Vec::new();
    for (i, x) in b["pa"].as_array().unwrap().iter().enumerate() {
        let fam = x["fam"].as_str().unwrap();
        let (addr, len) = prefix(fam, &bits(&x["p"]));
        let ml = base_len(fam) + x["ml"].as_u64().unwrap() as u8;
        let mut m = serde_json::Map::new();
        m.insert("prefix".into(), json!(format!("{addr}/{len}")));
        m.insert("asn".into(), json!(origin_asn(x["asn"].as_u64().unwrap())));
        if ml != len || (variant + i as u64) % 2 == 0 { m.insert("maxPrefixLength".into(), json!(ml)); }
        pa.push(Value::Object(m));
    }
    let mut ba = Vec::new();
    for x in b["ba"].as_array().unwrap() {
        let key = ec_key(x["rk"].as_u64().unwrap() as usize - 1);
        ba.push(json!({
            "asn": origin_asn(x["asn"].as_u64().unwrap()),
            "SKI": rpki::util::base64::Slurm.encode(key.key_identifier().as_slice()),
            "routerPublicKey": rpki::util::base64::Slurm.encode(key.to_info_bytes().as_ref()),
        }));
    }
    json!({
        "slurmVersion": 1,
        "validationOutputFilters": {"prefixFilters": pf, "bgpsecFilters": bf},
        "locallyAddedAssertions": {"prefixAssertions": pa, "bgpsecAssertions": ba}
    })
}

/// The documented composition of the world, rendered like `env::payload_of`.
pub fn expected(b: &Value) -> Payload {
    let block = b["wt"] == "block";
    let mut p = Payload::default();
    for v in b["exp"]["o"].as_array().unwrap() { p.origins.insert(vrp_str(v)); }
    for k in b["exp"]["k"].as_array().unwrap() { p.keys.insert(key_str(k)); }
    for a in b["exp"]["a"].as_array().unwrap() { p.aspas.insert(aspa_str(block, a)); }
    p.count = p.origins.len() + p.keys.len() + p.aspas.len();
    p
}

pub fn brief(b: &Value) -> Value {
    json!({"cls": b["cls"], "wt": b["wt"], "cfg": b["cfg"], "rej": b["rej"], "pf": b["pf"], "bf": b["bf"],
           "pa": b["pa"], "ba": b["ba"],
           "objects": [b["occ"].as_array().unwrap().len(), b["certs"].as_array().unwrap().len(), b["aspas"].as_array().unwrap().len()]})
}

pub fn main(args: &Args) -> i32 {
    let mut rep = Report::new("compose");
    rep.touch(PID);
    if ProviderAsns::MAX_COUNT != (BLOCK * BLOCKS) as usize {
        eprintln!("vh compose: ProviderAsns::MAX_COUNT = {} is not {} * {}: adjust BlockSize in the specification",
                  ProviderAsns::MAX_COUNT, BLOCKS, BLOCK);
        return 2
    }
    let behaviours = read_behaviours(args.input.as_deref().expect("--in"));
    let factory = Arc::new(Factory::new());
    let total = behaviours.len();
    let limit = args.opt_usize("limit", usize::MAX);
    let mut order: Vec<usize> = (0..total).collect();
    if limit < total {
        let mut rng = crate::common::Rng::new(args.seed);
        rng.shuffle(&mut order);
        order.truncate(limit);
        order.sort();
    }
    let work = Arc::new(Mutex::new(order.into_iter()));
    let behaviours = Arc::new(behaviours);
    let nthreads = args.opt_usize("jobs", 12);
    let reports: Vec<Report> = std::thread::scope(|scope| {
        let handles: Vec<_> = (0..nthreads).map(|_| {
            let work = work.clone();
            let behaviours = behaviours.clone();
            let factory = factory.clone();
            scope.spawn(move || {
                let mut local = Report::new("compose");
                let mut bed = TestBed::new();
                loop {
                    let idx = match work.lock().unwrap().next() { Some(i) => i, None => break };
                    let hung = one(&mut local, &bed, &factory, &behaviours[idx], idx, args);
                    if hung {
                        std::mem::forget(std::mem::replace(&mut bed, TestBed::new()));
                    }
                }
                local
            })
        }).collect();
        handles.into_iter().map(|h| h.join().expect("worker")).collect()
    });
    for r in reports { rep.absorb(r); }
    rep.write(args)
}

fn set_of(v: &Value, f: impl Fn(&Value) -> String) -> BTreeSet<String> {
    v.as_array().unwrap().iter().map(f).collect()
}

fn one(rep: &mut Report, bed: &TestBed, factory: &Arc<Factory>, b: &Value, idx: usize, args: &Args) -> bool {
    let block = b["wt"] == "block";
    let world = concretise(b, idx as u64 + args.seed);
    let published = world.build(factory);
    bed.wipe_cache();
    bed.publish(&published);
    let _ = bed.take_rsync_log();
    let mut cfg = bed.config();
    let c = &b["cfg"];
    cfg.limit_v4_len = if c["l4"] == true { Some(LIMIT_V4) } else { None };
    cfg.limit_v6_len = if c["l6"] == true { Some(LIMIT_V6) } else { None };
    cfg.unsafe_vrps = policy_of(c["unsafe"].as_str().unwrap());
    cfg.enable_bgpsec = c["bgpsec"] == true;
    cfg.enable_aspa = c["aspa"] == true;
    cfg.validation_threads = [1, 2, 4][(idx + args.seed as usize) % 3];
    let slurm = slurm_json(b, idx as u64 + args.seed);
    let ctx = || json!({"world": brief(b), "threads": cfg.validation_threads, "slurm": slurm, "behaviour": b});
    let exceptions = match LocalExceptions::from_json(&slurm.to_string(), idx % 2 == 0) {
        Ok(x) => x,
        Err(e) => {
            // the replayer wrote a file the parser refuses: not a verdict about the code
            eprintln!("vh compose: SLURM file of world {idx} refused: {e}: {slurm}");
            std::process::exit(2);
        }
    };
    let exp = expected(b);

    let cfg2 = cfg.clone();
    let res = with_watchdog(120, move || {
        crate::common::catch(std::panic::AssertUnwindSafe(|| run_once(&cfg2, true, &exceptions)))
    });
    rep.eval(PID);
    rep.trace(PID);
    let real = match res {
        None => {
            rep.violation(PID, "hang", "validation run did not terminate within 120 s", ctx(), json!({}));
            return true
        }
        Some(Err(msg)) => {
            rep.violation(PID, "panic", format!("panic while composing the served set: {msg}"), ctx(), json!({"panic": msg}));
            return false
        }
        Some(Ok(Err(e))) => {
            rep.violation(PID, "run-failed", format!("validation run failed ({e:?}) on a world of valid objects: nothing is served"),
                          ctx(), json!({}));
            return false
        }
        Some(Ok(Ok(r))) => r.payload,
    };

    // non-trivial: the composition is not the identity on this world
    let why = &b["why"];
    let nontrivial = ["limit", "unsafe", "slurm", "kslurm", "large"].iter().any(|k| !why[*k].as_array().unwrap().is_empty())
        || b["dups"].as_u64().unwrap() > 0 || !b["pa"].as_array().unwrap().is_empty() || !b["ba"].as_array().unwrap().is_empty()
        || c["bgpsec"] == false || c["aspa"] == false
        || b["aspas"].as_array().unwrap().len() > b["exp"]["a"].as_array().unwrap().len();
    if nontrivial {
        let mut key = b.clone();
        key.as_object_mut().unwrap().remove("exp");
        key.as_object_mut().unwrap().remove("why");
        rep.nontrivial(PID, key.to_string());
    }

    let observed = || json!({
        "origins": real.origins, "keys": real.keys, "aspas": real.aspas.iter().map(|s| short(s)).collect::<Vec<_>>(), "count": real.count,
        "expected_origins": exp.origins, "expected_keys": exp.keys,
        "expected_aspas": exp.aspas.iter().map(|s| short(s)).collect::<Vec<_>>(), "expected_count": exp.count,
    });
    // An empty SLURM filter object is refused by RFC 8416 3.3 ("MUST contain
    // at least one of"); what it matches is not decided by the statement.
    let undecided = b["undecided"] == true;
    let report = |rep: &mut Report, sig: &str, detail: String| {
        if undecided {
            rep.divergence(PID, format!("{sig}: {detail} (world with an empty SLURM filter object)"));
        } else {
            rep.violation(PID, sig, detail, ctx(), observed());
        }
    };

    // origins
    let limited = set_of(&why["limit"], vrp_str);
    let unsafe_ = set_of(&why["unsafe"], vrp_str);
    let filtered = set_of(&why["slurm"], vrp_str);
    let asserted = set_of(&b["pa"], vrp_str);
    let validated: BTreeSet<String> = set_of(&b["occ"], vrp_str);
    for x in real.origins.difference(&exp.origins) {
        let sig = if limited.contains(x) { "origin-served/over-limit" }
            else if unsafe_.contains(x) && c["unsafe"] == "reject" { "origin-served/unsafe-under-reject" }
            else if filtered.contains(x) { "origin-served/slurm-filtered" }
            else if validated.contains(x) { "origin-served/unexpected" }
            else { "origin-served/invented" };
        report(rep, sig, format!("route origin {x} is served but is not in the documented composition"));
    }
    for x in exp.origins.difference(&real.origins) {
        let sig = if asserted.contains(x) { "origin-missing/slurm-assertion".to_string() }
            else if unsafe_.contains(x) { format!("origin-missing/validated-unsafe-under-{}", c["unsafe"].as_str().unwrap()) }
            else { "origin-missing/validated".to_string() };
        report(rep, &sig, format!("route origin {x} belongs to the documented composition but is not served"));
    }
    // router keys
    let kfiltered = set_of(&why["kslurm"], key_str);
    let kasserted = set_of(&b["ba"], key_str);
    for x in real.keys.difference(&exp.keys) {
        let sig = if c["bgpsec"] == false { "key-served/bgpsec-disabled" }
            else if kfiltered.contains(x) { "key-served/slurm-filtered" }
            else { "key-served/invented" };
        report(rep, sig, format!("router key {x} is served but is not in the documented composition"));
    }
    for x in exp.keys.difference(&real.keys) {
        let sig = if kasserted.contains(x) { "key-missing/slurm-assertion" } else { "key-missing/validated" };
        report(rep, sig, format!("router key {x} belongs to the documented composition but is not served"));
    }
    // ASPAs
    if real.aspas != exp.aspas {
        let customer = |s: &String| s.split(" => ").next().unwrap_or("").to_string();
        let real_c: BTreeMap<String, &String> = real.aspas.iter().map(|s| (customer(s), s)).collect();
        let exp_c: BTreeMap<String, &String> = exp.aspas.iter().map(|s| (customer(s), s)).collect();
        let large: BTreeSet<String> = why["large"].as_array().unwrap().iter()
            .map(|c| format!("AS{}", customer_asn(c.as_u64().unwrap()))).collect();
        for (cu, s) in &real_c {
            match exp_c.get(cu) {
                None => {
                    let sig = if c["aspa"] == false { "aspa-served/aspa-disabled" }
                        else if large.contains(cu) { "aspa-served/too-large" } else { "aspa-served/invented" };
                    report(rep, sig, format!("ASPA {} is served but is not in the documented composition", short(s)));
                }
                Some(e) if e != s => {
                    report(rep, "aspa-providers/not-the-union",
                           format!("ASPA of {cu} has providers {} instead of the union {}", short(s), short(e)));
                }
                _ => {}
            }
        }
        for (cu, s) in &exp_c {
            if !real_c.contains_key(cu) {
                report(rep, "aspa-missing", format!("ASPA {} belongs to the documented composition but is not served", short(s)));
            }
        }
    }
    // each distinct item once
    let distinct = real.origins.len() + real.keys.len() + real.aspas.len();
    if real.count != distinct {
        report(rep, "item-served-twice", format!("the snapshot holds {} items but only {} distinct ones", real.count, distinct));
    }
    if block { rep.add_note(PID, "worlds_with_real_size_aspas", 1); }
    rep.add_note(PID, &format!("worlds_{}", b["cls"].as_str().unwrap()), 1);
    rep.sample(PID, json!({"world": brief(b), "served_origins": real.origins, "expected_origins": exp.origins,
                           "served_keys": real.keys, "served_aspas": real.aspas.iter().map(|s| short(s)).collect::<Vec<_>>()}));
    false
}
