//! Replay of `RunLoop` behaviours (C32, C33, C34).
//!
//! C32: the real command code (`Operation::run`, exactly what main.rs does)
//!      runs in a child process of this binary with hook H5 forcing the
//!      outcome of every validation run (VERIF_OUTCOMES) and logging each run
//!      (VERIF_RUNLOG).  Observed: number of runs, exit status, termination.
//! C33: `Server::process_once` in-process with forced outcomes; served data,
//!      serial, ETag and a pending notify long-poll are compared around every
//!      failed run.
//! C34: `refresh_wait()` after a real run whose data set expires at a chosen time.

use std::collections::BTreeSet;
use std::path::Path;
use std::process::{Command, Stdio};
use std::sync::{mpsc, Arc, Mutex};
use std::time::{Duration, Instant};
use serde_json::{json, Value};
use routinator::config::Config;
use routinator::payload::SharedHistory;
use routinator::verif::Outcome;
use crate::common::{catch, read_behaviours, Args, Report};
use crate::env::server::*;
use crate::env::TestBed;
use crate::gen::*;
use super::history::{concrete, slurm};

/// Where the events recorded by the H4 hooks during the C33 runs go (ndjson for Trace_Serve.tla).
static TRACE_OUT: Mutex<Option<std::fs::File>> = Mutex::new(None);

fn trace_begin() {
    if TRACE_OUT.lock().unwrap().is_some() { routinator::verif::trace_start(); }
}

fn trace_end() {
    use std::io::Write;
    if let Some(f) = TRACE_OUT.lock().unwrap().as_mut() {
        let events = routinator::verif::trace_take();
        let _ = writeln!(f, "{{\"ev\":\"Reset\",\"seq\":0,\"t\":\"\"}}");
        for e in &events { let _ = writeln!(f, "{e}"); }
    }
}

fn cli_child(argv_file: &str) -> i32 {
    let argv: Vec<String> = match std::fs::read_to_string(argv_file).ok().and_then(|t| serde_json::from_str(&t).ok()) {
        Some(a) => a,
        None => { eprintln!("vh runloop child: cannot read {argv_file}"); return 90 }
    };
    let res = catch(std::panic::AssertUnwindSafe(|| -> Result<(), i32> {
        routinator::Operation::prepare().map_err(|_| 91)?;
        let cur = std::env::current_dir().map_err(|_| 92)?;
        let app = routinator::Operation::config_args(Config::config_args(clap::Command::new("routinator")));
        let matches = app.try_get_matches_from(argv.iter()).map_err(|e| { eprintln!("clap: {e}"); 93 })?;
        let mut config = Config::from_arg_matches(&matches, &cur).map_err(|_| 94)?;
        let op = routinator::Operation::from_arg_matches(&matches, &cur, &mut config).map_err(|_| 95)?;
        // the exit codes of main.rs
        op.run(config).map_err(|e| match e {
            routinator::ExitError::Generic => 1,
            routinator::ExitError::IncompleteUpdate => 2,
            routinator::ExitError::Invalid => 3,
        })
    }));
    match res {
        Ok(Ok(())) => 0,
        Ok(Err(code)) => code,
        Err(msg) => { eprintln!("panic: {msg}"); 70 }
    }
}

fn runlog_lines(path: &Path) -> usize {
    std::fs::read_to_string(path).map(|s| s.lines().count()).unwrap_or(0)
}

struct LoopResult { runs: usize, status: Option<i32>, alive_at_end: bool, timed_out: bool }

fn run_command(cmd: &str, outs: &[String], expect_runs: usize, sanitize_fails: bool) -> LoopResult {
    let dir = tempfile::Builder::new().prefix("vh-loop-").tempdir().expect("tempdir");
    let cache = dir.path().join("cache");
    let tals = dir.path().join("tals");
    std::fs::create_dir_all(&cache).unwrap();
    std::fs::create_dir_all(&tals).unwrap();
    let runlog = dir.path().join("runs.log");
    let mut argv: Vec<String> = vec![
        "routinator".into(), "--repository-dir".into(), cache.to_string_lossy().into(),
        "--no-rir-tals".into(), "--extra-tals-dir".into(), tals.to_string_lossy().into(),
        "--disable-rsync".into(), "--disable-rrdp".into(), "-qq".into(),
    ];
    match cmd {
        "vrps" => argv.extend(["vrps".into(), "-o".into(), dir.path().join("out.csv").to_string_lossy().into()]),
        "validate" => argv.extend(["validate".into(), "--asn".into(), "64500".into(), "--prefix".into(), "10.0.0.0/8".into()]),
        "update" => argv.push("update".into()),
        "server" => argv.extend(["server".into(), "--refresh".into(), "1".into()]),
        x => panic!("command {x}"),
    }
    let argv_file = dir.path().join("argv.json");
    std::fs::write(&argv_file, serde_json::to_string(&argv).unwrap()).unwrap();
    let mut outcomes: Vec<String> = outs.to_vec();
    if cmd == "server" { outcomes.push("ok".into()); }
    let exe = std::env::current_exe().unwrap();
    let mut command = Command::new(exe);
    command.arg("runloop").arg("--opt").arg(format!("child={}", argv_file.display()))
        .env("VERIF_OUTCOMES", outcomes.join(","))
        .env("VERIF_RUNLOG", &runlog)
        .current_dir(dir.path())
        .stdout(Stdio::null()).stderr(Stdio::null());
    // the clean-up before a retried run (Engine::sanitize) fails throughout this behaviour
    if sanitize_fails { command.env("VERIF_SANITIZE_FAIL", "1"); } else { command.env_remove("VERIF_SANITIZE_FAIL"); }
    let mut child = command.spawn().expect("spawn child");
    let t0 = Instant::now();
    let limit = Duration::from_secs(60);
    let mut res = LoopResult { runs: 0, status: None, alive_at_end: false, timed_out: false };
    let mut reached: Option<Instant> = None;
    loop {
        if let Ok(Some(st)) = child.try_wait() {
            res.status = Some(st.code().unwrap_or(-1));
            break
        }
        let n = runlog_lines(&runlog);
        if cmd == "server" && n >= expect_runs.max(outs.len()) {
            // all listed outcomes consumed: give it a moment to exit if it is going to
            let since = *reached.get_or_insert_with(Instant::now);
            if since.elapsed() > Duration::from_millis(700) {
                res.alive_at_end = true;
                let _ = child.kill();
                let _ = child.wait();
                break
            }
        }
        if t0.elapsed() > limit {
            res.timed_out = true;
            let _ = child.kill();
            let _ = child.wait();
            break
        }
        std::thread::sleep(Duration::from_millis(15));
    }
    res.runs = runlog_lines(&runlog);
    res
}

/// ServerSignals.tla against a real `routinator server` child (forced run outcomes, refresh 3 s):
/// SIGUSR2 two seconds into the wait must not move the next run (it comes 3 s after the last one, not 5 s),
/// SIGUSR1 must start a run at once.  Not one of the listed properties: mismatches are divergences.
fn signals_probe(rep: &mut Report) {
    use nix::sys::signal::{kill, Signal};
    use nix::unistd::Pid;
    let dir = tempfile::Builder::new().prefix("vh-sig-").tempdir().expect("tempdir");
    let cache = dir.path().join("cache");
    let tals = dir.path().join("tals");
    std::fs::create_dir_all(&cache).unwrap();
    std::fs::create_dir_all(&tals).unwrap();
    let runlog = dir.path().join("runs.log");
    let argv: Vec<String> = vec![
        "routinator".into(), "--repository-dir".into(), cache.to_string_lossy().into(),
        "--no-rir-tals".into(), "--extra-tals-dir".into(), tals.to_string_lossy().into(),
        "--disable-rsync".into(), "--disable-rrdp".into(), "-qq".into(),
        "server".into(), "--refresh".into(), "3".into(),
    ];
    let argv_file = dir.path().join("argv.json");
    std::fs::write(&argv_file, serde_json::to_string(&argv).unwrap()).unwrap();
    let exe = std::env::current_exe().unwrap();
    let mut child = match Command::new(exe).arg("runloop").arg("--opt").arg(format!("child={}", argv_file.display()))
        .env("VERIF_OUTCOMES", "ok").env("VERIF_RUNLOG", &runlog).current_dir(dir.path())
        .stdout(Stdio::null()).stderr(Stdio::null()).spawn() { Ok(c) => c, Err(_) => return };
    let pid = Pid::from_raw(child.id() as i32);
    // waits until the run log has n lines; returns the time that took
    let wait_runs = |n: usize, limit: Duration| -> Option<Duration> {
        let t = Instant::now();
        while t.elapsed() < limit {
            if runlog_lines(&runlog) >= n { return Some(t.elapsed()) }
            std::thread::sleep(Duration::from_millis(10));
        }
        None
    };
    let mut notes = serde_json::Map::new();
    let res: Result<(), String> = (|| {
        wait_runs(2, Duration::from_secs(20)).ok_or("the server did not complete its first two runs")?;
        let t_last = Instant::now();                       // run 2 (the first regular one) has just started; it takes no time
        std::thread::sleep(Duration::from_millis(2000));
        kill(pid, Signal::SIGUSR2).map_err(|e| e.to_string())?;
        wait_runs(3, Duration::from_secs(8)).ok_or("no third run within 8 s")?;
        let gap = t_last.elapsed().as_millis() as i64;
        notes.insert("usr2_run_gap_ms".into(), json!(gap));
        if !(2400..=4200).contains(&gap) {
            return Err(format!("SIGUSR2 two seconds into a 3 s wait: the next run came {gap} ms after the previous one (expected about 3000)"))
        }
        std::thread::sleep(Duration::from_millis(500));
        kill(pid, Signal::SIGUSR1).map_err(|e| e.to_string())?;
        let took = wait_runs(4, Duration::from_millis(1500)).ok_or("SIGUSR1 half a second into a 3 s wait: no run within 1.5 s")?;
        notes.insert("usr1_run_after_ms".into(), json!(took.as_millis() as i64));
        // several SIGUSR1 at once: at least one, at most as many runs, all at once
        for _ in 0..3 { kill(pid, Signal::SIGUSR1).map_err(|e| e.to_string())?; }
        wait_runs(5, Duration::from_millis(1500)).ok_or("three SIGUSR1: no run within 1.5 s")?;
        std::thread::sleep(Duration::from_millis(600));
        let extra = runlog_lines(&runlog) - 4;
        notes.insert("runs_after_three_usr1".into(), json!(extra));
        if extra > 3 { return Err(format!("three SIGUSR1 started {extra} runs")) }
        Ok(())
    })();
    let alive = matches!(child.try_wait(), Ok(None));
    let _ = child.kill();
    let _ = child.wait();
    rep.note("C32", "server_signals", json!(notes));
    match res {
        Ok(()) if alive => rep.add_note("C32", "server_signal_probes_conforming", 1),
        Ok(()) => rep.divergence("C32", "ServerSignals: the server exited during the signal probe"),
        Err(e) => rep.divergence("C32", format!("ServerSignals: {e}")),
    }
}

pub fn main(args: &Args) -> i32 {
    if let Some(file) = args.opt("child") {
        return cli_child(file)
    }
    let behaviours = read_behaviours(args.input.as_deref().expect("--in"));
    let mut rep = Report::new("runloop");
    for p in ["C32", "C33", "C34"] { rep.touch(p); }

    // ---------------- C32
    if args.wants("C32") {
        let mut seen = BTreeSet::new();
        let mut jobs: Vec<(String, Vec<String>, usize, String, bool)> = Vec::new();
        for b in &behaviours {
            if b["kind"] != "loop" { continue }
            let cmd = b["cmd"].as_str().unwrap().to_string();
            let runs = b["runs"].as_u64().unwrap() as usize;
            let outs: Vec<String> = b["outs"].as_array().unwrap().iter().take(runs).map(|x| x.as_str().unwrap().to_string()).collect();
            let exit = b["exit"].as_str().unwrap().to_string();
            let san = b["san_fails"].as_bool().unwrap_or(false);
            if seen.insert((cmd.clone(), outs.clone(), san)) {
                jobs.push((cmd, outs, runs, exit, san));
            }
        }
        let queue = Arc::new(Mutex::new(jobs.into_iter()));
        let (tx, rx) = mpsc::channel();
        let nthreads = args.opt_usize("jobs", 10);
        std::thread::scope(|scope| {
            for _ in 0..nthreads {
                let queue = queue.clone();
                let tx = tx.clone();
                scope.spawn(move || loop {
                    let job = match queue.lock().unwrap().next() { Some(j) => j, None => break };
                    let r = run_command(&job.0, &job.1, job.2, job.4);
                    let _ = tx.send((job, r));
                });
            }
            drop(tx);
        });
        for ((cmd, outs, runs, exit, san), r) in rx.iter() {
            rep.eval("C32"); rep.trace("C32");
            let b = json!({"cmd": cmd, "outcomes": outs, "expected_runs": runs, "expected_exit": exit, "sanitize_fails": san});
            let observed = json!({"runs": r.runs, "status": r.status, "alive_at_end": r.alive_at_end, "timed_out": r.timed_out});
            let retry_failures = outs.iter().filter(|o| *o == "retry").count();
            if retry_failures >= 1 { rep.nontrivial("C32", format!("{cmd}:{:?}:{san}", outs)); }
            if outs.len() >= 2 { rep.sample("C32", json!({"behaviour": b, "observed": observed})); }
            if r.status == Some(97) || r.runs >= 50 {
                rep.violation("C32", &format!("{cmd}/loops-forever"),
                    format!("'{cmd}' keeps re-running validation (>= 50 runs) when every run fails with a retryable error"), b, observed);
                continue
            }
            if r.timed_out {
                rep.violation("C32", &format!("{cmd}/hangs"), format!("'{cmd}' did not terminate within 60 s"), b, observed);
                continue
            }
            if let Some(code) = r.status { if code >= 70 {
                rep.divergence("C32", format!("child could not run the command (code {code}): {b}"));
                rep.add_note("C32", "child_errors", 1);
                continue
            } }
            if cmd != "server" {
                let limit = if cmd == "vrps" { 2 } else { 1 };
                if r.runs > limit {
                    rep.violation("C32", &format!("{cmd}/too-many-runs"),
                        format!("'{cmd}' started {} validation runs (at most {limit} allowed)", r.runs), b.clone(), observed.clone());
                }
                let last_failed = outs.last().map(|o| o != "ok").unwrap_or(false);
                if last_failed && r.status == Some(0) {
                    rep.violation("C32", &format!("{cmd}/success-status-after-failure"),
                        format!("'{cmd}' exited with status 0 although its last run failed"), b.clone(), observed.clone());
                }
                if !last_failed && r.status != Some(0) {
                    rep.divergence("C32", format!("'{cmd}' exited with {:?} after a successful run: {b}", r.status));
                }
            }
            else {
                // server: after the initial run at most one retry, then shutdown
                let later_retry = outs.iter().skip(1).filter(|o| *o == "retry").count();
                let fatal = outs.iter().any(|o| o == "fatal");
                if (later_retry >= 2 || fatal) && r.alive_at_end && r.runs > outs.len() {
                    rep.violation("C32", "server/keeps-running",
                        "the server kept running validation after a fatal failure or a second retryable failure", b.clone(), observed.clone());
                }
                if later_retry >= 2 && r.status.is_none() && !r.alive_at_end {
                    rep.divergence("C32", format!("server state unclear: {b} {observed}"));
                }
            }
            // model conformance
            let model_alive = exit == "running";
            if cmd == "server" && model_alive != r.alive_at_end {
                rep.divergence("C32", format!("model says the server is {} after {:?}, observed {observed}", exit, outs));
                rep.add_note("C32", "model_mismatches", 1);
            }
            if r.runs != runs && !(cmd == "server" && model_alive) {
                rep.divergence("C32", format!("model expects {runs} runs for {cmd} {:?}, observed {}", outs, r.runs));
                rep.add_note("C32", "model_mismatches", 1);
            }
        }
    }

    if args.wants("C32") { signals_probe(&mut rep); }

    // ---------------- C33
    if args.wants("C33") {
        if let Some(path) = args.opt("trace") {
            *TRACE_OUT.lock().unwrap() = Some(std::fs::File::create(path).expect("trace file"));
        }
        let mut seqs: BTreeSet<Vec<String>> = BTreeSet::new();
        for b in &behaviours {
            if b["kind"] != "loop" { continue }
            let outs: Vec<String> = b["outs"].as_array().unwrap().iter().map(|x| x.as_str().unwrap().to_string()).collect();
            if outs.iter().any(|o| o != "ok") { seqs.insert(outs); }
        }
        for outs in seqs {
            c33_one(&mut rep, &outs);
        }
        // failures that arise inside the run, from the world rather than from the hook
        let factory = Factory::new();
        for kind in ["fatal-in-process", "retry-in-process", "fatal-in-process/late", "fatal-storing-ta", "retry-in-regular-run"] {
            c33_world(&mut rep, &factory, kind);
        }
    }

    // ---------------- C34
    if args.wants("C34") {
        let factory = Factory::new();
        for b in &behaviours {
            if b["kind"] != "wait" { continue }
            c34_one(&mut rep, &factory, b);
        }
    }
    rep.write(args)
}

fn observe(fx_port: u16, rtr_port: u16, history: &SharedHistory) -> Value {
    let (serial, session, active) = { let r = history.read(); (u32::from(r.serial()), r.session(), r.is_active()) };
    let http = http_get(fx_port, "/json", &[]).ok();
    let rtr = rtr_query(rtr_port, None, Duration::from_secs(5));
    json!({
        "serial": serial, "session": session, "active": active,
        "http_status": http.as_ref().map(|r| r.status),
        "etag": http.as_ref().and_then(|r| r.header("etag").map(String::from)),
        "body_hash": http.as_ref().map(|r| crate::gen::hexs(&rpki::crypto::DigestAlgorithm::default().digest(&strip_generated(&r.body)).as_ref()[..8])),
        "rtr_kind": rtr.kind, "rtr_serial": rtr.serial, "rtr_items": format!("{:?}", rtr.items),
    })
}

/// The JSON output carries generation metadata (times); compare the roas only.
fn strip_generated(body: &[u8]) -> Vec<u8> {
    match serde_json::from_slice::<Value>(body) {
        Ok(v) => serde_json::to_vec(&v["roas"]).unwrap_or_default(),
        Err(_) => body.to_vec(),
    }
}

fn c33_one(rep: &mut Report, outs: &[String]) {
    let mut fx = Fixture::start(|c| { c.history_size = 10; });
    trace_begin();
    let port = fx.http_port;
    let rtr_port = fx.rtr_port;
    let history = fx.history.clone();
    let b = json!({"outcomes": outs});
    // a first successful run so that something is served
    routinator::verif::set_outcomes(None);
    let _ = fx.process_once(&slurm(&concrete(1)), true);
    let mut d = 1;
    let forced: Vec<Outcome> = outs.iter().map(|o| match o.as_str() { "retry" => Outcome::Retry, "fatal" => Outcome::Fatal, _ => Outcome::Ok }).collect();
    routinator::verif::set_outcomes(Some(forced));
    rep.nontrivial("C33", format!("{:?}", outs));
    for (i, o) in outs.iter().enumerate() {
        let before = observe(port, rtr_port, &history);
        // a long-poll for the current version must stay pending over a failed run
        let (ntx, nrx) = mpsc::channel();
        let path = format!("/json-delta/notify?session={}&serial={}", before["session"], before["serial"]);
        std::thread::spawn(move || { let _ = ntx.send(http_request(port, "GET", &path, &[], None, Duration::from_secs(20)).map(|r| r.status)); });
        std::thread::sleep(Duration::from_millis(40));
        d = 3 - d;   // the data set a successful run would install differs from the current one
        let res = fx.process_once(&slurm(&concrete(d)), false);
        rep.eval("C33");
        let after = observe(port, rtr_port, &history);
        if o != "ok" {
            d = 3 - d;
            if res.is_ok() {
                rep.divergence("C33", format!("forced outcome {o} but process_once succeeded"));
            }
            if before != after {
                rep.violation("C33", &format!("failed-run-changed-served-data/{o}"),
                    format!("a run failing with '{o}' changed what is served"), json!({"outcomes": outs, "step": i}),
                    json!({"before": before, "after": after}));
            }
            if let Ok(st) = nrx.recv_timeout(Duration::from_millis(250)) {
                rep.violation("C33", &format!("failed-run-notified/{o}"),
                    "a failed run woke up a pending notify request", json!({"outcomes": outs, "step": i}), json!({"status": format!("{:?}", st)}));
            }
        }
        else if before["serial"] == after["serial"] {
            rep.divergence("C33", "successful run with different data did not change the serial");
        }
    }
    routinator::verif::set_outcomes(None);
    // unblock pending long-polls
    let _ = fx.process_once(&slurm(&concrete(3 - d)), false);
    trace_end();
    rep.trace("C33");
    rep.sample("C33", b);
}

/// C33 with failures that arise in the middle of a run: a server on a real
/// repository (TA with two CAs, rsync served in-process).  After a successful
/// run the store is damaged so that the next run fails after part of the tree
/// has already been validated:
///   fatal-in-process   the stored point of ca3 is truncated: reading it is a fatal error
///   retry-in-process   the stored point of ca3 is removed and the run is an initial
///                      (quick, no update) one: "encountered new publication point", retry
///   .../late           as fatal-in-process, with one validation thread so that ca2 has been
///                      processed completely when ca3 fails
///   fatal-storing-ta   the directory for the stored trust anchor certificate has become a file:
///                      storing the freshly downloaded certificate is a fatal I/O error
fn c33_world(rep: &mut Report, factory: &Factory, kind: &str) {
    use super::storecrash::{find_files, world};
    let bed = TestBed::new();
    // retry-in-regular-run: ca3 announces an RRDP repository (which answers 404, so rsync is used); later its local
    // RRDP archive turns out corrupt (it opens, but holds no state), which is a retryable failure of a regular run
    let rrdp = kind == "retry-in-regular-run";
    let notify = "https://r3.verif.test/rrdp/notify.xml";
    let world_v = |v: u64| { let mut w = world(v, false); if rrdp { w.cas[2].notify = Some(notify.to_string()); } w };
    if rrdp {
        routinator::verif::set_http_override(Some(Arc::new(|_: &str, _: Option<&[u8]>, _: Option<i64>| {
            routinator::verif::HttpReply { status: 404, headers: vec![], body: b"not found".to_vec() }
        })));
    }
    bed.publish(&world_v(1).build(factory));
    let bc = bed.config();
    let threads = if kind.ends_with("/late") { 1 } else { 3 };
    let mut fx = Fixture::start(|c| {
        c.cache_dir = bc.cache_dir.clone();
        c.extra_tals_dir = bc.extra_tals_dir.clone();
        c.disable_rsync = false;
        c.rsync_command = bc.rsync_command.clone();
        c.rsync_args = bc.rsync_args.clone();
        c.rsync_timeout = bc.rsync_timeout;
        c.validation_threads = threads;
        c.history_size = 10;
        c.disable_rrdp = !rrdp;
    });
    let mut engine = match routinator::engine::Engine::new(&fx.config, true) { Ok(e) => e, Err(_) => { rep.divergence("C33", "Engine::new failed"); return } };
    if engine.ignite().is_err() { rep.divergence("C33", "engine ignite failed"); return }
    fx.engine = engine;
    trace_begin();
    let port = fx.http_port;
    let rtr_port = fx.rtr_port;
    let history = fx.history.clone();
    let none = routinator::slurm::LocalExceptions::empty();
    routinator::verif::set_outcomes(None);
    if fx.process_once(&none, false).is_err() {
        rep.divergence("C33", format!("{kind}: the first run on the intact repository failed"));
        return
    }
    let before = observe(port, rtr_port, &history);
    if !before["rtr_items"].as_str().unwrap_or("").contains("64503") {
        rep.divergence("C33", format!("{kind}: the first run does not serve ca3's payload: {}", before["rtr_items"]));
        return
    }
    // new data is waiting, and the store is damaged
    bed.publish_files(&world_v(2).build(factory));
    let mut files = Vec::new();
    find_files(&bed.cache.join("stored"), "ca3.mft", &mut files);
    if files.len() != 1 { rep.divergence("C33", format!("{kind}: stored point of ca3 not found ({})", files.len())); return }
    let initial = kind == "retry-in-process";
    if initial { let _ = std::fs::remove_file(&files[0]); }
    else if rrdp {
        use routinator::collector::SnapshotRrdpArchive;
        let dir = bed.cache.join("rrdp").join("r3.verif.test");
        let _ = std::fs::create_dir_all(&dir);
        let path = dir.join(format!("{}.bin", crate::env::rrdp::hex(&crate::env::rrdp::sha256(notify.as_bytes()))));
        let made = std::fs::OpenOptions::new().read(true).write(true).create(true).truncate(true).open(&path).ok().and_then(|file| {
            let mut a = SnapshotRrdpArchive::create_with_file(file, Arc::new(path.clone())).ok()?;
            a.publish_object(&rpki::uri::Rsync::from_string("rsync://r3.verif.test/repo/x.roa".into()).ok()?, b"an object").ok()?;
            a.finalize().ok()
        });
        if made.is_none() { rep.divergence("C33", format!("{kind}: cannot plant the archive")); return }
    }
    else if kind == "fatal-storing-ta" {
        // the directory the downloaded trust anchor certificate is stored in is a file now: storing it is a fatal I/O error
        let ta_dir = bed.cache.join("stored").join("ta").join("rsync").join("r1.verif.test");
        if !ta_dir.is_dir() { rep.divergence("C33", format!("{kind}: {} is not a directory", ta_dir.display())); return }
        let _ = std::fs::remove_dir_all(&ta_dir);
        let _ = std::fs::write(&ta_dir, b"not a directory");
    }
    else {
        let data = std::fs::read(&files[0]).unwrap_or_default();
        let _ = std::fs::write(&files[0], &data[..data.len().min(300)]);
    }
    let (ntx, nrx) = mpsc::channel();
    let path = format!("/json-delta/notify?session={}&serial={}", before["session"], before["serial"]);
    std::thread::spawn(move || { let _ = ntx.send(http_request(port, "GET", &path, &[], None, Duration::from_secs(20)).map(|r| r.status)); });
    std::thread::sleep(Duration::from_millis(40));
    let res = fx.process_once(&none, initial);
    rep.eval("C33");
    rep.nontrivial("C33", format!("world/{kind}"));
    let after = observe(port, rtr_port, &history);
    let ctx = json!({"world": "TA + ca2 + ca3 (two ROAs each), version 1 served, version 2 published", "failure": kind});
    match res {
        Ok(()) => {
            // the run did not fail: then it is not a failed run, but it hit an error it should have failed on
            if before != after {
                rep.violation("C33", &format!("run-with-error-published/{kind}"),
                    format!("the run hit the failure '{kind}' inside the validation, reported success and changed what is served"),
                    ctx.clone(), json!({"before": before, "after": after}));
            }
            else {
                rep.divergence("C33", format!("{kind}: the run did not fail"));
            }
        }
        Err(fatal) => {
            if fatal == (initial || rrdp) { rep.divergence("C33", format!("{kind}: failure class fatal={fatal} unexpected")); }
            if before != after {
                rep.violation("C33", &format!("failed-run-changed-served-data/world/{kind}"),
                    format!("a run failing inside the validation ('{kind}') changed what is served"), ctx.clone(),
                    json!({"before": before, "after": after}));
            }
        }
    }
    if let Ok(st) = nrx.recv_timeout(Duration::from_millis(250)) {
        rep.violation("C33", &format!("failed-run-notified/world/{kind}"),
            "a run that failed inside the validation woke up a pending notify request", ctx, json!({"status": format!("{:?}", st)}));
    }
    // unblock the long-poll: repair the store and run again
    let _ = std::fs::remove_file(&files[0]);
    let _ = std::fs::remove_file(bed.cache.join("stored").join("ta").join("rsync").join("r1.verif.test"));
    let _ = fx.process_once(&none, false);
    trace_end();
    if rrdp { routinator::verif::set_http_override(None); }
    rep.trace("C33");
}

fn c34_one(rep: &mut Report, factory: &Factory, b: &Value) {
    const UNIT: i64 = 100;
    let refresh = b["refresh"].as_i64().unwrap();
    let min = b["min"].as_i64().unwrap();
    let expiry = b["expiry"].as_i64().unwrap();
    let model_wait = b["wait"].as_i64().unwrap() * UNIT;
    let prev = b["prev"].as_i64().unwrap_or(-1);
    let bed = TestBed::new();
    let drift = chrono::Utc::now().timestamp() - factory.now.timestamp();
    // the same payload in every version; the manifest (number, nextUpdate) differs
    let world_with = |exp: i64, number: u64| {
        let mut ta = Ca::new("ca1", None, 0, "rsync://r1.verif.test/repo/ca1/");
        ta.prefixes = vec!["10.0.0.0/8".into()];
        ta.asns = vec![(64000, 65000)];
        ta.mft.number = number;
        ta.mft.this_update = -3 + number as i64;
        ta.mft_serial = 100 + number;
        if exp != 0 {
            ta.mft.next_update_secs = drift + exp * UNIT;
        }
        ta.objects.push(Obj { name: "o1.roa".into(), kind: ObjKind::Roa { asn: 64501, prefixes: vec![("10.1.0.0/16".into(), 16)] },
            serial: 11, validity: (-2, 48), fault: Fault::None });
        World { tals: vec![Tal { name: "tal1".into(), ca: 0, uris: vec![("rsync://r1.verif.test/repo/ta1.cer".into(), TaVariant::Good)] }], cas: vec![ta] }
    };
    let mut cfg = bed.config();
    // an expiry in the past: the manifest is stale when the run sees it, and stale objects are accepted
    if expiry < 0 { cfg.stale = routinator::config::FilterPolicy::Accept; }
    cfg.refresh = Duration::from_secs((refresh * UNIT) as u64);
    cfg.min_refresh = if min == 0 { None } else { Some(Duration::from_secs((min * UNIT) as u64)) };
    let history = SharedHistory::from_config(&cfg);
    let mut versions: Vec<(i64, u64)> = Vec::new();
    if prev >= 0 { versions.push((prev, 1)); }
    versions.push((expiry, 2));
    // the engine reads the TALs when it is created
    bed.publish(&world_with(versions[0].0, versions[0].1).build(factory));
    let mut engine = match routinator::engine::Engine::new(&cfg, true) { Ok(e) => e, Err(_) => { rep.divergence("C34", "engine"); return } };
    let _ = engine.ignite();
    for (exp, number) in versions {
        bed.publish(&world_with(exp, number).build(factory));
        history.mark_update_start();
        let (report, metrics) = match routinator::payload::ValidationReport::process(&engine, &cfg, false) {
            Ok(x) => x, Err(_) => { rep.divergence("C34", "run failed"); return }
        };
        history.update(report, &routinator::slurm::LocalExceptions::empty(), metrics);
        history.mark_update_done();
    }
    let wait = history.read().refresh_wait().as_secs() as i64;
    let has_payload = history.read().current().map(|s| s.origins().count()).unwrap_or(0);
    rep.eval("C34"); rep.trace("C34");
    let ctx = json!({"refresh_s": refresh * UNIT, "min_refresh_s": if min == 0 { Value::Null } else { json!(min * UNIT) },
                     "data_expires_in_s": if expiry == 0 { Value::Null } else { json!(expiry * UNIT) },
                     "stale": if expiry < 0 { "accept (the manifest's nextUpdate has passed)" } else { "default" },
                     "earlier_run_same_payload_expiring_in_s": if prev < 0 { json!("none") } else if prev == 0 { Value::Null } else { json!(prev * UNIT) }});
    let observed = json!({"wait_s": wait, "model_wait_s": model_wait, "origins": has_payload});
    if has_payload == 0 { rep.divergence("C34", "world produced no payload"); return }
    if expiry != 0 && expiry < refresh && min != 0 { rep.nontrivial("C34", format!("{refresh}/{min}/{expiry}/{prev}")); }
    if min != 0 && min != refresh { rep.nontrivial("C34", format!("{refresh}/{min}/{expiry}/{prev}")); }
    let tol = 10;
    let lower = if min == 0 { refresh } else { min } * UNIT;
    let upper = refresh.max(min) * UNIT;
    if wait < lower - tol {
        rep.violation("C34", "wait-below-minimum", format!("next run scheduled in {wait} s, below the minimum of {lower} s"), ctx.clone(), observed.clone());
    }
    if wait > upper + tol {
        rep.violation("C34", "wait-above-maximum", format!("next run scheduled in {wait} s, above the maximum of {upper} s"), ctx.clone(), observed.clone());
    }
    if min != 0 && expiry != 0 && expiry < refresh {
        let want = expiry.max(min) * UNIT;
        if (wait - want).abs() > tol {
            rep.violation("C34", if expiry < 0 { "expired-data-not-honoured" } else { "expiry-not-honoured" },
                format!("data expires in {} s, min-refresh {} s: next run expected in ~{want} s, scheduled in {wait} s", expiry * UNIT, min * UNIT),
                ctx.clone(), observed.clone());
        }
    }
    if (wait - model_wait).abs() > tol {
        rep.divergence("C34", format!("wait {wait} s differs from the model's {model_wait} s for {ctx}"));
        rep.add_note("C34", "model_mismatches", 1);
    }
    rep.sample("C34", json!({"case": ctx, "observed": observed}));
}
