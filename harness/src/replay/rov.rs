//! Replay of `Gen_Rov` behaviours against `routinator::validity` (property C20).
//!
//! A behaviour is one data set (VRPs over abstract bit-string prefixes) with
//! every route query and the RFC 6811 answer the specification expects.  The
//! bit strings are appended to concrete base prefixes (several bases per
//! family, including /0 and the host-length end of the family), the data set
//! is installed in a real `PayloadSnapshot`, and every query is answered by
//! the real code through
//!   api    `RouteValidity::new` + `state/reason/matched/bad_asn/bad_len`
//!   json   `RouteValidity::write_json` parsed with serde_json (sampled)
//!   batch  `RequestList::{from_json_reader,from_plain_reader,single}` +
//!          `RequestList::validity` + `write_json` / `write_plain` /
//!          `iter_state` -- what `routinator validate` composes (sampled)
//!   http   real `http_listener` on loopback: `GET /api/v1/validity/AS/prefix`,
//!          `GET /validity?asn=&prefix=`, `POST /validity` (sampled)
//!   cli    `routinator validate` as main.rs runs it (clap matches -> `Config`
//!          -> `Operation::run`) in a child process of this binary, with an
//!          empty TAL directory and the data set as a SLURM exceptions file,
//!          requests from a JSON file / a plain file / --prefix --asn (sampled)
//!
//! The oracle is the statement of C20, evaluated on the *concrete* values by
//! this file's own arithmetic and cross-checked with the specification's
//! abstract answer: state unique; matched = the matching VRPs; the two
//! unmatched lists partition the other covering VRPs, every member having the
//! defect its list names (a VRP wrong in both respects may be in either);
//! reason absent unless invalid, otherwise naming a non-empty list.  Where
//! the code's choice differs from the transcribed model without leaving that
//! set, a model divergence is logged.

use std::collections::{BTreeMap, BTreeSet};
use std::io::{Read, Write};
use std::net::{IpAddr, Ipv4Addr, Ipv6Addr, SocketAddr, TcpStream};
use std::path::PathBuf;
use std::str::FromStr;
use std::sync::Arc;
use std::time::Duration;
use serde_json::{json, Value};
use routinator::config::Config;
use routinator::metrics::{Metrics, RtrServerMetrics};
use routinator::payload::{PayloadInfo, PayloadSnapshot, SharedHistory, ValidationReport};
use routinator::slurm::{ExceptionInfo, LocalExceptions};
use routinator::validity::{RequestList, RouteValidity};
use rpki::resources::{Asn, MaxLenPrefix, Prefix};
use rpki::rtr::payload::RouteOrigin;
use rpki::rtr::server::NotifySender;
use crate::common::{catch, read_behaviours, Args, Report, Rng};

const PID: &str = "C20";

//------------ Concretisation -------------------------------------------------

/// A concrete base: the model's bit strings are appended to these prefixes.
#[derive(Clone, Debug)]
pub struct Base {
    pub name: &'static str,
    pub v4: (u32, u8),
    pub v6: (u128, u8),
    /// Map the model's largest max-length onto the family maximum (32 / 128).
    pub stretch: bool,
    /// Concrete AS numbers of the model's 1 and 2 (ascending, like the model).
    pub asns: [u32; 2],
}

fn v4(s: &str) -> u32 { u32::from(Ipv4Addr::from_str(s).unwrap()) }
fn v6(s: &str) -> u128 { u128::from(Ipv6Addr::from_str(s).unwrap()) }

pub fn bases() -> Vec<Base> {
    vec![
        Base { name: "mid", v4: (v4("10.0.0.0"), 8), v6: (v6("2001:db8::"), 32),
               stretch: false, asns: [64501, 64502] },
        Base { name: "top", v4: (0, 0), v6: (0, 0), stretch: false, asns: [0, u32::MAX] },
        Base { name: "host", v4: (v4("192.0.2.248"), 29),
               v6: (v6("2001:db8:ffff:ffff:ffff:ffff:ffff:fff8"), 125),
               stretch: false, asns: [4_200_000_000, 4_200_000_001] },
        Base { name: "mid-stretch", v4: (v4("172.16.0.0"), 12), v6: (v6("2001:db8:8000::"), 33),
               stretch: true, asns: [1, 2] },
        Base { name: "top-stretch", v4: (0, 0), v6: (0, 0), stretch: true,
               asns: [u32::MAX - 1, u32::MAX] },
        Base { name: "boundary", v4: (v4("198.51.100.0"), 22), v6: (v6("2001:db8:1:fffc::"), 62),
               stretch: false, asns: [23456, 65536] },
    ]
}

/// A concrete prefix in this file's own representation (address left-aligned
/// in 128 bits for both families), next to the value the code under test uses.
#[derive(Clone, Copy, Debug, PartialEq, Eq, PartialOrd, Ord)]
pub struct CPrefix { pub v4: bool, pub bits: u128, pub len: u8 }

impl CPrefix {
    fn new(b: &Base, fam: &str, len: u8, val: u32) -> Self {
        let is4 = fam == "v4";
        let (base_bits, base_len, width) = if is4 {
            ((b.v4.0 as u128) << 96, b.v4.1, 32u8)
        } else { (b.v6.0, b.v6.1, 128u8) };
        let total = base_len + len;
        assert!(total <= width, "base {} leaves no room for {len} bits", b.name);
        let bits = if len == 0 { base_bits } else { base_bits | ((val as u128) << (128 - total as u32)) };
        CPrefix { v4: is4, bits, len: total }
    }

    fn addr(&self) -> IpAddr {
        if self.v4 { IpAddr::V4(Ipv4Addr::from((self.bits >> 96) as u32)) }
        else { IpAddr::V6(Ipv6Addr::from(self.bits)) }
    }

    fn real(&self) -> Prefix { Prefix::new(self.addr(), self.len).expect("concrete prefix") }

    /// RFC 6811 "covers", by this file's own arithmetic.
    fn covers(&self, other: &CPrefix) -> bool {
        self.v4 == other.v4 && self.len <= other.len
            && (self.len == 0 || (self.bits ^ other.bits) >> (128 - self.len as u32) == 0)
    }

    fn text(&self) -> String { format!("{}/{}", self.addr(), self.len) }
}

#[derive(Clone, Debug)]
pub struct CVrp { pub p: CPrefix, pub max: u8, pub asn: u32 }

impl CVrp {
    fn real(&self) -> RouteOrigin {
        RouteOrigin::new(MaxLenPrefix::new(self.p.real(), Some(self.max)).expect("max-len"), Asn::from_u32(self.asn))
    }
    fn text(&self) -> String { format!("{}-{} AS{}", self.p.text(), self.max, self.asn) }
}

#[derive(Clone, Debug)]
pub struct CRoute { pub p: CPrefix, pub asn: u32 }

//------------ Behaviours ------------------------------------------------------

#[derive(Clone, Debug)]
struct Query {
    fam: String, len: u8, val: u32, asn: usize,
    state: String, reason: String, description: String,
    covering: BTreeSet<usize>, matching: BTreeSet<usize>,
    matched: Vec<usize>, bad_asn: Vec<usize>, bad_len: Vec<usize>,
    raw: Value,
}

fn ints(v: &Value) -> Vec<usize> {
    v.as_array().map(|a| a.iter().map(|x| x.as_u64().unwrap() as usize).collect()).unwrap_or_default()
}

impl Query {
    fn from_json(v: &Value) -> Self {
        Query {
            fam: v[0].as_str().unwrap().into(), len: v[1].as_u64().unwrap() as u8,
            val: v[2].as_u64().unwrap() as u32, asn: v[3].as_u64().unwrap() as usize,
            state: v[4].as_str().unwrap().into(), reason: v[5].as_str().unwrap().into(),
            description: v[6].as_str().unwrap().into(),
            covering: ints(&v[7]).into_iter().collect(), matching: ints(&v[8]).into_iter().collect(),
            matched: ints(&v[9]), bad_asn: ints(&v[10]), bad_len: ints(&v[11]),
            raw: v.clone(),
        }
    }
}

/// What one of the interfaces of the real code said about a route.  VRPs are
/// 1-based indexes into the concrete data set, 0 = not part of the data set.
#[derive(Clone, Debug, PartialEq, Eq)]
struct Observed {
    state: String,
    reason: Option<String>,
    description: Option<String>,
    matched: Vec<usize>, bad_asn: Vec<usize>, bad_len: Vec<usize>,
}

impl Observed {
    fn to_json(&self) -> Value {
        json!({"state": self.state, "reason": self.reason, "description": self.description,
               "matched": self.matched, "unmatched_as": self.bad_asn, "unmatched_length": self.bad_len})
    }
}

const D_VALID: &str = "At least one VRP Matches the Route Prefix";
const D_ASN: &str = "At least one VRP Covers the Route Prefix, but no VRP ASN matches the route origin ASN";
const D_LEN: &str = "At least one VRP Covers the Route Prefix, but the Route Prefix length is greater than the \
                     maximum length allowed by VRP(s) matching this route origin ASN";
const D_NF: &str = "No VRP Covers the Route Prefix";

fn description_code(s: &str) -> &'static str {
    match s { D_VALID => "valid", D_ASN => "bad-asn", D_LEN => "bad-len", D_NF => "not-found", _ => "?" }
}

//------------ One data set on one base ----------------------------------------

struct Case<'a> {
    base: &'a Base,
    line: &'a Value,
    vrps: Vec<CVrp>,
    real: Vec<RouteOrigin>,
}

impl Case<'_> {
    fn index_of(&self, o: &RouteOrigin) -> usize {
        self.real.iter().position(|x| x.prefix.prefix() == o.prefix.prefix()
            && x.prefix.resolved_max_len() == o.prefix.resolved_max_len() && x.asn == o.asn)
            .map(|p| p + 1).unwrap_or(0)
    }
    fn index_of_text(&self, asn: &str, prefix: &str, max: &str) -> usize {
        let (Ok(a), Ok(p), Ok(m)) = (Asn::from_str(asn), Prefix::from_str(prefix), u8::from_str(max)) else { return 0 };
        self.real.iter().position(|x| x.prefix.prefix() == p && x.prefix.resolved_max_len() == m && x.asn == a)
            .map(|p| p + 1).unwrap_or(0)
    }
    fn describe(&self, r: &CRoute, q: &Query, via: &str) -> Value {
        json!({"base": self.base.name, "via": via, "line": {"v": self.line["v"], "mb": self.line["mb"], "q": [q.raw]},
               "vrps": self.vrps.iter().map(|v| v.text()).collect::<Vec<_>>(),
               "route": format!("{} AS{}", r.p.text(), r.asn),
               "expected": {"state": q.state, "covering": q.covering, "matching": q.matching,
                            "model": {"reason": q.reason, "matched": q.matched, "unmatched_as": q.bad_asn, "unmatched_length": q.bad_len}}})
    }
}

fn info() -> PayloadInfo { PayloadInfo::from(Arc::new(ExceptionInfo::default())) }

/// Decides one observation against the statement of C20.  Returns
/// (violations as (sig suffix, detail), divergences from the model).
fn judge(c: &Case, r: &CRoute, q: &Query, o: &Observed) -> (Vec<(String, String)>, Vec<String>) {
    let mut bad = Vec::new();
    let mut div = Vec::new();
    // state
    if o.state != q.state {
        bad.push((format!("state/{}-reported-as-{}", q.state, o.state),
                  format!("RFC 6811 state is {} but {} was reported", q.state, o.state)));
    }
    // lists
    let set = |xs: &[usize]| -> BTreeSet<usize> { xs.iter().copied().collect() };
    let (m, a, l) = (set(&o.matched), set(&o.bad_asn), set(&o.bad_len));
    if m.len() != o.matched.len() || a.len() != o.bad_asn.len() || l.len() != o.bad_len.len() {
        bad.push(("lists/duplicate".into(), "a VRP is listed twice within one list".into()));
    }
    if m.contains(&0) || a.contains(&0) || l.contains(&0) {
        bad.push(("lists/foreign-vrp".into(), "a listed VRP is not part of the data set".into()));
    }
    if m != q.matching {
        bad.push(("lists/matched".into(), format!("matched list {:?} is not the set of matching VRPs {:?}", m, q.matching)));
    }
    let rest: BTreeSet<usize> = q.covering.difference(&q.matching).copied().collect();
    let un: BTreeSet<usize> = a.union(&l).copied().collect();
    if un != rest || a.intersection(&l).next().is_some() {
        bad.push(("lists/partition".into(),
                  format!("unmatched lists as={:?} length={:?} do not partition the covering non-matching VRPs {:?}", a, l, rest)));
    }
    for i in a.iter().filter(|i| **i > 0) {
        if c.vrps[i - 1].asn == r.asn {
            bad.push(("lists/unmatched-as-has-route-as".into(), format!("VRP {} has the route's AS but is listed as unmatched_as", c.vrps[i - 1].text())));
        }
    }
    for i in l.iter().filter(|i| **i > 0) {
        if r.p.len <= c.vrps[i - 1].max {
            bad.push(("lists/unmatched-length-fits".into(), format!("VRP {} allows the route's length but is listed as unmatched_length", c.vrps[i - 1].text())));
        }
    }
    // reason
    match (&o.reason, o.state.as_str()) {
        (None, "invalid") => bad.push(("reason/missing".into(), "invalid without a reason".into())),
        (None, _) => {}
        (Some(x), "invalid") => {
            let ok = match x.as_str() { "as" => !a.is_empty(), "length" => !l.is_empty(), _ => false };
            if !ok {
                bad.push((format!("reason/{x}-without-list"), format!("reason {x:?} although the list it names is empty (as={a:?} length={l:?})")));
            }
        }
        (Some(x), s) => bad.push((format!("reason/{x}-on-{s}"), format!("reason {x:?} reported for state {s}"))),
    }
    // the model's choice within the freedom
    if bad.is_empty() {
        if o.matched != q.matched || o.bad_asn != q.bad_asn || o.bad_len != q.bad_len {
            div.push(format!("lists differ from the model (allowed by C20): real m={:?} a={:?} l={:?}, model m={:?} a={:?} l={:?}",
                             o.matched, o.bad_asn, o.bad_len, q.matched, q.bad_asn, q.bad_len));
        }
        let mr = if q.reason == "none" { None } else { Some(q.reason.clone()) };
        if o.reason != mr {
            div.push(format!("reason differs from the model (allowed by C20): real {:?}, model {:?}", o.reason, mr));
        }
        if let Some(d) = &o.description {
            if description_code(d) != q.description {
                div.push(format!("description differs from the model: real {:?}, model {}", d, q.description));
            }
        }
    }
    (bad, div)
}

fn record(rep: &mut Report, c: &Case, r: &CRoute, q: &Query, o: &Observed, via: &str) -> bool {
    rep.eval(PID);
    let (bad, div) = judge(c, r, q, o);
    for (sig, detail) in &bad {
        rep.violation(PID, &format!("{via}/{sig}"), format!("{via}: {} AS{} on [{}]: {detail}", r.p.text(), r.asn,
            c.vrps.iter().map(|v| v.text()).collect::<Vec<_>>().join(", ")), c.describe(r, q, via), o.to_json());
    }
    for d in div {
        rep.add_note(PID, "model_divergences", 1);
        rep.divergence(PID, format!("{via} base={} route={} AS{}: {d}", c.base.name, r.p.text(), r.asn));
    }
    bad.is_empty()
}

/// Reads one entry of the JSON rendering (`validated_route` or an element of
/// `validated_routes`).  Err = the document does not have the documented shape.
fn observed_from_json(c: &Case, v: &Value, r: &CRoute) -> Result<Observed, String> {
    let route = &v["route"];
    let asn = route["origin_asn"].as_str().ok_or("route.origin_asn missing")?;
    let prefix = route["prefix"].as_str().ok_or("route.prefix missing")?;
    if Asn::from_str(asn).ok() != Some(Asn::from_u32(r.asn)) || Prefix::from_str(prefix).ok() != Some(r.p.real()) {
        return Err(format!("answer is about {prefix} {asn}, asked about {} AS{}", r.p.text(), r.asn))
    }
    let val = &v["validity"];
    let list = |name: &str| -> Result<Vec<usize>, String> {
        let arr = val["VRPs"][name].as_array().ok_or(format!("validity.VRPs.{name} missing"))?;
        arr.iter().map(|x| {
            match (x["asn"].as_str(), x["prefix"].as_str(), x["max_length"].as_str()) {
                (Some(a), Some(p), Some(m)) => Ok(c.index_of_text(a, p, m)),
                _ => Err(format!("malformed VRP entry in {name}: {x}")),
            }
        }).collect()
    };
    Ok(Observed {
        state: val["state"].as_str().ok_or("validity.state missing")?.to_string(),
        reason: val.get("reason").and_then(|x| x.as_str()).map(String::from),
        description: val["description"].as_str().map(String::from),
        matched: list("matched")?, bad_asn: list("unmatched_as")?, bad_len: list("unmatched_length")?,
    })
}

fn malformed(rep: &mut Report, c: &Case, r: &CRoute, q: &Query, via: &str, what: String, raw: &str) {
    rep.eval(PID);
    rep.violation(PID, &format!("{via}/malformed-answer"), format!("{via}: {what}"), c.describe(r, q, via),
                  json!({"raw": raw.chars().take(2000).collect::<String>()}));
}

//------------ Loopback HTTP ---------------------------------------------------

pub struct Http {
    hist: SharedHistory,
    cfg: Config,
    addr: SocketAddr,
    _rt: tokio::runtime::Runtime,
}

fn test_config() -> Config {
    Config::default_with_paths(PathBuf::from("/nonexistent/routinator.conf"), PathBuf::from("/nonexistent/cache"))
}

pub fn slurm_of(vrps: &[CVrp]) -> Value {
    let items: Vec<Value> = vrps.iter().map(|v| json!({"asn": v.asn, "prefix": v.p.text(), "maxPrefixLength": v.max})).collect();
    json!({
        "slurmVersion": 1,
        "validationOutputFilters": {"prefixFilters": [], "bgpsecFilters": []},
        "locallyAddedAssertions": {"prefixAssertions": items, "bgpsecAssertions": []}
    })
}

impl Http {
    pub fn start() -> Result<Self, String> {
        let rt = tokio::runtime::Builder::new_multi_thread().worker_threads(2).enable_all().build()
            .map_err(|e| format!("tokio runtime: {e}"))?;
        let mut last = String::new();
        for _ in 0..8 {
            let probe = std::net::TcpListener::bind("127.0.0.1:0").map_err(|e| format!("bind: {e}"))?;
            let addr = probe.local_addr().map_err(|e| format!("local_addr: {e}"))?;
            drop(probe);
            let mut cfg = test_config();
            cfg.http_listen = vec![addr];
            let hist = SharedHistory::from_config(&cfg);
            let _guard = rt.enter();
            match routinator::http::http_listener(hist.clone(), Arc::new(RtrServerMetrics::new(false)), None, &cfg, NotifySender::new()) {
                Ok(fut) => {
                    rt.spawn(fut);
                    drop(_guard);
                    return Ok(Http { hist, cfg, addr, _rt: rt })
                }
                Err(_) => last = format!("http_listener refused to bind {addr}"),
            }
        }
        Err(last)
    }

    /// Installs the data set as the current snapshot (SLURM assertions on an
    /// empty validation report) and checks that it arrived unchanged.
    pub fn install(&self, c_real: &[RouteOrigin], vrps: &[CVrp]) -> Result<(), String> {
        let ex = LocalExceptions::from_json(&slurm_of(vrps).to_string(), false).map_err(|e| format!("slurm: {e}"))?;
        self.hist.update(ValidationReport::new(&self.cfg), &ex, Metrics::new());
        self.hist.mark_update_done();
        let cur = self.hist.read().current().ok_or("no current snapshot after update")?;
        let got: Vec<RouteOrigin> = cur.origins().map(|x| x.0).collect();
        let mut want = c_real.to_vec();
        want.sort();
        if got != want { return Err(format!("installed data set differs: {got:?} vs {want:?}")) }
        Ok(())
    }

    fn request(&self, req: String) -> Result<(u16, String), String> {
        let mut last = String::new();
        for attempt in 0..3 {
            if attempt > 0 { std::thread::sleep(Duration::from_millis(50)) }
            let mut s = match TcpStream::connect_timeout(&self.addr, Duration::from_secs(5)) {
                Ok(s) => s, Err(e) => { last = format!("connect: {e}"); continue }
            };
            let _ = s.set_read_timeout(Some(Duration::from_secs(20)));
            if let Err(e) = s.write_all(req.as_bytes()) { last = format!("write: {e}"); continue }
            let mut buf = Vec::new();
            if let Err(e) = s.read_to_end(&mut buf) { last = format!("read: {e}"); continue }
            let text = String::from_utf8_lossy(&buf).to_string();
            let Some((head, body)) = text.split_once("\r\n\r\n") else { last = format!("no header end in {text:?}"); continue };
            let status: u16 = head.split_whitespace().nth(1).and_then(|x| x.parse().ok()).unwrap_or(0);
            let chunked = head.to_ascii_lowercase().contains("transfer-encoding: chunked");
            let body = if chunked { dechunk(body) } else { body.to_string() };
            return Ok((status, body))
        }
        Err(last)
    }

    pub fn get(&self, path: &str) -> Result<(u16, String), String> {
        self.request(format!("GET {path} HTTP/1.1\r\nHost: localhost\r\nConnection: close\r\n\r\n"))
    }

    pub fn post_json(&self, path: &str, body: &str) -> Result<(u16, String), String> {
        self.request(format!("POST {path} HTTP/1.1\r\nHost: localhost\r\nConnection: close\r\nContent-Type: application/json\r\n\
                              Content-Length: {}\r\n\r\n{body}", body.len()))
    }
}

fn dechunk(mut s: &str) -> String {
    let mut out = String::new();
    loop {
        let Some((len, rest)) = s.split_once("\r\n") else { break };
        let n = usize::from_str_radix(len.trim().split(';').next().unwrap_or("0"), 16).unwrap_or(0);
        if n == 0 || rest.len() < n { break }
        out.push_str(&rest[..n]);
        s = rest[n..].trim_start_matches("\r\n");
    }
    out
}

//------------ routinator validate, in-process ---------------------------------

pub struct Cli {
    dir: tempfile::TempDir,
    n: usize,
}

impl Cli {
    pub fn new() -> Result<Self, String> {
        let dir = tempfile::tempdir().map_err(|e| format!("tempdir: {e}"))?;
        std::fs::create_dir_all(dir.path().join("tals")).map_err(|e| e.to_string())?;
        std::fs::create_dir_all(dir.path().join("cache")).map_err(|e| e.to_string())?;
        std::fs::write(dir.path().join("routinator.conf"), format!(
            "repository-dir = {:?}\nno-rir-tals = true\nextra-tals-dir = {:?}\nlog = \"file\"\nlog-file = {:?}\n",
            dir.path().join("cache"), dir.path().join("tals"), dir.path().join("log"))).map_err(|e| e.to_string())?;
        Ok(Cli { dir, n: 0 })
    }

    /// Runs `routinator --config .. --exceptions <data set> validate [--json] --input <requests> --output <file> --noupdate`
    /// (or `--prefix/--asn` for a single route) and returns the output file.
    pub fn validate(&mut self, vrps: &[CVrp], input: Option<(&str, bool)>, single: Option<&CRoute>, json: bool) -> Result<String, String> {
        self.n += 1;
        let p = |name: &str| self.dir.path().join(name).to_string_lossy().to_string();
        std::fs::write(p("slurm.json"), slurm_of(vrps).to_string()).map_err(|e| e.to_string())?;
        let out = p("out");
        let _ = std::fs::remove_file(&out);
        let mut argv: Vec<String> = vec!["routinator".into(), "--config".into(), p("routinator.conf"),
            "--exceptions".into(), p("slurm.json"), "validate".into(), "--noupdate".into(), "--output".into(), out.clone()];
        if json { argv.push("--json".into()) }
        if let Some((text, _)) = input {
            std::fs::write(p("input"), text).map_err(|e| e.to_string())?;
            argv.push("--input".into()); argv.push(p("input"));
        }
        if let Some(r) = single {
            argv.push("--prefix".into()); argv.push(r.p.text());
            argv.push("--asn".into()); argv.push(format!("AS{}", r.asn));
        }
        // `Operation::run` switches the global logger, which works once per
        // process: every run is a child process of this same binary.
        std::fs::write(p("argv.json"), serde_json::to_string(&argv).unwrap()).map_err(|e| e.to_string())?;
        let exe = std::env::current_exe().map_err(|e| format!("current_exe: {e}"))?;
        let res = std::process::Command::new(exe).arg("rov").arg("--opt").arg(format!("cli-child={}", p("argv.json")))
            .current_dir(self.dir.path()).stdin(std::process::Stdio::null()).output().map_err(|e| format!("spawn: {e}"))?;
        match res.status.code() {
            Some(0) => std::fs::read_to_string(&out).map_err(|e| format!("no output file: {e}")),
            Some(CHILD_PANIC) => Err(format!("PANIC {}", String::from_utf8_lossy(&res.stderr).chars().take(600).collect::<String>())),
            code => Err(format!("routinator validate exited with {code:?}: {}", String::from_utf8_lossy(&res.stderr).chars().take(600).collect::<String>())),
        }
    }
}

const CHILD_PANIC: i32 = 70;

/// `vh rov --opt cli-child=<argv.json>`: what `main.rs` of routinator does.
fn cli_child(argv_file: &str) -> i32 {
    let argv: Vec<String> = match std::fs::read_to_string(argv_file).ok().and_then(|t| serde_json::from_str(&t).ok()) {
        Some(a) => a,
        None => { eprintln!("vh rov cli-child: cannot read {argv_file}"); return 2 }
    };
    let res = catch(std::panic::AssertUnwindSafe(|| -> Result<(), String> {
        routinator::Operation::prepare().map_err(|_| "prepare failed".to_string())?;
        let cur = std::env::current_dir().map_err(|e| e.to_string())?;
        let app = routinator::Operation::config_args(Config::config_args(clap::Command::new("routinator")));
        let matches = app.try_get_matches_from(argv.iter()).map_err(|e| format!("clap: {e}"))?;
        let mut config = Config::from_arg_matches(&matches, &cur).map_err(|_| "Config::from_arg_matches failed".to_string())?;
        let op = routinator::Operation::from_arg_matches(&matches, &cur, &mut config)
            .map_err(|_| "Operation::from_arg_matches failed".to_string())?;
        op.run(config).map_err(|e| format!("routinator validate failed: {e:?}"))
    }));
    match res {
        Ok(Ok(())) => 0,
        Ok(Err(e)) => { eprintln!("{e}"); 1 }
        Err(msg) => { eprintln!("{msg}"); CHILD_PANIC }
    }
}

//------------ The replay ------------------------------------------------------

struct Sampler { seen: BTreeMap<String, u32>, per_class: u32, every: u64, n: u64 }

impl Sampler {
    fn take(&mut self, class: String) -> bool {
        self.n += 1;
        let e = self.seen.entry(class).or_insert(0);
        *e += 1;
        *e <= self.per_class || self.n % self.every == 0
    }
}

struct Ctx<'a> {
    args: &'a Args,
    rng: Rng,
    http: Option<Http>,
    cli: Option<Cli>,
    json_sampler: Sampler,
    http_budget: usize,
    cli_budget: usize,
    tool_errors: Vec<String>,
    sampled: BTreeSet<String>,
}

pub fn main(args: &Args) -> i32 {
    if let Some(file) = args.opt("cli-child") {
        return cli_child(file)
    }
    let mut rep = Report::new("rov");
    rep.touch(PID);
    let behaviours = read_behaviours(args.input.as_deref().expect("--in"));
    let all = bases();
    let only: Option<Vec<&Base>> = args.opt("base").map(|n| all.iter().filter(|b| b.name == n).collect());
    let thorough = args.thorough();
    let _ = routinator::process::Process::init();
    let n = behaviours.len().max(1);
    let mut cx = Ctx {
        args, rng: Rng::new(args.seed),
        http: None, cli: None,
        json_sampler: Sampler { seen: BTreeMap::new(), per_class: if thorough { 200 } else { 40 }, every: 16, n: 0 },
        http_budget: args.opt_usize("http", if thorough { 1500 } else { 150 }),
        cli_budget: args.opt_usize("cli", if thorough { 240 } else { 36 }),
        tool_errors: Vec::new(),
        sampled: BTreeSet::new(),
    };
    if cx.http_budget > 0 {
        match Http::start() {
            Ok(h) => cx.http = Some(h),
            Err(e) => cx.tool_errors.push(format!("cannot start the HTTP listener: {e}")),
        }
    }
    if cx.cli_budget > 0 {
        match Cli::new() {
            Ok(c) => cx.cli = Some(c),
            Err(e) => cx.tool_errors.push(format!("cannot set up the CLI sandbox: {e}")),
        }
    }
    // lines that additionally go through HTTP / the CLI: evenly spread, every size of data set
    let http_step = (n / cx.http_budget.max(1)).max(1);
    let cli_step = (n / cx.cli_budget.max(1)).max(1);
    for (idx, line) in behaviours.iter().enumerate() {
        let picks: Vec<&Base> = match &only {
            Some(v) => v.clone(),
            None if thorough => all.iter().collect(),
            None => {
                // two different bases per data set, rotating with the line number and the seed
                let k = idx + args.seed as usize;
                let first = k % all.len();
                let second = (first + 1 + (k / all.len()) % (all.len() - 1)) % all.len();
                vec![&all[first], &all[second]]
            }
        };
        for (bi, base) in picks.iter().enumerate() {
            let via_http = bi == 0 && (idx % http_step == 0 || only.is_some());
            let via_cli = bi == 0 && (idx % cli_step == 0 || only.is_some());
            one(&mut rep, &mut cx, base, line, idx, via_http, via_cli);
        }
        rep.trace(PID);
        if !cx.tool_errors.is_empty() { break }
    }
    if let Some(e) = cx.tool_errors.first() {
        eprintln!("vh rov: tool error: {e}");
        let _ = rep.write(args);
        return 2
    }
    rep.write(args)
}

fn one(rep: &mut Report, cx: &mut Ctx, base: &Base, line: &Value, idx: usize, via_http: bool, via_cli: bool) {
    let mb = line["mb"].as_u64().unwrap_or(3) as u8;
    let vrps: Vec<CVrp> = line["v"].as_array().map(|a| a.iter().map(|v| {
        let fam = v[0].as_str().unwrap();
        let p = CPrefix::new(base, fam, v[1].as_u64().unwrap() as u8, v[2].as_u64().unwrap() as u32);
        let mmax = v[3].as_u64().unwrap() as u8;
        let blen = if fam == "v4" { base.v4.1 } else { base.v6.1 };
        let max = if base.stretch && mmax == mb { if fam == "v4" { 32 } else { 128 } } else { blen + mmax };
        CVrp { p, max, asn: base.asns[v[4].as_u64().unwrap() as usize - 1] }
    }).collect()).unwrap_or_default();
    let real: Vec<RouteOrigin> = vrps.iter().map(|v| v.real()).collect();
    let c = Case { base, line, vrps, real };
    let queries: Vec<Query> = line["q"].as_array().map(|a| a.iter().map(Query::from_json).collect()).unwrap_or_default();
    let routes: Vec<CRoute> = queries.iter().map(|q| CRoute {
        p: CPrefix::new(base, &q.fam, q.len, q.val), asn: base.asns[q.asn - 1] }).collect();

    // The snapshot, fed in a seed-determined order (the constructor sorts).
    let mut feed: Vec<(RouteOrigin, PayloadInfo)> = c.real.iter().map(|o| (*o, info())).collect();
    cx.rng.shuffle(&mut feed);
    let snapshot = PayloadSnapshot::new(feed.into_iter(), std::iter::empty(), std::iter::empty(), None);
    let order: Vec<usize> = snapshot.origins().map(|x| c.index_of(&x.0)).collect();
    if order != (1..=c.vrps.len()).collect::<Vec<_>>() {
        rep.add_note(PID, "model_divergences", 1);
        rep.divergence(PID, format!("base={}: snapshot order {:?} differs from the model's order for [{}]", base.name, order,
            c.vrps.iter().map(|v| v.text()).collect::<Vec<_>>().join(", ")));
    }

    // The abstraction must survive the concretisation: covering / matching by
    // this file's arithmetic on the concrete values = the specification's sets.
    for (q, r) in queries.iter().zip(&routes) {
        let cov: BTreeSet<usize> = c.vrps.iter().enumerate().filter(|(_, v)| v.p.covers(&r.p)).map(|(i, _)| i + 1).collect();
        let mat: BTreeSet<usize> = cov.iter().copied().filter(|i| c.vrps[i - 1].asn == r.asn && r.p.len <= c.vrps[i - 1].max).collect();
        let state = if !mat.is_empty() { "valid" } else if !cov.is_empty() { "invalid" } else { "not-found" };
        if cov != q.covering || mat != q.matching || state != q.state {
            cx.tool_errors.push(format!("concretisation {} does not preserve the model on line {idx}: route {} vrps {:?}: concrete cov={cov:?} match={mat:?}, spec cov={:?} match={:?}",
                base.name, r.p.text(), c.vrps.iter().map(|v| v.text()).collect::<Vec<_>>(), q.covering, q.matching));
            return
        }
    }

    // api: RouteValidity::new for every query
    let mut api: Vec<Option<Observed>> = Vec::with_capacity(queries.len());
    for (qi, (q, r)) in queries.iter().zip(&routes).enumerate() {
        let res = catch(std::panic::AssertUnwindSafe(|| {
            let v = RouteValidity::new(r.p.real(), Asn::from_u32(r.asn), &snapshot);
            let o = Observed {
                state: v.state().to_string(),
                reason: v.reason().map(String::from),
                description: Some(v.description().to_string()),
                matched: v.matched().iter().map(|x| c.index_of(&x.0)).collect(),
                bad_asn: v.bad_asn().iter().map(|x| c.index_of(&x.0)).collect(),
                bad_len: v.bad_len().iter().map(|x| c.index_of(&x.0)).collect(),
            };
            (o, v)
        }));
        match res {
            Ok((o, v)) => {
                record(rep, &c, r, q, &o, "api");
                if !q.covering.is_empty() {
                    rep.nontrivial(PID, format!("{idx}:{qi}:{}", q.state));
                }
                if q.state != "not-found" && c.vrps.len() >= 2 && cx.sampled.insert(format!("{}|{:?}", q.state, o.reason)) {
                    rep.sample(PID, json!({"base": base.name, "vrps": c.vrps.iter().map(|v| v.text()).collect::<Vec<_>>(),
                        "route": format!("{} AS{}", r.p.text(), r.asn), "observed": o.to_json(), "rfc6811_state": q.state}));
                }
                // json: the single-route rendering
                let class = format!("{}|{}|{}|{}|{}|{}|{}", base.name, q.fam, q.state, q.reason, q.matched.len(), q.bad_asn.len(), q.bad_len.len());
                if cx.json_sampler.take(class) {
                    let text = catch(std::panic::AssertUnwindSafe(|| String::from_utf8_lossy(&v.into_json(&snapshot)).to_string()));
                    match text {
                        Ok(text) => check_single_json(rep, &c, r, q, &text, "json", Some(&o)),
                        Err(msg) => panic_violation(rep, &c, r, q, "json", &msg),
                    }
                    rep.add_note(PID, "via_json", 1);
                }
                api.push(Some(o));
            }
            Err(msg) => { panic_violation(rep, &c, r, q, "api", &msg); api.push(None) }
        }
    }
    rep.add_note(PID, "via_api", queries.len() as u64);
    rep.add_note(PID, &format!("sets_on_base_{}", base.name), 1);

    // batch: what `routinator validate` composes, every 8th data set (all when replaying one)
    if idx % 8 == 0 || cx.args.opt("base").is_some() {
        batch(rep, cx, &c, &queries, &routes, &snapshot, idx);
    }
    if via_http && cx.http.is_some() {
        http(rep, cx, &c, &queries, &routes, idx);
    }
    if via_cli && cx.cli.is_some() {
        cli(rep, cx, &c, &queries, &routes, idx);
    }
}

fn panic_violation(rep: &mut Report, c: &Case, r: &CRoute, q: &Query, via: &str, msg: &str) {
    // C20 demands an answer for *any* route and data set; a crash is none.
    rep.eval(PID);
    rep.violation(PID, &format!("{via}/panic"), format!("{via}: panic instead of an answer: {msg}"), c.describe(r, q, via), json!({"panic": msg}));
}

fn check_single_json(rep: &mut Report, c: &Case, r: &CRoute, q: &Query, text: &str, via: &str, same_as: Option<&Observed>) {
    let doc: Value = match serde_json::from_str(text) {
        Ok(d) => d,
        Err(e) => return malformed(rep, c, r, q, via, format!("output is not JSON: {e}"), text),
    };
    if doc.get("generatedTime").and_then(|x| x.as_str()).is_none() {
        rep.divergence(PID, format!("{via}: generatedTime missing"));
    }
    match observed_from_json(c, &doc["validated_route"], r) {
        Ok(o) => {
            let ok = record(rep, c, r, q, &o, via);
            if let (true, Some(api)) = (ok, same_as) {
                if *api != o {
                    rep.add_note(PID, "model_divergences", 1);
                    rep.divergence(PID, format!("{via}: rendering differs from the accessor view: {:?} vs {:?}", o, api));
                }
            }
        }
        Err(e) => malformed(rep, c, r, q, via, e, text),
    }
}

fn requests_json(routes: &[CRoute], flavour: usize) -> String {
    let items: Vec<Value> = routes.iter().enumerate().map(|(i, r)| {
        if (i + flavour) % 2 == 0 { json!({"prefix": r.p.text(), "asn": format!("AS{}", r.asn)}) }
        else { json!({"asn": r.asn, "prefix": r.p.text()}) }
    }).collect();
    json!({"routes": items}).to_string()
}

fn requests_plain(routes: &[CRoute]) -> String {
    let mut s = String::from("\n");
    for (i, r) in routes.iter().enumerate() {
        match i % 3 {
            0 => s.push_str(&format!("{} => AS{}\n", r.p.text(), r.asn)),
            1 => s.push_str(&format!("  {}   =>   {}   # route {i}\n", r.p.text(), r.asn)),
            _ => s.push_str(&format!("{}\t=>\tas{}\n\n", r.p.text(), r.asn)),
        }
    }
    s
}

fn check_list_json(rep: &mut Report, c: &Case, queries: &[Query], routes: &[CRoute], text: &str, via: &str) {
    let doc: Value = match serde_json::from_str(text) {
        Ok(d) => d,
        Err(e) => return malformed(rep, c, &routes[0], &queries[0], via, format!("output is not JSON: {e}"), text),
    };
    let Some(arr) = doc["validated_routes"].as_array() else {
        return malformed(rep, c, &routes[0], &queries[0], via, "validated_routes missing".into(), text)
    };
    if arr.len() != routes.len() {
        return malformed(rep, c, &routes[0], &queries[0], via, format!("{} answers for {} requests", arr.len(), routes.len()), text)
    }
    for ((q, r), v) in queries.iter().zip(routes).zip(arr) {
        match observed_from_json(c, v, r) {
            Ok(o) => { record(rep, c, r, q, &o, via); }
            Err(e) => malformed(rep, c, r, q, via, e, &v.to_string()),
        }
    }
}

fn check_list_plain(rep: &mut Report, c: &Case, queries: &[Query], routes: &[CRoute], text: &str, via: &str) {
    let lines: Vec<&str> = text.lines().collect();
    if lines.len() != routes.len() {
        return malformed(rep, c, &routes[0], &queries[0], via, format!("{} lines for {} requests", lines.len(), routes.len()), text)
    }
    for ((q, r), l) in queries.iter().zip(routes).zip(lines) {
        rep.eval(PID);
        let want_head = format!("{} => AS{}: ", r.p.real(), r.asn);
        match l.strip_prefix(&want_head) {
            Some(state) if state == q.state => {}
            Some(state) => rep.violation(PID, &format!("{via}/state/{}-reported-as-{}", q.state, state),
                format!("{via}: RFC 6811 state is {} but the plain output says {state:?}", q.state), c.describe(r, q, via), json!({"line": l})),
            None => malformed(rep, c, r, q, via, format!("plain line {l:?} does not start with {want_head:?}"), text),
        }
    }
}

fn batch(rep: &mut Report, cx: &mut Ctx, c: &Case, queries: &[Query], routes: &[CRoute], snapshot: &PayloadSnapshot, idx: usize) {
    if routes.is_empty() { return }
    let res = catch(std::panic::AssertUnwindSafe(|| -> Result<(String, String, Vec<String>), String> {
        // request list through the JSON reader and through the plain reader
        let body = requests_json(routes, idx);
        let from_json = RequestList::from_json_reader(&mut body.as_bytes()).map_err(|e| format!("from_json_reader: {e}"))?;
        let plain = requests_plain(routes);
        let from_plain = RequestList::from_plain_reader(std::io::BufReader::new(plain.as_bytes())).map_err(|e| format!("from_plain_reader: {e}"))?;
        let mut j = Vec::new();
        from_json.validity(snapshot).write_json(&mut j).map_err(|e| e.to_string())?;
        let mut p = Vec::new();
        let list = from_plain.validity(snapshot);
        list.write_plain(&mut p).map_err(|e| e.to_string())?;
        let states = list.iter_state().map(|(p, a, s)| format!("{p} {a} {s}")).collect();
        Ok((String::from_utf8_lossy(&j).to_string(), String::from_utf8_lossy(&p).to_string(), states))
    }));
    match res {
        Ok(Ok((j, p, states))) => {
            check_list_json(rep, c, queries, routes, &j, "batch-json");
            check_list_plain(rep, c, queries, routes, &p, "batch-plain");
            for ((q, r), s) in queries.iter().zip(routes).zip(&states) {
                rep.eval(PID);
                let want = format!("{} AS{} {}", r.p.real(), r.asn, q.state);
                if *s != want {
                    rep.violation(PID, &format!("iter-state/state/{}", q.state), format!("iter_state yields {s:?}, RFC 6811 says {want:?}"),
                                  c.describe(r, q, "iter-state"), json!({"item": s}));
                }
            }
            rep.add_note(PID, "via_batch_sets", 1);
        }
        Ok(Err(e)) => cx.tool_errors.push(format!("batch path refused generated requests: {e}")),
        Err(msg) => panic_violation(rep, c, &routes[0], &queries[0], "batch", &msg),
    }
    // single(): the --prefix/--asn form
    let k = idx % routes.len();
    let res = catch(std::panic::AssertUnwindSafe(|| {
        let mut j = Vec::new();
        RequestList::single(routes[k].p.real(), Asn::from_u32(routes[k].asn)).validity(snapshot).write_json(&mut j).map(|_| j)
    }));
    match res {
        Ok(Ok(j)) => check_list_json(rep, c, &queries[k..=k], &routes[k..=k], &String::from_utf8_lossy(&j), "batch-single"),
        Ok(Err(e)) => cx.tool_errors.push(format!("write_json failed: {e}")),
        Err(msg) => panic_violation(rep, c, &routes[k], &queries[k], "batch-single", &msg),
    }
}

/// Picks up to `n` queries, one per distinct (state, model reason, list shape) first.
fn representatives(queries: &[Query], n: usize, salt: usize) -> Vec<usize> {
    let mut seen = BTreeSet::new();
    let mut res = Vec::new();
    let len = queries.len();
    for k in 0..len {
        let i = (k + salt) % len;
        let q = &queries[i];
        if seen.insert((q.state.clone(), q.reason.clone(), q.matched.len(), q.bad_asn.len(), q.bad_len.len(), q.fam.clone())) {
            res.push(i);
        }
    }
    res.truncate(n);
    res
}

fn http(rep: &mut Report, cx: &mut Ctx, c: &Case, queries: &[Query], routes: &[CRoute], idx: usize) {
    if routes.is_empty() { return }
    let h = cx.http.as_ref().unwrap();
    if let Err(e) = h.install(&c.real, &c.vrps) {
        cx.tool_errors.push(format!("cannot install the data set in the SharedHistory: {e}"));
        return
    }
    // batch POST with every route
    match h.post_json("/validity", &requests_json(routes, idx + 1)) {
        Ok((200, body)) => check_list_json(rep, c, queries, routes, &body, "http-post"),
        Ok((code, body)) => malformed(rep, c, &routes[0], &queries[0], "http-post", format!("status {code} for a well-formed batch request"), &body),
        Err(e) => { cx.tool_errors.push(format!("POST /validity: {e}")); return }
    }
    // GET for one route of every class present
    for (n, i) in representatives(queries, 8, idx).into_iter().enumerate() {
        let (q, r) = (&queries[i], &routes[i]);
        let (via, path) = match n % 3 {
            0 => ("http-get", format!("/api/v1/validity/AS{}/{}", r.asn, r.p.text())),
            1 => ("http-get", format!("/api/v1/validity/{}/{}", r.asn, r.p.text())),
            _ => ("http-query", format!("/validity?asn=AS{}&prefix={}", r.asn, r.p.text().replace(':', "%3A").replace('/', "%2F"))),
        };
        match h.get(&path) {
            Ok((200, body)) => check_single_json(rep, c, r, q, &body, via, None),
            Ok((code, body)) => malformed(rep, c, r, q, via, format!("status {code} for GET {path}"), &body),
            Err(e) => { cx.tool_errors.push(format!("GET {path}: {e}")); return }
        }
        rep.add_note(PID, "via_http_get", 1);
    }
    rep.add_note(PID, "via_http_sets", 1);
}

fn cli(rep: &mut Report, cx: &mut Ctx, c: &Case, queries: &[Query], routes: &[CRoute], idx: usize) {
    if routes.is_empty() { return }
    let vrps = c.vrps.clone();
    let cli = cx.cli.as_mut().unwrap();
    let mode = idx % 3;
    let k = idx % routes.len();
    let res = catch(std::panic::AssertUnwindSafe(|| match mode {
        0 => cli.validate(&vrps, Some((&requests_json(routes, idx), true)), None, true),
        1 => cli.validate(&vrps, Some((&requests_plain(routes), false)), None, false),
        _ => cli.validate(&vrps, None, Some(&routes[k]), true),
    }));
    match res {
        Ok(Ok(text)) => {
            match mode {
                0 => check_list_json(rep, c, queries, routes, &text, "cli-json"),
                1 => check_list_plain(rep, c, queries, routes, &text, "cli-plain"),
                _ => check_list_json(rep, c, &queries[k..=k], &routes[k..=k], &text, "cli-single"),
            }
            rep.add_note(PID, "via_cli_runs", 1);
        }
        Ok(Err(e)) if e.starts_with("PANIC ") => panic_violation(rep, c, &routes[0], &queries[0], "cli", &e),
        Ok(Err(e)) => cx.tool_errors.push(format!("routinator validate (child process) could not be run: {e}")),
        Err(msg) => cx.tool_errors.push(format!("panic in the CLI driver: {msg}")),
    }
}
