//! Replay for `Fetch.tla`.
//!
//! C37 (`mode=schedules`): the thread schedules exported by `Gen_Fetch` are
//! driven through the real `collector::Run::repository` (-> rsync
//! `Run::load_module` / RRDP `Run::load_repository`) with named threads parked
//! at the preemption points of the code (hook H3) and inside the fetch itself
//! (the in-process rsync / HTTP doubles call `verif::preempt("x-fetch-*")`).
//! Oracle = the statement: every key is fetched at most once per run, and a
//! caller gets its answer only when the fetch has finished and its data is
//! complete (read back through `Repository::load_object` at return time).
//! `mode=stress`: free-running validation runs over a world whose CAs share
//! one rsync module / one RRDP repository.
//!
//! C31 (`mode=hosts`): one CA per host class of the table of `Fetch.tla`, in
//! caRepository and in rpkiNotify position, validated with the filter on and
//! off; oracle: no rsync invocation / HTTP request for a URI whose host is
//! localhost (any case), an IP literal or carries a port while the filter is on.

use std::collections::{BTreeMap, BTreeSet};
use std::str::FromStr;
use std::sync::{mpsc, Arc, Mutex};
use std::time::{Duration, Instant};
use bytes::Bytes;
use serde_json::{json, Value};
use routinator::collector::Collector;
use routinator::engine::CaCert;
use routinator::slurm::LocalExceptions;
use routinator::verif::{self, HttpReply};
use rpki::repository::cert::Cert;
use rpki::repository::tal::{TalInfo, TalUri};
use rpki::uri;
use crate::common::{catch, read_behaviours, Args, Report};
use crate::env::server::Gate;
use crate::env::{fake_rsync, run_once, TestBed};
use crate::gen::world::{Ca, CaCertSpec, Fault, Obj, ObjKind, TaVariant, Tal, World};
use crate::gen::{Factory, Published, POOL_SIZE};

pub const PROPS: [&str; 2] = ["C37", "C31"];

pub fn main(args: &Args) -> i32 {
    let mut rep = Report::new("fetch");
    let code = match args.opt("mode").unwrap_or("schedules") {
        "schedules" => { rep.touch("C37"); schedules(args, &mut rep) }
        "stress" => { rep.touch("C37"); stress(args, &mut rep) }
        "hosts" => { rep.touch("C31"); hosts(args, &mut rep) }
        m => { eprintln!("fetch: unknown mode {m}"); return 2 }
    };
    let w = rep.write(args);
    if code != 0 { code } else { w }
}

//------------ the fetch doubles ------------------------------------------------

/// What the doubles saw: (thread, uri, "start" | "end").
#[derive(Default)]
struct FetchLog(Mutex<Vec<(String, String, &'static str)>>);

impl FetchLog {
    fn push(&self, uri: &str, what: &'static str) {
        self.0.lock().unwrap().push((verif::thread_name(), uri.to_string(), what));
    }
    fn take(&self) -> Vec<(String, String, &'static str)> { std::mem::take(&mut self.0.lock().unwrap()) }
    fn count(&self, uri: &str, what: &str) -> usize {
        self.0.lock().unwrap().iter().filter(|e| e.1 == uri && e.2 == what).count()
    }
}

/// In-process rsync with preemption points: begin | log "start" | mid | copy, log "end" | end.
fn install_rsync(bed: &TestBed, log: &Arc<FetchLog>) {
    let root = bed.dir.path().to_string_lossy().into_owned();
    let log = log.clone();
    verif::set_rsync_override(Some(Arc::new(move |source: &str, dest: &std::path::Path| {
        verif::preempt("x-fetch-begin");
        log.push(source, "start");
        verif::preempt("x-fetch-mid");
        let code = fake_rsync(&[root.clone(), source.to_string(), dest.to_string_lossy().into_owned()]);
        log.push(source, "end");
        verif::preempt("x-fetch-end");
        code
    })));
}

/// A minimal RRDP server: one session, serial 1, a snapshot per notification URI.
#[derive(Default)]
struct RrdpDouble {
    /// notification URI -> (notification xml, snapshot URI, snapshot xml)
    repos: BTreeMap<String, (Vec<u8>, String, Vec<u8>)>,
}

impl RrdpDouble {
    fn add(&mut self, notify: &str, files: &[(String, Bytes)]) {
        let session = uuid::Uuid::from_u128(0x5eed_0000_0000_4000_8000_0000_0000_0001 + self.repos.len() as u128);
        let snapshot_uri = notify.replace("notify.xml", "snapshot.xml");
        let snapshot = rpki::rrdp::Snapshot::new(session, 1, files.iter().map(|(u, b)| {
            rpki::rrdp::PublishElement::new(uri::Rsync::from_str(u).expect("rsync uri"), b.clone())
        }).collect());
        let mut sxml = Vec::new();
        snapshot.write_xml(&mut sxml).unwrap();
        let notification = rpki::rrdp::NotificationFile::new(session, 1, rpki::rrdp::UriAndHash::new(
            uri::Https::from_str(&snapshot_uri).expect("https uri"), rpki::rrdp::Hash::from_data(&sxml)), Vec::new());
        let mut nxml = Vec::new();
        notification.write_xml(&mut nxml).unwrap();
        self.repos.insert(notify.to_string(), (nxml, snapshot_uri, sxml));
    }
}

fn reply(status: u16, body: Vec<u8>) -> HttpReply { HttpReply { status, headers: Vec::new(), body } }

/// HTTP double with the same preemption points; the fetch of a repository
/// starts with the notification request and ends with the snapshot reply.
fn install_http(double: Arc<RrdpDouble>, log: &Arc<FetchLog>) {
    let log = log.clone();
    verif::set_http_override(Some(Arc::new(move |u: &str, _etag: Option<&[u8]>, _ims: Option<i64>| {
        if let Some((nxml, _, _)) = double.repos.get(u) {
            verif::preempt("x-fetch-begin");
            log.push(u, "start");
            verif::preempt("x-fetch-mid");
            return reply(200, nxml.clone())
        }
        for (notify, (_, suri, sxml)) in &double.repos {
            if suri == u {
                log.push(notify, "end");
                verif::preempt("x-fetch-end");
                return reply(200, sxml.clone())
            }
        }
        log.push(u, "start");
        reply(404, b"not found".to_vec())
    })));
}

//------------ C37: schedules -----------------------------------------------------

#[derive(Clone, Copy, PartialEq)]
enum Transport { Rsync, Rrdp }

impl Transport {
    fn name(self) -> &'static str { match self { Transport::Rsync => "rsync", Transport::Rrdp => "rrdp" } }
    /// The point a thread is parked at while its model pc is `label`.
    fn point(self, label: &str) -> Option<&'static str> {
        let r = self == Transport::Rsync;
        Some(match label {
            "getmtx" => if r { "rsync-after-first-check" } else { "rrdp-after-first-check" },
            "lock" => if r { "rsync-after-mutex-clone" } else { "rrdp-after-mutex-clone" },
            "check2" => if r { "rsync-after-lock" } else { "rrdp-after-lock" },
            "fetch" => "x-fetch-begin",
            "fetching" => "x-fetch-mid",
            "book1" => "x-fetch-end",
            "book2" => if r { "rsync-between-bookkeeping" } else { "rrdp-between-bookkeeping" },
            "unlock" => if r { "rsync-after-bookkeeping" } else { "rrdp-after-bookkeeping" },
            _ => return None,
        })
    }
    fn points(self) -> Vec<&'static str> {
        ["getmtx", "lock", "check2", "fetch", "fetching", "book1", "book2", "unlock"].iter()
            .map(|l| self.point(l).unwrap()).collect()
    }
}

/// One key of the model: an rsync module resp. an RRDP repository with one object.
struct KeyEnv {
    ca: Arc<CaCert>,
    /// What the double logs for a fetch of this key.
    fetch_uri: String,
    obj_uri: uri::Rsync,
    obj: Bytes,
}

struct SchedEnv {
    transport: Transport,
    bed: TestBed,
    config: routinator::config::Config,
    keys: BTreeMap<String, KeyEnv>,
    log: Arc<FetchLog>,
}

fn sched_env(transport: Transport, factory: &Factory) -> SchedEnv {
    let bed = TestBed::new();
    let log = Arc::new(FetchLog::default());
    let mut keys = BTreeMap::new();
    let mut published = Published::default();
    let mut double = RrdpDouble::default();
    for i in 1..=3usize {
        let host = format!("k{i}.verif.test");
        let repo = format!("rsync://{host}/repo/ca/");
        let notify = format!("https://{host}/rrdp/notify.xml");
        let spec = CaCertSpec {
            key: i, issuer_key: None, serial: 10 + i as u64, validity: (-24, 24 * 30),
            repo: repo.clone(), manifest: format!("{repo}ca.mft"),
            notify: if transport == Transport::Rrdp { Some(notify.clone()) } else { None },
            prefixes: vec!["10.0.0.0/8".into()], asns: vec![(64000, 65000)],
            ..Default::default()
        };
        let cert = Cert::decode(factory.ca_cert(&spec)).expect("decode TA certificate");
        let rc = cert.validate_ta(TalInfo::from_name(format!("tal{i}")).into_arc(), false).expect("TA certificate valid");
        let ta_uri = uri::Rsync::from_str(&format!("rsync://{host}/repo/ta.cer")).unwrap();
        let ca = CaCert::root(rc, TalUri::Rsync(ta_uri), 0).expect("CaCert::root");
        let obj_uri = format!("{repo}obj{i}.bin");
        let obj = Bytes::from(format!("object published in repository k{i}: {}", "x".repeat(3000 + i)).into_bytes());
        published.files.insert(obj_uri.clone(), obj.clone());
        double.add(&notify, &[(obj_uri.clone(), obj.clone())]);
        keys.insert(format!("k{i}"), KeyEnv {
            ca,
            fetch_uri: if transport == Transport::Rrdp { notify } else { format!("rsync://{host}/repo/") },
            obj_uri: uri::Rsync::from_str(&obj_uri).unwrap(), obj,
        });
    }
    bed.publish_files(&published);
    let mut config = bed.config();
    match transport {
        Transport::Rsync => install_rsync(&bed, &log),
        Transport::Rrdp => {
            config.disable_rrdp = false;
            config.disable_rsync = true;
            install_http(Arc::new(double), &log);
        }
    }
    SchedEnv { transport, bed, config, keys, log }
}

/// The answer of one call as seen by the calling thread at return time.
struct CallResult {
    thread: String,
    key: String,
    /// Ok(Some(data)) | Ok(None): no repository / object | Err: run failed or panic
    data: Result<Option<Bytes>, String>,
    via_rrdp: bool,
    /// Had a fetch of the key finished when the call returned?
    finished: bool,
}

enum Seen { Parked(&'static str), Returned, Timeout }

struct Driver<'a> {
    gate: Arc<Gate>,
    points: Vec<&'static str>,
    results: &'a mpsc::Receiver<CallResult>,
    got: Vec<CallResult>,
    /// calls returned per thread
    nret: BTreeMap<String, usize>,
}

impl Driver<'_> {
    fn drain(&mut self) {
        while let Ok(r) = self.results.try_recv() {
            *self.nret.entry(r.thread.clone()).or_default() += 1;
            self.got.push(r);
        }
    }

    /// Waits until thread `t` parks somewhere or returns from its call number `ncall`.
    fn wait(&mut self, t: &str, ncall: usize, timeout: Duration) -> Seen {
        let deadline = Instant::now() + timeout;
        loop {
            self.drain();
            if self.nret.get(t).copied().unwrap_or(0) >= ncall { return Seen::Returned }
            for p in &self.points {
                if self.gate.is_parked(t, p) { return Seen::Parked(p) }
            }
            if Instant::now() >= deadline { return Seen::Timeout }
            std::thread::sleep(Duration::from_micros(150));
        }
    }
}

fn schedules(args: &Args, rep: &mut Report) -> i32 {
    let behaviours = read_behaviours(args.input.as_deref().expect("--in"));
    let transport = match args.opt("transport").unwrap_or("rsync") { "rrdp" => Transport::Rrdp, _ => Transport::Rsync };
    let (shard, nshards) = match args.opt("shard") {
        Some(s) => { let (a, b) = s.split_once('/').unwrap(); (a.parse::<usize>().unwrap(), b.parse::<usize>().unwrap()) }
        None => (0, 1),
    };
    let lock_wait = Duration::from_millis(args.opt_usize("lock_wait_ms", 400) as u64);
    let factory = Factory::new();
    let env = sched_env(transport, &factory);
    // one collector for the process (building the HTTP client is slow); every behaviour is one `Run` on it
    let mut collector = match Collector::new(&env.config) { Ok(c) => c, Err(_) => { eprintln!("fetch: Collector::new failed"); return 3 } };
    if collector.ignite().is_err() { eprintln!("fetch: ignite failed"); return 3 }
    let mut hangs = 0;
    for (idx, b) in behaviours.iter().enumerate() {
        if idx % nshards != shard { continue }
        if !one_schedule(rep, &env, &collector, b, idx, lock_wait) { hangs += 1; if hangs > 3 { break } }
    }
    Gate::uninstall();
    verif::set_rsync_override(None);
    verif::set_http_override(None);
    if hangs > 0 {
        eprintln!("fetch: {hangs} schedule(s) did not terminate (threads still blocked 20 s after all gates were opened)");
        return 3
    }
    0
}

/// Replays one schedule.  Returns false if the threads did not terminate.
fn one_schedule(rep: &mut Report, env: &SchedEnv, collector: &Collector, b: &Value, idx: usize, lock_wait: Duration) -> bool {
    let pid = "C37";
    let tr = env.transport;
    let steps = b["steps"].as_array().unwrap();
    let shape: Vec<String> = steps.iter().map(|s| format!("{}.{}", s["t"].as_str().unwrap(), s["a"].as_str().unwrap())).collect();
    let from = format!("{}{}", b["order"].as_str().unwrap_or("?"), if b["c2r"].as_bool().unwrap_or(false) { "+c2r" } else { "" });
    let brief = json!({"transport": tr.name(), "model_order": from, "behaviour_index": idx, "schedule": shape.join(" "),
                       "keys": steps.iter().filter(|s| s["a"] == "check1").map(|s| format!("{}:{}", s["t"].as_str().unwrap(), s["k"].as_str().unwrap())).collect::<Vec<_>>()});

    // calls per thread, in order
    let mut calls: BTreeMap<String, Vec<String>> = BTreeMap::new();
    for s in steps {
        if s["a"] == "check1" {
            calls.entry(s["t"].as_str().unwrap().to_string()).or_default().push(s["k"].as_str().unwrap().to_string());
        }
    }
    let threads: Vec<String> = calls.keys().cloned().collect();

    // an empty local copy: whatever a caller reads was fetched in this run
    for sub in ["rsync", "rrdp"] {
        let dir = env.bed.cache.join(sub);
        let _ = std::fs::remove_dir_all(&dir);
        std::fs::create_dir_all(&dir).unwrap();
    }
    let _ = env.bed.take_rsync_log();
    let _ = env.log.take();
    let run = collector.start();

    let gate = Gate::install();
    for t in &threads { for p in tr.points() { gate.arm(t, p); } }

    let (res_tx, res_rx) = mpsc::channel::<CallResult>();
    let mut unrealised: Option<String> = None;
    let mut terminated = true;
    let total_calls: usize = calls.values().map(|v| v.len()).sum();

    let got: Vec<CallResult> = std::thread::scope(|scope| {
        let mut go: BTreeMap<String, mpsc::Sender<String>> = BTreeMap::new();
        for t in &threads {
            let (tx, rx) = mpsc::channel::<String>();
            go.insert(t.clone(), tx);
            let res_tx = res_tx.clone();
            let run = &run;
            let name = t.clone();
            scope.spawn(move || {
                verif::set_thread_name(&name);
                while let Ok(k) = rx.recv() {
                    let ke = &env.keys[&k];
                    let out = catch(std::panic::AssertUnwindSafe(|| {
                        match run.repository(&ke.ca) {
                            Ok(Some(repo)) => {
                                let via = repo.is_rrdp();
                                // read the data the way a validation thread does, right at return time
                                match repo.load_object(&ke.obj_uri) {
                                    Ok(data) => (Ok(data), via),
                                    Err(_) => (Err("load_object: run failed".to_string()), via),
                                }
                            }
                            Ok(None) => (Ok(None), false),
                            Err(_) => (Err("repository(): run failed".to_string()), false),
                        }
                    }));
                    let finished = env.log.count(&ke.fetch_uri, "end") > 0;
                    let (data, via_rrdp) = match out { Ok(x) => x, Err(p) => (Err(format!("panic: {p}")), false) };
                    let _ = res_tx.send(CallResult { thread: name.clone(), key: k, data, via_rrdp, finished });
                }
            });
        }

        let mut drv = Driver { gate: gate.clone(), points: tr.points(), results: &res_rx, got: Vec::new(), nret: BTreeMap::new() };
        let mut at: BTreeMap<String, Option<&'static str>> = threads.iter().map(|t| (t.clone(), None)).collect();
        let mut started: BTreeMap<String, usize> = BTreeMap::new();
        let long = Duration::from_secs(10);

        for (si, s) in steps.iter().enumerate() {
            let t = s["t"].as_str().unwrap();
            let a = s["a"].as_str().unwrap();
            if a == "check1" {
                if at[t].is_some() { unrealised = Some(format!("step {si} {t}.check1: the thread is still inside its previous call")); break }
                *started.entry(t.to_string()).or_default() += 1;
                go[t].send(s["k"].as_str().unwrap().to_string()).unwrap();
            } else {
                let want = tr.point(a);
                if at[t] != want || want.is_none() {
                    unrealised = Some(format!("step {si} {t}.{a}: thread is at {:?}, the model has it at {:?}", at[t], want));
                    break
                }
                gate.release(t, want.unwrap());
                // the thread takes itself off the parked list when it wakes up
                let deadline = Instant::now() + long;
                while gate.is_parked(t, want.unwrap()) && Instant::now() < deadline { std::thread::yield_now(); }
            }
            let ncall = started.get(t).copied().unwrap_or(0);
            let seen = drv.wait(t, ncall, if a == "lock" { lock_wait } else { long });
            let model_next = tr.point(s["pc"].as_str().unwrap());
            match seen {
                Seen::Parked(p) => {
                    at.insert(t.to_string(), Some(p));
                    if model_next != Some(p) {
                        unrealised = Some(format!("after step {si} {t}.{a} the thread is parked at {p}, the model expects {:?}", model_next));
                        break
                    }
                }
                Seen::Returned => {
                    at.insert(t.to_string(), None);
                    if model_next.is_some() {
                        unrealised = Some(format!("after step {si} {t}.{a} the call returned, the model expects {:?}", model_next));
                        break
                    }
                }
                Seen::Timeout => {
                    unrealised = Some(format!("step {si} {t}.{a}: the thread did not get on within {:?} (blocked)", if a == "lock" { lock_wait } else { long }));
                    break
                }
            }
        }

        // open all gates, start the calls the schedule did not get to, collect every answer
        gate.disarm_all();
        for t in &threads {
            let done = started.get(t).copied().unwrap_or(0);
            for k in &calls[t][done..] { let _ = go[t].send(k.clone()); }
        }
        let deadline = Instant::now() + Duration::from_secs(20);
        loop {
            drv.drain();
            if drv.got.len() >= total_calls { break }
            if Instant::now() >= deadline { terminated = false; break }
            std::thread::sleep(Duration::from_micros(300));
        }
        if !terminated {
            // cannot join blocked threads: leave the process (the caller reports the hang)
            eprintln!("fetch: threads blocked in schedule {idx}: {}", shape.join(" "));
            std::process::exit(3);
        }
        drop(go);
        drv.got
    });
    Gate::uninstall();
    drop(run);

    // ---- the oracle: the statement of C37, whatever the schedule did
    let events = env.log.take();
    let rsync_log = env.bed.take_rsync_log();
    let mut users: BTreeMap<&str, usize> = BTreeMap::new();
    for ks in calls.values() { for k in ks { *users.entry(k.as_str()).or_default() += 1; } }
    let mut observed_fetches = serde_json::Map::new();
    let mut refetched: BTreeSet<String> = BTreeSet::new();
    for (k, ke) in &env.keys {
        if !users.contains_key(k.as_str()) { continue }
        let starts = events.iter().filter(|e| e.1 == ke.fetch_uri && e.2 == "start").count();
        let logged = if tr == Transport::Rsync { rsync_log.iter().filter(|l| **l == ke.fetch_uri).count() } else { starts };
        observed_fetches.insert(k.clone(), json!(starts));
        rep.eval(pid);
        if starts > 1 || logged > 1 {
            refetched.insert(k.clone());
            rep.violation(pid, &format!("{}/double-fetch", tr.name()),
                format!("{} was fetched {} times in one run ({} users): {}", ke.fetch_uri, starts.max(logged), users[k.as_str()],
                        events.iter().filter(|e| e.1 == ke.fetch_uri).map(|e| format!("{}:{}", e.0, e.2)).collect::<Vec<_>>().join(" ")),
                brief.clone(), json!({"fetch_events": events.iter().map(|e| format!("{} {} {}", e.0, e.1, e.2)).collect::<Vec<_>>(),
                                      "rsync_log": rsync_log, "unrealised": unrealised}));
        }
        let model = b["fetches"][k].as_u64().unwrap_or(0) as usize;
        if unrealised.is_none() && model != starts {
            rep.divergence(pid, format!("{} schedule {idx}: model counts {model} fetches of {k}, the code did {starts}", tr.name()));
        }
    }
    for r in &got {
        rep.eval(pid);
        let ke = &env.keys[&r.key];
        // a second fetch of the same key (reported above) rewrites the local copy while others read it:
        // the data check would only repeat that finding
        let complete = matches!(&r.data, Ok(Some(d)) if *d == ke.obj) || refetched.contains(&r.key);
        if !complete || !r.finished || (tr == Transport::Rrdp) != r.via_rrdp {
            let what = match &r.data {
                Ok(Some(d)) => format!("{} bytes of data (published: {})", d.len(), ke.obj.len()),
                Ok(None) => "no data".to_string(),
                Err(e) => e.clone(),
            };
            rep.violation(pid, &format!("{}/returned-before-fetch-finished", tr.name()),
                format!("thread {} got its answer for {} with {what}; fetch finished at that time: {}", r.thread, ke.fetch_uri, r.finished),
                brief.clone(), json!({"fetch_events": events.iter().map(|e| format!("{} {} {}", e.0, e.1, e.2)).collect::<Vec<_>>(),
                                      "unrealised": unrealised}));
        }
    }
    rep.trace(pid);
    match &unrealised {
        None => {
            rep.add_note(pid, &format!("{}_schedules_followed_exactly", tr.name()), 1);
            if users.values().any(|n| *n > 1) { rep.nontrivial(pid, format!("{}|{}", tr.name(), shape.join(" "))); }
        }
        Some(why) => {
            rep.add_note(pid, &format!("{}_schedules_unrealised_{}", tr.name(), from), 1);
            if b["good"].as_bool() != Some(false) {
                rep.divergence(pid, format!("{} schedule {idx} ({from}) not realisable: {why}", tr.name()));
            }
        }
    }
    rep.sample(pid, json!({"behaviour": brief, "fetches": observed_fetches,
        "answers": got.iter().map(|r| format!("{}:{}:{}", r.thread, r.key, matches!(&r.data, Ok(Some(_))))).collect::<Vec<_>>()}));
    terminated
}

//------------ C37: free-running stress -------------------------------------------

#[allow(dead_code)]
fn shared_world(rrdp: bool, children: usize) -> World { shared_world_spelt(rrdp, children, false) }

/// `mixed`: every other CA writes the host of the shared module with capital letters (host names are case-insensitive:
/// one module, one fetch).
fn shared_world_spelt(rrdp: bool, children: usize, mixed: bool) -> World {
    let mut ta = Ca::new("ta", None, 0, "rsync://ta.verif.test/repo/ta/");
    ta.prefixes = vec!["10.0.0.0/8".into()];
    ta.asns = vec![(64000, 65000)];
    let mut cas = vec![ta];
    for i in 1..=children {
        let host = if mixed && i % 2 == 1 { "Shared.Verif.TEST" } else if mixed && i % 3 == 0 { "SHARED.verif.test" } else { "shared.verif.test" };
        let mut ca = Ca::new(&format!("c{i}"), Some(0), i % POOL_SIZE, &format!("rsync://{host}/repo/c{i}/"));
        ca.prefixes = vec![format!("10.{i}.0.0/16")];
        ca.serial = 100 + i as u64;
        if rrdp { ca.notify = Some("https://shared.verif.test/rrdp/notify.xml".into()); }
        ca.objects.push(Obj { name: format!("r{i}.roa"), kind: ObjKind::Roa { asn: 64500 + i as u32, prefixes: vec![(format!("10.{i}.0.0/16"), 16)] },
            serial: 11, validity: (-2, 48), fault: Fault::None });
        cas.push(ca);
    }
    World { tals: vec![Tal { name: "tal".into(), ca: 0, uris: vec![("rsync://ta.verif.test/repo/ta.cer".into(), TaVariant::Good)] }], cas }
}

fn stress(args: &Args, rep: &mut Report) -> i32 {
    let pid = "C37";
    let runs = args.opt_usize("runs", 200);
    let children = 6;
    let factory = Factory::new();
    let mut broken = 0;
    // the third mode: the RRDP repository answers 404 (no local copy: the CAs fall back to rsync); the failed
    // attempt counts as the one fetch of the run, every other CA has to find it recorded
    for (rrdp, available, mixed) in [(false, true, false), (true, true, false), (true, false, false), (false, true, true)] {
        let name = if mixed { "rsync-mixed-case" } else if !rrdp { "rsync" } else if available { "rrdp" } else { "rrdp-unavailable" };
        let bed = TestBed::new();
        let log = Arc::new(FetchLog::default());
        let world = shared_world_spelt(rrdp, children, mixed);
        let published = world.build(&factory);
        if mixed {
            // the server's tree is keyed by the host in lower case, whatever the certificates write
            let _ = published.write_rsync_tree_tolerant(&bed.pubdir);
            published.write_tals(&bed.tals);
        } else { bed.publish(&published); }
        let mut config = bed.config();
        let shared_key;
        if rrdp {
            config.disable_rrdp = false;
            let mut double = RrdpDouble::default();
            let files: Vec<(String, Bytes)> = published.files.iter().filter(|(u, _)| u.starts_with("rsync://shared.verif.test/"))
                .map(|(u, b)| (u.clone(), b.clone())).collect();
            if available { double.add("https://shared.verif.test/rrdp/notify.xml", &files); }
            install_http(Arc::new(double), &log);
            install_rsync(&bed, &log);
            shared_key = "https://shared.verif.test/rrdp/notify.xml".to_string();
        } else {
            install_rsync(&bed, &log);
            shared_key = "rsync://shared.verif.test/repo/".to_string();
        }
        let expect: BTreeSet<String> = (1..=children).map(|i| format!("10.{i}.0.0/16-16 AS{}", 64500 + i)).collect();
        for r in 0..runs {
            bed.wipe_cache();
            let _ = bed.take_rsync_log();
            let _ = log.take();
            config.validation_threads = 4 + (r % 5);
            let brief = json!({"mode": "stress", "transport": name, "run": r, "validation_threads": config.validation_threads,
                               "world": format!("TA + {children} CAs sharing {shared_key}")});
            let res = catch(std::panic::AssertUnwindSafe(|| run_once(&config, true, &LocalExceptions::empty())));
            let events = log.take();
            let rsync_log = bed.take_rsync_log();
            let mut per_uri: BTreeMap<String, usize> = BTreeMap::new();
            // scheme and host are case-insensitive: one repository whatever the spelling
            let canon = |u: &str| -> String {
                match u.find("://").and_then(|i| u[i + 3..].find('/').map(|j| i + 3 + j)) {
                    Some(k) => format!("{}{}", u[..k].to_ascii_lowercase(), &u[k..]), None => u.to_ascii_lowercase() }
            };
            for e in events.iter().filter(|e| e.2 == "start") { *per_uri.entry(canon(&e.1)).or_default() += 1; }
            let mut per_mod: BTreeMap<String, usize> = BTreeMap::new();
            for l in &rsync_log { *per_mod.entry(canon(l)).or_default() += 1; }
            for (u, n) in per_uri.iter().chain(per_mod.iter()) {
                rep.eval(pid);
                if *n > 1 {
                    rep.violation(pid, &format!("{}/double-fetch", if u.starts_with("https") { "rrdp" } else { "rsync" }),
                        format!("free-running validation: {u} was fetched {n} times in one run"), brief.clone(),
                        json!({"fetch_events": events.iter().map(|e| format!("{} {} {}", e.0, e.1, e.2)).collect::<Vec<_>>(), "rsync_log": rsync_log}));
                }
            }
            match res {
                Ok(Ok(run)) => {
                    rep.eval(pid);
                    let got: BTreeSet<String> = run.payload.origins.iter().cloned().collect();
                    if per_uri.get(&shared_key).copied().unwrap_or(0) == 0 {
                        broken += 1;
                        rep.divergence(pid, format!("stress {name} run {r}: the shared repository was not fetched at all"));
                    } else if got != expect && per_uri.values().chain(per_mod.values()).all(|n| *n <= 1) {
                        // (after a double fetch -- reported above -- the double rewrites the local copy under the readers)
                        // a CA whose thread read the repository before the single fetch had finished loses its ROA
                        rep.violation(pid, &format!("{name}/returned-before-fetch-finished"),
                            format!("free-running validation with an empty cache: VRPs {:?} missing although every CA's objects are published in {shared_key}",
                                    expect.difference(&got).collect::<Vec<_>>()), brief.clone(),
                            json!({"vrps": got, "fetch_events": events.iter().map(|e| format!("{} {} {}", e.0, e.1, e.2)).collect::<Vec<_>>()}));
                    }
                    rep.trace(pid);
                    rep.add_note(pid, &format!("stress_runs_{name}"), 1);
                    if r < 1 { rep.sample(pid, json!({"behaviour": brief, "fetches": per_uri, "vrps": got.len()})); }
                }
                Ok(Err(e)) => { broken += 1; rep.divergence(pid, format!("stress {name} run {r} failed: {e:?}")); }
                Err(p) => { broken += 1; rep.divergence(pid, format!("stress {name} run {r} panicked: {p}")); }
            }
        }
        rep.nontrivial(pid, format!("stress|{name}"));
    }
    verif::set_rsync_override(None);
    verif::set_http_override(None);
    if broken > 0 { eprintln!("fetch stress: {broken} runs did not work as a test"); return 3 }
    0
}

//------------ C31: the host table --------------------------------------------------

struct HostClass { class: String, auth: String, rsync_ok: bool, https_ok: bool }

fn hosts(args: &Args, rep: &mut Report) -> i32 {
    let pid = "C31";
    let rows = read_behaviours(args.input.as_deref().expect("--in"));
    let mut classes: Vec<HostClass> = Vec::new();
    for r in &rows {
        let class = r["class"].as_str().unwrap().to_string();
        if classes.iter().any(|c| c.class == class) { continue }
        let auth = r["auth"].as_str().unwrap().to_string();
        let idx = classes.len();
        classes.push(HostClass {
            rsync_ok: uri::Rsync::from_str(&format!("rsync://{auth}/m{idx}/ca/")).is_ok(),
            https_ok: uri::Https::from_str(&format!("https://{auth}/r{idx}/notify.xml")).is_ok(),
            class, auth,
        });
    }
    let factory = Factory::new();
    // TA + per class one CA with the class in caRepository and one with the class in rpkiNotify
    let mut ta = Ca::new("ta", None, 0, "rsync://ta.verif.test/repo/ta/");
    ta.prefixes = vec!["10.0.0.0/8".into()];
    ta.asns = vec![(64000, 65000)];
    let mut cas = vec![ta];
    for (idx, c) in classes.iter().enumerate() {
        if c.rsync_ok {
            let mut ca = Ca::new(&format!("a{idx}"), Some(0), 1 + (2 * idx) % (POOL_SIZE - 1), &format!("rsync://{}/m{idx}/ca/", c.auth));
            ca.prefixes = vec![format!("10.{idx}.0.0/17")];
            ca.serial = 1000 + idx as u64;
            cas.push(ca);
        }
        if c.https_ok {
            let mut ca = Ca::new(&format!("b{idx}"), Some(0), 1 + (2 * idx + 1) % (POOL_SIZE - 1), &format!("rsync://repo.verif.test/h{idx}/ca/"));
            ca.notify = Some(format!("https://{}/r{idx}/notify.xml", c.auth));
            ca.prefixes = vec![format!("10.{idx}.128.0/17")];
            ca.serial = 2000 + idx as u64;
            cas.push(ca);
        }
    }
    let world = World { tals: vec![Tal { name: "tal".into(), ca: 0, uris: vec![("rsync://ta.verif.test/repo/ta.cer".into(), TaVariant::Good)] }], cas };
    let bed = TestBed::new();
    bed.publish(&world.build(&factory));
    let log = Arc::new(FetchLog::default());
    install_rsync(&bed, &log);
    // every RRDP repository exists (a session at serial 1 with one object), so that a run that may ask leaves a copy
    let mut double = RrdpDouble::default();
    for (idx, c) in classes.iter().enumerate() {
        if !c.https_ok { continue }
        let obj = format!("rsync://rrdp-objects.verif.test/r{idx}/x.roa");
        double.add(&format!("https://{}/r{idx}/notify.xml", c.auth), &[(obj, Bytes::from_static(b"an object"))]);
    }
    install_http(Arc::new(double), &log);

    let thread_variants: Vec<usize> = if args.thorough() { vec![1, 2, 6] } else { vec![2] };
    let mut broken = 0;
    for threads in thread_variants {
        // requested[(allow, known, kind, idx)]; known = the run starts on the cache the run before (option on) left
        let mut requested: BTreeSet<(bool, bool, &'static str, usize)> = BTreeSet::new();
        let mut all_requests: BTreeMap<(bool, bool), Vec<String>> = BTreeMap::new();
        for (allow, known) in [(false, false), (true, false), (false, true), (true, true)] {
            if !known { bed.wipe_cache(); }
            else {
                // the copies must really be there
                let mut n = 0;
                fn count(dir: &std::path::Path, n: &mut usize) {
                    if let Ok(rd) = std::fs::read_dir(dir) { for e in rd.flatten() { let p = e.path(); if p.is_dir() { count(&p, n) } else { *n += 1 } } }
                }
                count(&bed.cache.join("rrdp"), &mut n);
                if n < classes.len() / 2 { eprintln!("fetch hosts: only {n} RRDP copies in the cache after the run with the option on"); broken += 1; }
            }
            let _ = bed.take_rsync_log();
            let _ = log.take();
            let mut config = bed.config();
            config.disable_rrdp = false;
            config.allow_dubious_hosts = allow;
            config.validation_threads = threads;
            let res = catch(std::panic::AssertUnwindSafe(|| run_once(&config, true, &LocalExceptions::empty())));
            if !matches!(res, Ok(Ok(_))) { eprintln!("fetch hosts: validation run failed (allow={allow})"); broken += 1; }
            let mut reqs: Vec<String> = bed.take_rsync_log();
            reqs.extend(log.take().into_iter().filter(|e| e.2 == "start").map(|e| e.1));
            reqs.sort(); reqs.dedup();
            for (idx, _) in classes.iter().enumerate() {
                if reqs.iter().any(|u| u.starts_with("rsync://") && u.ends_with(&format!("/m{idx}/"))) { requested.insert((allow, known, "caRepository", idx)); }
                if reqs.iter().any(|u| u.starts_with("https://") && u.ends_with(&format!("/r{idx}/notify.xml"))) { requested.insert((allow, known, "rpkiNotify", idx)); }
            }
            all_requests.insert((allow, known), reqs);
        }
        let mut observations = Vec::new();
        for r in &rows {
            let class = r["class"].as_str().unwrap();
            let idx = classes.iter().position(|c| c.class == class).unwrap();
            let c = &classes[idx];
            let kind: &'static str = if r["kind"] == "rpkiNotify" { "rpkiNotify" } else { "caRepository" };
            let allow = r["allow"].as_bool().unwrap();
            let known = r["known"].as_bool().unwrap_or(false);
            let parses = if kind == "rpkiNotify" { c.https_ok } else { c.rsync_ok };
            let uri_text = if kind == "rpkiNotify" { format!("https://{}/r{idx}/notify.xml", c.auth) } else { format!("rsync://{}/m{idx}/ca/", c.auth) };
            if parses != r["parses"].as_bool().unwrap() {
                rep.divergence(pid, format!("{uri_text}: the rpki URI parser {} it, the table says parses = {}", if parses { "accepts" } else { "refuses" }, r["parses"]));
            }
            if !parses {
                // the class cannot get into a certificate that routinator reads
                rep.add_note(pid, "rows_refused_by_the_uri_parser", 1);
                continue
            }
            let req = requested.contains(&(allow, known, kind, idx));
            let must_not = r["must_not"].as_bool().unwrap();
            rep.eval(pid);
            let brief = json!({"class": class, "authority": c.auth, "kind": kind, "uri": uri_text, "allow_dubious_hosts": allow,
                               "cache": if known { "left by a run with the option on" } else { "fresh" }, "validation_threads": threads});
            if must_not {
                rep.nontrivial(pid, format!("{kind}|{class}|{known}"));
                if req {
                    rep.violation(pid, &format!("{kind}/{class}{}", if known { "/known-repository" } else { "" }),
                        format!("allow-dubious-hosts off, yet a request was started for {uri_text} ({kind} of a CA certificate{})",
                            if known { "; the cache holds a copy from a run with the option on" } else { "" }),
                        brief.clone(), json!({"requests_of_the_run": all_requests[&(allow, known)]}));
                }
            }
            if !r["stated"].as_bool().unwrap() {
                if !known { observations.push(format!("{kind} {} allow={allow}: {}", c.auth, if req { "requested" } else { "not requested" })); }
            }
            if req != r["model_requests"].as_bool().unwrap() {
                rep.divergence(pid, format!("{uri_text} allow={allow}: code {} a request, the intended model {}",
                    if req { "started" } else { "did not start" }, if r["model_requests"].as_bool().unwrap() { "does" } else { "does not" }));
            }
            // reachability: with the filter off (or for an ordinary name) the request must show up, otherwise
            // the row proves nothing
            if (allow || class == "name") && !req { broken += 1; eprintln!("fetch hosts: {uri_text} not requested with allow={allow}: the world does not reach the fetch code"); }
            if class == "name" || class.starts_with("localhost_upper") { rep.sample(pid, json!({"row": brief, "requested": req, "must_not_fetch": must_not})); }
        }
        rep.note(pid, "observed_only", json!(observations));
        rep.trace(pid);
    }
    verif::set_rsync_override(None);
    verif::set_http_override(None);
    if broken > 0 { return 3 }
    0
}
