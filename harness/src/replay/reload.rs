//! Replay of `ExceptionsReload.tla` against a real `routinator server` child.
//!
//! A history: the state of the local exceptions file at start-up, then edits
//! of the file, each followed by SIGUSR1 (a validation run; it reloads the
//! file first).  The two readable versions assert different routes; `/json`
//! shows which assertion the served data set carries.  A server started on a
//! broken or missing file must exit.
//!
//! No listed property speaks about the reload: differences are divergences
//! (reported under C09, whose check runs this).

use std::path::Path;
use std::process::{Command, Stdio};
use std::sync::{Arc, Mutex};
use std::time::{Duration, Instant};
use serde_json::{json, Value};
use crate::common::{read_behaviours, Args, Report};
use crate::env::server::http_request;

const P: &str = "C09";

fn slurm(asn: u32, prefix: &str) -> String {
    json!({"slurmVersion": 1,
           "validationOutputFilters": {"prefixFilters": [], "bgpsecFilters": []},
           "locallyAddedAssertions": {"prefixAssertions": [{"asn": asn, "prefix": prefix, "comment": "verif"}], "bgpsecAssertions": []}}).to_string()
}

fn set_file(path: &Path, state: &str) {
    let tmp = path.with_extension("tmp");
    match state {
        "v1" => { std::fs::write(&tmp, slurm(64501, "10.1.0.0/16")).unwrap(); std::fs::rename(&tmp, path).unwrap(); }
        "v2" => { std::fs::write(&tmp, slurm(64502, "10.2.0.0/16")).unwrap(); std::fs::rename(&tmp, path).unwrap(); }
        "broken" => { std::fs::write(&tmp, "{ \"slurmVersion\": 1, \"validationOutputFilters\": ").unwrap(); std::fs::rename(&tmp, path).unwrap(); }
        "missing" => { let _ = std::fs::remove_file(path); }
        x => panic!("file state {x}"),
    }
}

fn lines(path: &Path) -> usize { std::fs::read_to_string(path).map(|s| s.lines().count()).unwrap_or(0) }

fn marker(port: u16) -> Option<String> {
    let r = http_request(port, "GET", "/json", &[], None, Duration::from_secs(5)).ok()?;
    if r.status != 200 { return None }
    let body = String::from_utf8_lossy(&r.body).into_owned();
    let (a, b) = (body.contains("10.1.0.0/16"), body.contains("10.2.0.0/16"));
    Some(match (a, b) { (true, false) => "v1", (false, true) => "v2", (false, false) => "none", _ => "both" }.to_string())
}

fn wait_for(limit: Duration, mut f: impl FnMut() -> bool) -> bool {
    let t = Instant::now();
    while t.elapsed() < limit { if f() { return true } std::thread::sleep(Duration::from_millis(20)); }
    false
}

/// Ok(difference from the specification, or empty).
fn one(row: &Value) -> Result<String, String> {
    use nix::sys::signal::{kill, Signal};
    use nix::unistd::Pid;
    let dir = tempfile::Builder::new().prefix("vh-reload-").tempdir().map_err(|e| e.to_string())?;
    let cache = dir.path().join("cache");
    let tals = dir.path().join("tals");
    std::fs::create_dir_all(&cache).unwrap();
    std::fs::create_dir_all(&tals).unwrap();
    let exc = dir.path().join("exceptions.json");
    set_file(&exc, row["first"].as_str().unwrap());
    let runlog = dir.path().join("runs.log");
    let port = std::net::TcpListener::bind("127.0.0.1:0").and_then(|l| l.local_addr()).map_err(|e| e.to_string())?.port();
    let argv: Vec<String> = vec![
        "routinator".into(), "--repository-dir".into(), cache.to_string_lossy().into(),
        "--no-rir-tals".into(), "--extra-tals-dir".into(), tals.to_string_lossy().into(),
        "--disable-rsync".into(), "--disable-rrdp".into(), "-qq".into(),
        "--exceptions".into(), exc.to_string_lossy().into(),
        "server".into(), "--refresh".into(), "3600".into(), "--http".into(), format!("127.0.0.1:{port}"),
    ];
    let argv_file = dir.path().join("argv.json");
    std::fs::write(&argv_file, serde_json::to_string(&argv).unwrap()).unwrap();
    let exe = std::env::current_exe().map_err(|e| e.to_string())?;
    let mut child = Command::new(exe).arg("runloop").arg("--opt").arg(format!("child={}", argv_file.display()))
        .env("VERIF_OUTCOMES", "ok").env("VERIF_RUNLOG", &runlog).current_dir(dir.path())
        .stdout(Stdio::null()).stderr(Stdio::null()).spawn().map_err(|e| e.to_string())?;
    let pid = Pid::from_raw(child.id() as i32);
    let res = (|| -> Result<String, String> {
        if !row["starts"].as_bool().unwrap() {
            // must exit by itself, with an error, without ever serving
            let mut status = None;
            let exited = wait_for(Duration::from_secs(15), || { status = child.try_wait().ok().flatten(); status.is_some() });
            if !exited { return Ok(format!("started on a file that is {}, the specification refuses to start", row["first"])) }
            if status.map(|s| s.success()).unwrap_or(false) { return Ok("exited with status 0 on an unreadable exceptions file".into()) }
            return Ok(String::new())
        }
        if !wait_for(Duration::from_secs(30), || lines(&runlog) >= 2) {
            return match child.try_wait() { Ok(Some(s)) => Ok(format!("the server exited at start-up ({s})")), _ => Err("the first two runs did not start".into()) }
        }
        let first = row["first"].as_str().unwrap().to_string();
        let mut seen = None;
        if !wait_for(Duration::from_secs(10), || { seen = marker(port); seen.as_deref() == Some(first.as_str()) }) {
            return Ok(format!("after the start the served data carries {:?}, the specification says {first}", seen))
        }
        for (k, step) in row["steps"].as_array().unwrap().iter().enumerate() {
            let want = step["served"].as_str().unwrap().to_string();
            set_file(&exc, step["file"].as_str().unwrap());
            let n = lines(&runlog);
            kill(pid, Signal::SIGUSR1).map_err(|e| e.to_string())?;
            if !wait_for(Duration::from_secs(10), || lines(&runlog) > n) { return Err(format!("step {}: SIGUSR1 started no run", k + 1)) }
            // the run itself takes milliseconds (no TALs); then the served assertion must be the expected one and stay
            std::thread::sleep(Duration::from_millis(300));
            let mut seen = None;
            if !wait_for(Duration::from_secs(5), || { seen = marker(port); seen.as_deref() == Some(want.as_str()) }) {
                return Ok(format!("step {} (file {}): the served data carries {:?}, the specification says {want}", k + 1, step["file"], seen))
            }
            if !matches!(child.try_wait(), Ok(None)) { return Ok(format!("step {}: the server exited", k + 1)) }
        }
        Ok(String::new())
    })();
    let _ = child.kill();
    let _ = child.wait();
    res
}

pub fn main(args: &Args) -> i32 {
    let rows = read_behaviours(args.input.as_deref().expect("--in"));
    let mut rep = Report::new("reload");
    rep.touch(P);
    let work = Arc::new(Mutex::new(rows.iter()));
    let results: Arc<Mutex<Vec<(String, Result<String, String>)>>> = Arc::new(Mutex::new(Vec::new()));
    std::thread::scope(|scope| {
        for _ in 0..args.opt_usize("jobs", 6) {
            let (work, results) = (work.clone(), results.clone());
            scope.spawn(move || loop {
                let row = match work.lock().unwrap().next() { Some(r) => r, None => break };
                let r = one(row);
                results.lock().unwrap().push((row.to_string(), r));
            });
        }
    });
    let mut differ = 0u64;
    let mut unrun = 0u64;
    for (row, r) in results.lock().unwrap().iter() {
        match r {
            Ok(d) if d.is_empty() => {}
            Ok(d) => { differ += 1; rep.divergence(P, format!("ExceptionsReload history {row}: {d}")); }
            Err(e) => { unrun += 1; rep.divergence(P, format!("ExceptionsReload history {row} could not be run: {e}")); }
        }
    }
    rep.note(P, "reload_histories", json!(rows.len()));
    rep.note(P, "reload_histories_differing_from_ExceptionsReload", json!(differ));
    rep.note(P, "reload_histories_not_run", json!(unrun));
    rep.write(args)
}
