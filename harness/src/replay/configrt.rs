//! Replay of `Gen_ConfigRT` behaviours against the real configuration code
//! of Routinator (property C35: the printed configuration reads back
//! identically).
//!
//! A behaviour lists settings abstractly: `(option, class, source)` with
//! source `file` (an entry of the initial config file given with `-c`) or
//! `cli` (a command line option).  It is concretised through the dictionary
//! below and pushed through the code path of the binary:
//!
//!   argv -> clap `Command` built as in `main.rs`
//!        -> `Config::from_arg_matches` -> `Operation::from_arg_matches`
//!           (for `config`: `apply_server_arg_matches`)
//!        -> `println!("{}", config)` as `PrintConfig::run` does
//!        -> file -> `routinator -c <file> config` through the same path
//!        -> field-by-field comparison of the two `Config`s.
//!
//! Oracle = the property: the printed file must be accepted and every field
//! the file reader can set must be equal (everything except `config_file`
//! and the command-line-only one-shot switch `fresh`).  A command line (or
//! initial file) the real code refuses is not a test case.

use std::collections::BTreeMap;
use std::ffi::OsString;
use std::os::unix::ffi::{OsStrExt, OsStringExt};
use std::path::{Path, PathBuf};
use std::sync::Mutex;
use serde_json::{json, Value};
use routinator::{Config, Operation};
use crate::common::{catch, read_behaviours, Args, Report};

const PID: &str = "C35";

//------------ capturing logger -----------------------------------------------

struct Capture;
static LOGGED: Mutex<Vec<String>> = Mutex::new(Vec::new());

impl log::Log for Capture {
    fn enabled(&self, _: &log::Metadata) -> bool { true }
    fn log(&self, record: &log::Record) {
        if record.level() <= log::Level::Warn {
            if let Ok(mut l) = LOGGED.lock() {
                if l.len() < 50 { l.push(format!("{}", record.args())) }
            }
        }
    }
    fn flush(&self) {}
}

fn take_log() -> Vec<String> {
    LOGGED.lock().map(|mut l| std::mem::take(&mut *l)).unwrap_or_default()
}

//------------ the dictionary: class -> concrete text --------------------------

struct Env {
    /// Directory all absolute paths live in.
    base: PathBuf,
    /// The current directory handed to `from_arg_matches`.
    cwd: PathBuf,
    /// The printed default configuration is refused: every other refusal is
    /// attributed to that one cause.
    defaults_refused: bool,
}

#[derive(Clone, Debug)]
struct Setting {
    o: String,
    c: String,
    src: String,
    kind: String,
    flag: String,
    pos: String,
}

impl Setting {
    fn from_json(v: &Value) -> Self {
        let s = |k: &str| v[k].as_str().unwrap_or_else(|| panic!("setting without {k}: {v}")).to_string();
        Setting { o: s("o"), c: s("c"), src: s("src"), kind: s("kind"), flag: s("flag"), pos: s("pos") }
    }
    fn label(&self) -> String {
        if self.src == "file" { format!("file:{}", self.c) } else { self.c.clone() }
    }
}

fn int_value(key: &str, kind: &str, class: &str) -> String {
    let typ = 1000 + key.bytes().map(|b| b as u64).sum::<u64>() % 5000;
    if kind == "u8_lim" {
        let lim: u64 = if key == "limit-v4-len" { 32 } else { 128 };
        return match class {
            "0" => "0".into(), "1" => "1".into(),
            "typ" => (if lim == 32 { 24 } else { 48 }).to_string(),
            "lim" => lim.to_string(), "lim1" => (lim + 1).to_string(), "256" => "256".into(),
            x => panic!("u8 class {x}"),
        }
    }
    match class {
        "neg" => "-1".into(),
        "0" => "0".into(),
        "1" => "1".into(),
        "typ" => typ.to_string(),
        "u16max" => "65535".into(),
        "u16max1" => "65536".into(),
        "2p31" => "2147483648".into(),
        "i64max" => "9223372036854775807".into(),
        "i64max1" => "9223372036854775808".into(),
        "u64max" => "18446744073709551615".into(),
        "over" => "18446744073709551616".into(),
        x => panic!("integer class {x}"),
    }
}

fn str_value(key: &str, class: &str) -> Vec<u8> {
    match class {
        "typ" => format!("v-{key}").into_bytes(),
        "empty" => Vec::new(),
        "dquote" => b"say \"hi\" to \"".to_vec(),
        "squote" => b"it's 'quoted'".to_vec(),
        "backslash" => b"C:\\dir\\new\\\\x\\".to_vec(),
        "nonascii" => "z\u{fc}rich-\u{65e5}\u{672c}-\u{1f980}".as_bytes().to_vec(),
        "ctrl" => b"a\nb\tc\x01d\x7fe\rf\x1b[0m".to_vec(),
        "mixed" => b" '''\"\"\"\\ #=[]{} , ".to_vec(),
        "nonutf8" => b"nu\xff\xfe".to_vec(),
        x => panic!("string class {x}"),
    }
}

const SPECIAL_STRS: &[&str] = &["dquote", "squote", "backslash", "nonascii", "ctrl", "mixed", "empty"];

fn str_list(key: &str, class: &str) -> Vec<Vec<u8>> {
    match class {
        "empty" => vec![],
        "one" => vec![format!("one-{key}").into_bytes()],
        "several" => vec![format!("b-{key}").into_bytes(), format!("a-{key}").into_bytes(), format!("b-{key}").into_bytes(),
                          format!("c-{key}").into_bytes()],
        "special" => SPECIAL_STRS.iter().map(|c| str_value(key, c)).collect(),
        x => panic!("list class {x}"),
    }
}

impl Env {
    fn abs(&self, name: &[u8]) -> Vec<u8> {
        let mut v = self.base.as_os_str().as_bytes().to_vec();
        v.push(b'/');
        v.extend_from_slice(name);
        v
    }

    fn path_value(&self, key: &str, class: &str) -> Vec<u8> {
        match class {
            "typ" => self.abs(format!("p-{key}").as_bytes()),
            "rel" => format!("rel/{key}/../x-{key}").into_bytes(),
            "empty" => Vec::new(),
            "special" => self.abs("sp \"q\" 'a' \\ \u{fc}\u{65e5}\u{672c} #x".as_bytes()),
            "ctrl" => self.abs(b"c\nt\tx\x01"),
            "nonutf8" => self.abs(format!("nu-{key}-").as_bytes()).into_iter().chain([0xff, 0xfe]).collect(),
            x => panic!("path class {x}"),
        }
    }

    fn path_list(&self, key: &str, class: &str) -> Vec<Vec<u8>> {
        match class {
            "empty" => vec![],
            "one" | "string" => vec![self.abs(format!("one-{key}").as_bytes())],
            "several" => vec![self.abs(format!("b-{key}").as_bytes()), self.abs(format!("a-{key}").as_bytes()),
                              self.abs(format!("b-{key}").as_bytes()), self.abs(format!("c-{key}").as_bytes())],
            "special" => ["rel", "special", "ctrl"].iter().map(|c| self.path_value(key, c)).collect(),
            "nonutf8" => vec![self.path_value(key, "typ"), self.path_value(key, "nonutf8")],
            x => panic!("path list class {x}"),
        }
    }
}

fn addr_list(class: &str) -> Vec<&'static str> {
    match class {
        "empty" => vec![],
        "one_v4" => vec!["192.0.2.4:323"],
        "one_v6" => vec!["[2001:db8::4]:323"],
        "several" => vec!["[2001:db8::4]:8323", "192.0.2.4:3323", "192.0.2.4:3323", "127.0.0.1:9556"],
        "edges" => vec!["0.0.0.0:0", "255.255.255.255:65535", "[::]:0", "[::ffff:192.0.2.1]:8080",
                        "[fe80::1%3]:1", "[2001:db8:0:0:1:0:0:1]:65535"],
        "bogus" => vec!["192.0.2.4"],
        x => panic!("addr list class {x}"),
    }
}

fn addr_value(class: &str) -> &'static str {
    match class {
        "v4" => "192.0.2.9",
        "v6" => "2001:db8::9",
        "v4mapped" => "::ffff:192.0.2.1",
        "bogus" => "192.0.2.256",
        x => panic!("addr class {x}"),
    }
}

fn os(bytes: Vec<u8>) -> OsString { OsString::from_vec(bytes) }

/// Command line arguments for one setting.
fn cli_args(env: &Env, s: &Setting) -> Vec<OsString> {
    let flag = || OsString::from(&s.flag);
    let rep = |vals: Vec<Vec<u8>>| -> Vec<OsString> {
        vals.into_iter().flat_map(|v| [flag(), os(v)]).collect()
    };
    match s.kind.as_str() {
        "switch" => vec![flag()],
        "u64" | "u64_zero_none" | "u64_opt" | "usize" | "small_usize" | "u8_lim" => {
            vec![flag(), int_value(&s.o, &s.kind, &s.c).into()]
        }
        "policy" | "fallback" => vec![flag(), OsString::from(&s.c)],
        "path" | "optpath" => vec![flag(), os(env.path_value(&s.o, &s.c))],
        "pathlist" => rep(env.path_list(&s.o, &s.c)),
        "str" | "optstr" => vec![flag(), os(str_value(&s.o, &s.c))],
        "strlist" => rep(str_list(&s.o, &s.c)),
        "addrlist" => rep(addr_list(&s.c).into_iter().map(|a| a.as_bytes().to_vec()).collect()),
        "optaddr" => vec![flag(), addr_value(&s.c).into()],
        "loglevel" => match s.c.as_str() {
            "v" => vec!["-v".into()],
            "vv" => vec!["-v".into(), "--verbose".into()],
            "q" => vec!["--quiet".into()],
            "qq" => vec!["-qq".into()],
            x => panic!("loglevel class {x}"),
        },
        "log" => match s.c.as_str() {
            "syslog" => vec!["--syslog".into()],
            "logfile" => vec!["--logfile".into(), os(env.path_value("log-file", "typ"))],
            "logfile_special" => vec!["--logfile".into(), os(env.path_value("log-file", "special"))],
            "logfile_rel" => vec!["--logfile".into(), os(env.path_value("log-file", "rel"))],
            "dash" => vec!["--logfile".into(), "-".into()],
            "faconly" => vec!["--syslog-facility".into(), "local2".into()],
            c if c.starts_with("fac_") => vec!["--syslog".into(), "--syslog-facility".into(), c[4..].into()],
            x => panic!("log class {x}"),
        },
        k => panic!("kind {k} has no command line form"),
    }
}

/// A TOML basic string written by hand (independent of toml_edit).
fn toml_str(bytes: &[u8]) -> String {
    let s = std::str::from_utf8(bytes).expect("config files are UTF-8");
    let mut out = String::from("\"");
    for ch in s.chars() {
        match ch {
            '"' => out.push_str("\\\""),
            '\\' => out.push_str("\\\\"),
            '\n' => out.push_str("\\n"),
            '\t' => out.push_str("\\t"),
            '\r' => out.push_str("\\r"),
            c if (c as u32) < 0x20 || c as u32 == 0x7f => out.push_str(&format!("\\u{:04X}", c as u32)),
            c => out.push(c),
        }
    }
    out.push('"');
    out
}

fn toml_arr(items: Vec<Vec<u8>>) -> String {
    format!("[{}]", items.iter().map(|i| toml_str(i)).collect::<Vec<_>>().join(", "))
}

/// Lines of the initial config file for one setting.
fn file_lines(env: &Env, s: &Setting) -> Vec<(String, String)> {
    let key = s.o.clone();
    match s.kind.as_str() {
        "switch" => vec![(key, s.c.clone())],
        "u64" | "u64_zero_none" | "u64_opt" | "usize" | "small_usize" | "u8_lim" => {
            vec![(key, int_value(&s.o, &s.kind, &s.c))]
        }
        "policy" | "fallback" => vec![(key, toml_str(s.c.as_bytes()))],
        "path" | "optpath" | "obsolete" => vec![(key, toml_str(&env.path_value(&s.o, &s.c)))],
        "pathlist" => {
            if s.c == "string" { vec![(key, toml_str(&env.path_list(&s.o, "one")[0]))] }
            else { vec![(key, toml_arr(env.path_list(&s.o, &s.c)))] }
        }
        "str" | "optstr" => vec![(key, toml_str(&str_value(&s.o, &s.c)))],
        "strlist" | "optstrlist" => vec![(key, toml_arr(str_list(&s.o, &s.c)))],
        "map" => {
            let pairs: Vec<(Vec<u8>, Vec<u8>)> = match s.c.as_str() {
                "empty" => vec![],
                "one" => vec![(b"ripe.tal".to_vec(), b"RIPE".to_vec())],
                "several" => vec![(b"b.tal".to_vec(), b"same".to_vec()), (b"a.tal".to_vec(), b"same".to_vec()),
                                  (b"c.tal".to_vec(), b"".to_vec())],
                "special" => SPECIAL_STRS.iter().map(|c| (str_value(&s.o, c), str_value(&s.o, c))).collect(),
                x => panic!("map class {x}"),
            };
            vec![(key, format!("[{}]", pairs.iter().map(|(l, r)| format!("[{}, {}]", toml_str(l), toml_str(r)))
                .collect::<Vec<_>>().join(", ")))]
        }
        "addrlist" => vec![(key, toml_arr(addr_list(&s.c).into_iter().map(|a| a.as_bytes().to_vec()).collect()))],
        "optaddr" => vec![(key, toml_str(addr_value(&s.c).as_bytes()))],
        "loglevel" => vec![(key, toml_str(if s.c == "mixedcase" { b"InFo" } else { s.c.as_bytes() }))],
        "log" => {
            let q = |x: &str| toml_str(x.as_bytes());
            match s.c.as_str() {
                "f_stderr" => vec![("log".into(), q("stderr"))],
                "f_file" => vec![("log".into(), q("file")),
                                 ("log-file".into(), toml_str(&env.path_value("log-file", "typ")))],
                "f_syslog" => vec![("log".into(), q("syslog")), ("syslog-facility".into(), q("local5"))],
                "f_default" => vec![("log".into(), q("default")), ("syslog-facility".into(), q("local3"))],
                "f_faconly" => vec![("syslog-facility".into(), q("mail"))],
                "f_clock" => vec![("log".into(), q("syslog")), ("syslog-facility".into(), q("clock_daemon"))],
                x => panic!("log file class {x}"),
            }
        }
        k => panic!("kind {k} has no file form"),
    }
}

//------------ running the real code -------------------------------------------

/// The clap command exactly as `main.rs` builds it.
fn command() -> clap::Command {
    Operation::config_args(Config::config_args(
        clap::Command::new("Routinator")
            .version("verif")
            .author("verif")
            .about("collects and processes RPKI repository data")
    ))
}

/// argv -> Config, as `_main` in main.rs does up to `operation.run`.
pub(crate) fn build(argv: &[OsString], cur_dir: &Path) -> Result<Config, String> {
    let matches = command().try_get_matches_from(argv).map_err(|e| format!("command line: {:?}", e.kind()))?;
    let mut config = Config::from_arg_matches(&matches, cur_dir)
        .map_err(|_| "Config::from_arg_matches failed".to_string())?;
    Operation::from_arg_matches(&matches, cur_dir, &mut config)
        .map_err(|_| "Operation::from_arg_matches failed".to_string())?;
    Ok(config)
}

struct Concrete {
    argv: Vec<OsString>,
    initial: Option<String>,
}

fn concretise(env: &Env, sets: &[Setting]) -> Concrete {
    let mut globals: Vec<OsString> = Vec::new();
    let mut servers: Vec<OsString> = Vec::new();
    let mut lines: Vec<(String, String)> = Vec::new();
    for s in sets {
        if s.src == "file" {
            lines.extend(file_lines(env, s));
        }
        else if s.pos == "server" {
            servers.extend(cli_args(env, s));
        }
        else {
            globals.extend(cli_args(env, s));
        }
    }
    let mut argv: Vec<OsString> = vec!["routinator".into()];
    let mut initial = None;
    if sets.iter().any(|s| s.src == "file") {
        if !lines.iter().any(|(k, _)| k == "repository-dir") {
            // mandatory key of a config file
            lines.insert(0, ("repository-dir".into(), toml_str(&env.abs(b"cache-of-initial-file"))));
        }
        let text: String = lines.iter().map(|(k, v)| format!("{k} = {v}\n")).collect();
        initial = Some(text);
        argv.push("--config".into());
        argv.push(env.base.join("initial.conf").into());
    }
    argv.extend(globals);
    argv.push("config".into());
    argv.extend(servers);
    Concrete { argv, initial }
}

enum Outcome {
    /// The real code refused the command line or the initial file.
    NotAccepted(String),
    /// The printed file was refused.
    Rejected { printed: String, errors: Vec<String> },
    /// Both configurations exist.
    Read { printed: String, first: Box<Config>, second: Box<Config> },
}

fn roundtrip(env: &Env, c: &Concrete) -> Outcome {
    if let Some(text) = c.initial.as_ref() {
        std::fs::write(env.base.join("initial.conf"), text).expect("write initial.conf");
    }
    take_log();
    let first = match build(&c.argv, &env.cwd) {
        Ok(cfg) => cfg,
        Err(why) => return Outcome::NotAccepted(format!("{why}; {}", take_log().join(" | "))),
    };
    // PrintConfig::run: println!("{}", process.config())
    let printed = format!("{}\n", first);
    let out = env.base.join("printed.conf");
    std::fs::write(&out, &printed).expect("write printed.conf");
    take_log();
    let argv2: Vec<OsString> = vec!["routinator".into(), "-c".into(), out.into(), "config".into()];
    match build(&argv2, &env.cwd) {
        Ok(second) => Outcome::Read { printed, first: Box::new(first), second: Box::new(second) },
        Err(why) => {
            let mut errors = take_log();
            errors.insert(0, why);
            Outcome::Rejected { printed, errors }
        }
    }
}

/// Field-by-field comparison.  Returns (config file key, first, second) for
/// every field that differs.  The destructuring is exhaustive on purpose: a
/// new field of `Config` must be classified here.
fn diff(a: &Config, b: &Config) -> Vec<(&'static str, String, String)> {
    let Config {
        config_file: _, // the path of the file itself: differs by construction
        cache_dir, no_rir_tals, bundled_tals, extra_tals_dir, exceptions, strict, stale, unsafe_vrps,
        unknown_objects, limit_v4_len, limit_v6_len, allow_dubious_hosts,
        fresh: _, // command line only, one-shot action (DESIGN section 4, C35)
        disable_rsync, rsync_command, rsync_args, rsync_timeout, disable_rrdp, rrdp_fallback,
        rrdp_fallback_time, rrdp_max_delta_count, rrdp_max_delta_list_len, rrdp_timeout, rrdp_read_timeout,
        rrdp_connect_timeout, rrdp_tcp_keepalive, rrdp_local_addr, rrdp_root_certs, rrdp_proxies,
        rrdp_user_agent, max_object_size, max_ca_depth, enable_bgpsec, enable_aspa, dirty_repository,
        validation_threads, refresh, min_refresh, retry, expire, history_size, rtr_listen, rtr_tls_listen,
        http_listen, http_tls_listen, systemd_listen, rtr_tcp_keepalive, rtr_client_metrics, rtr_tls_key,
        rtr_tls_cert, http_tls_key, http_tls_cert, log_level, log_target, log_repository_issues, pid_file,
        working_dir, chroot, user, group, tal_labels,
    } = a;
    let mut res = Vec::new();
    macro_rules! cmp {
        ($key:expr, $field:ident) => {
            if *$field != b.$field {
                res.push(($key, format!("{:?}", $field), format!("{:?}", b.$field)));
            }
        };
    }
    cmp!("repository-dir", cache_dir);
    cmp!("no-rir-tals", no_rir_tals);
    cmp!("tals", bundled_tals);
    cmp!("extra-tals-dir", extra_tals_dir);
    cmp!("exceptions", exceptions);
    cmp!("strict", strict);
    cmp!("stale", stale);
    cmp!("unsafe-vrps", unsafe_vrps);
    cmp!("unknown-objects", unknown_objects);
    cmp!("limit-v4-len", limit_v4_len);
    cmp!("limit-v6-len", limit_v6_len);
    cmp!("allow-dubious-hosts", allow_dubious_hosts);
    cmp!("disable-rsync", disable_rsync);
    cmp!("rsync-command", rsync_command);
    cmp!("rsync-args", rsync_args);
    cmp!("rsync-timeout", rsync_timeout);
    cmp!("disable-rrdp", disable_rrdp);
    cmp!("rrdp-fallback", rrdp_fallback);
    cmp!("rrdp-fallback-time", rrdp_fallback_time);
    cmp!("rrdp-max-delta-count", rrdp_max_delta_count);
    cmp!("rrdp-max-delta-list-len", rrdp_max_delta_list_len);
    cmp!("rrdp-timeout", rrdp_timeout);
    cmp!("rrdp-read-timeout", rrdp_read_timeout);
    cmp!("rrdp-connect-timeout", rrdp_connect_timeout);
    cmp!("rrdp-tcp-keepalive", rrdp_tcp_keepalive);
    cmp!("rrdp-local-addr", rrdp_local_addr);
    cmp!("rrdp-root-certs", rrdp_root_certs);
    cmp!("rrdp-proxies", rrdp_proxies);
    cmp!("rrdp-user-agent", rrdp_user_agent);
    cmp!("max-object-size", max_object_size);
    cmp!("max-ca-depth", max_ca_depth);
    cmp!("enable-bgpsec", enable_bgpsec);
    cmp!("enable-aspa", enable_aspa);
    cmp!("dirty", dirty_repository);
    cmp!("validation-threads", validation_threads);
    cmp!("refresh", refresh);
    cmp!("min-refresh", min_refresh);
    cmp!("retry", retry);
    cmp!("expire", expire);
    cmp!("history-size", history_size);
    cmp!("rtr-listen", rtr_listen);
    cmp!("rtr-tls-listen", rtr_tls_listen);
    cmp!("http-listen", http_listen);
    cmp!("http-tls-listen", http_tls_listen);
    cmp!("systemd-listen", systemd_listen);
    cmp!("rtr-tcp-keepalive", rtr_tcp_keepalive);
    cmp!("rtr-client-metrics", rtr_client_metrics);
    cmp!("rtr-tls-key", rtr_tls_key);
    cmp!("rtr-tls-cert", rtr_tls_cert);
    cmp!("http-tls-key", http_tls_key);
    cmp!("http-tls-cert", http_tls_cert);
    cmp!("log-level", log_level);
    cmp!("log", log_target);
    cmp!("log-repository-issues", log_repository_issues);
    cmp!("pid-file", pid_file);
    cmp!("working-dir", working_dir);
    cmp!("chroot", chroot);
    cmp!("user", user);
    cmp!("group", group);
    cmp!("tal-labels", tal_labels);
    res
}

/// argv for reports (non-UTF-8 arguments are escaped).
fn lossy(argv: &[OsString]) -> Vec<String> {
    argv.iter().map(|a| match a.to_str() {
        Some(s) => s.to_string(),
        None => format!("(bytes) {}", a.as_bytes().iter().map(|b| {
            if b.is_ascii_graphic() || *b == b' ' { (*b as char).to_string() } else { format!("\\x{b:02x}") }
        }).collect::<String>()),
    }).collect()
}

fn printed_lines<'a>(printed: &'a str, key: &str) -> Vec<&'a str> {
    let keys: Vec<&str> = if key == "log" { vec!["log", "syslog-facility", "log-file"] } else { vec![key] };
    printed.lines().filter(|l| keys.iter().any(|k| l.starts_with(&format!("{k} =")))).collect()
}

//------------ main ------------------------------------------------------------

pub fn main(args: &Args) -> i32 {
    let mut rep = Report::new("configrt");
    rep.touch(PID);
    let _ = log::set_logger(&Capture);
    log::set_max_level(log::LevelFilter::Warn);

    let tmp = tempfile::tempdir().expect("tempdir");
    let base = tmp.path().canonicalize().expect("canonical tempdir").join("rt");
    let home = base.join("home");
    let cwd = base.join("cwd");
    std::fs::create_dir_all(&home).unwrap();
    std::fs::create_dir_all(&cwd).unwrap();
    // Hermetic default configuration: $HOME/.routinator.conf does not exist.
    std::env::set_var("HOME", &home);
    let mut env = Env { base, cwd, defaults_refused: false };
    if let Outcome::Rejected { .. } = roundtrip(&env, &concretise(&env, &[])) {
        env.defaults_refused = true;
    }

    let mut behaviours = read_behaviours(args.input.as_deref().expect("--in"));
    // smallest behaviours first, so that the behaviour kept for a signature is a minimal one
    behaviours.sort_by_key(|b| b["sets"].as_array().map(|a| a.len()).unwrap_or(0));
    let mut skipped: BTreeMap<String, u64> = BTreeMap::new();
    let mut accept_mismatch: Vec<String> = Vec::new();
    for b in behaviours.iter() {
        let res = catch(std::panic::AssertUnwindSafe(|| one(&mut rep, &env, b, &mut skipped, &mut accept_mismatch)));
        if let Err(msg) = res {
            // The property does not talk about panics, but a configuration that was accepted
            // and cannot be printed / read back without a crash does not round-trip either.
            rep.violation(PID, "roundtrip/-/panic", format!("panic while building, printing or reading a configuration: {msg}"),
                b.clone(), json!({"panic": msg}));
        }
    }
    rep.note(PID, "not_a_test_case", json!(skipped.values().sum::<u64>()));
    rep.note(PID, "not_accepted_classes", json!(skipped.keys().cloned().collect::<Vec<_>>()));
    rep.note(PID, "accept_mismatch", json!(accept_mismatch));
    rep.write(args)
}

fn one(rep: &mut Report, env: &Env, b: &Value, skipped: &mut BTreeMap<String, u64>, accept_mismatch: &mut Vec<String>) {
    let mut sets: Vec<Setting> = b["sets"].as_array().expect("sets").iter().map(Setting::from_json).collect();
    sets.sort_by(|x, y| (&x.o, &x.src).cmp(&(&y.o, &y.src)));
    let model_accept = b["accept"].as_bool().unwrap_or(true);
    let model_rejected = b["rejected"].as_bool().unwrap_or(false);
    let mut model_lost: Vec<String> = b["lost"].as_array().map(|a| a.iter().filter_map(|x| x.as_str().map(String::from)).collect())
        .unwrap_or_default();
    model_lost.sort();
    let name = sets.iter().map(|s| format!("{}={}@{}", s.o, s.c, s.src)).collect::<Vec<_>>().join(",");
    let conc = concretise(env, &sets);
    let outcome = roundtrip(env, &conc);
    rep.trace(PID);

    let observed = |printed: Option<&str>, extra: Value| -> Value {
        json!({
            "argv": lossy(&conc.argv),
            "initial_config_file": conc.initial,
            "printed": printed,
            "detail": extra,
        })
    };
    let label_of = |key: &str| -> String {
        sets.iter().find(|s| s.o == key && s.src == "cli")
            .or_else(|| sets.iter().find(|s| s.o == key))
            .map(|s| s.label()).unwrap_or_else(|| "unset".into())
    };

    match outcome {
        Outcome::NotAccepted(why) => {
            *skipped.entry(name.clone()).or_insert(0) += 1;
            if model_accept && accept_mismatch.len() < 20 {
                accept_mismatch.push(format!("{name}: the model expects these settings to be accepted, the code refuses: {why}"));
            }
        }
        Outcome::Rejected { printed, errors } => {
            rep.eval(PID);
            rep.nontrivial(PID, format!("refused: {printed}"));
            if !model_accept {
                rep.divergence(PID, format!("{name}: accepted by the code, refused in the model"));
            }
            if !model_rejected {
                rep.divergence(PID, format!("{name}: printed file refused by the code, accepted in the model"));
            }
            // Whom to blame: every single setting whose own printed file is refused; the
            // combination if there is none.
            let mut blamed: Vec<&Setting> = Vec::new();
            if sets.len() > 1 && !env.defaults_refused {
                for s in &sets {
                    let c1 = concretise(env, std::slice::from_ref(s));
                    if let Outcome::Rejected { .. } = roundtrip(env, &c1) { blamed.push(s) }
                }
            }
            let sigs: Vec<String> = if sets.is_empty() || env.defaults_refused {
                vec!["roundtrip/-/defaults".into()]
            }
            else if sets.len() == 1 {
                vec![format!("roundtrip/{}/{}", sets[0].o, sets[0].label())]
            }
            else if blamed.is_empty() {
                vec![format!("roundtrip/{}/{}", sets.iter().map(|s| s.o.clone()).collect::<Vec<_>>().join("+"),
                             sets.iter().map(|s| s.label()).collect::<Vec<_>>().join("+"))]
            }
            else {
                blamed.iter().map(|s| format!("roundtrip/{}/{}", s.o, s.label())).collect()
            };
            for sig in sigs {
                rep.violation(PID, &sig,
                    format!("the file printed by `routinator config` is refused as a config file: {}", errors.join(" | ")),
                    b.clone(), observed(Some(&printed), json!({"errors": errors})));
            }
        }
        Outcome::Read { printed, first, second } => {
            rep.eval(PID);
            if !model_accept {
                rep.divergence(PID, format!("{name}: accepted by the code, refused in the model"));
            }
            let default = Config::default();
            let changed = diff(&default, &first);
            if !changed.is_empty() {
                // distinct by the configuration itself, not by the way it was entered
                rep.nontrivial(PID, changed.iter().map(|x| format!("{}={}", x.0, x.2)).collect::<Vec<_>>().join(";"));
            }
            let d = diff(&first, &second);
            let mut real_lost: Vec<String> = d.iter().map(|x| x.0.to_string()).collect();
            real_lost.sort();
            if model_accept && (model_rejected || real_lost != model_lost) {
                rep.divergence(PID, format!("{name}: the code loses {:?}, the model of the pinned code {} {:?}",
                    real_lost, if model_rejected { "refuses the printed file; lost" } else { "loses" }, model_lost));
            }
            for (key, before, after) in &d {
                let sig = format!("roundtrip/{}/{}", key, label_of(key));
                rep.violation(PID, &sig,
                    format!("`{key}` does not survive print + read: {before} became {after}; printed: {:?}",
                        printed_lines(&printed, key)),
                    b.clone(),
                    observed(Some(&printed), json!({"option": key, "configured": before, "read_back": after,
                                                    "printed_lines": printed_lines(&printed, key)})));
            }
            if d.is_empty() && sets.len() >= 2 {
                rep.sample(PID, json!({"settings": name, "argv": lossy(&conc.argv), "initial_config_file": conc.initial,
                                       "changed_fields": changed.iter().map(|x| x.0).collect::<Vec<_>>(),
                                       "round_trip": "identical"}));
            }
        }
    }
}
