//! Replay of `Gen_JsonDelta` cases against the real `/json-delta` endpoint
//! (property C18: src/http/delta.rs, DeltaStream / SnapshotStream).
//!
//! A real server (`Fixture`: HTTP listener on loopback, shared history) is fed
//! data sets through the server's own update cycle (`Server::process_once`):
//! route origins and router keys through SLURM assertions, ASPAs through a
//! factory-built repository validated by the real engine.  Every response is
//! checked against the property statement: the body is ONE JSON document,
//! session / serial / fromSerial are those of the history, and the announced
//! and withdrawn lists are exactly the items of the real `PayloadDelta`
//! (`delta_since`) or `PayloadSnapshot` (`current`).
//!
//! Three parts:
//!  * protocol: 503 before the first run, HEAD, foreign session, unknown serial;
//!  * model cases: each exported case names the input (items per payload type,
//!    announced / withdrawn, interleaving) and the token after which the first
//!    chunk ends; the harness inflates one item (ASPA provider list) or one
//!    group of items (origins / keys) so that the rendering crosses 64000
//!    bytes exactly at that token, and verifies from the chunk sizes of the
//!    response that it did;
//!  * sweeps: every item count n in a range (origins, keys), reset and delta.

use std::collections::{BTreeMap, BTreeSet};
use std::sync::Arc;
use serde_json::{json, Value};
use routinator::engine::Engine;
use routinator::slurm::LocalExceptions;
use rpki::rtr::payload::PayloadRef;
use rpki::rtr::Serial;
use crate::common::{catch, read_behaviours, Args, Report, Rng};
use crate::env::server::{http_get, http_request, Fixture, HttpResponse};
use crate::env::TestBed;
use crate::gen::{hex, Ca, Factory, Fault, Obj, ObjKind, Tal, TaVariant, World, EC_SPKI};

const PID: &str = "C18";
/// delta.rs:372 and :495
const LIMIT: usize = 64000;

//------------ Data sets ---------------------------------------------------------

#[derive(Clone, Debug, PartialEq, Eq, PartialOrd, Ord)]
struct Origin { k: u32, asn: u32 }

#[derive(Clone, Debug, PartialEq, Eq, PartialOrd, Ord)]
struct Key { rank: u32, asn: u32 }

#[derive(Clone, Debug, Default, PartialEq, Eq)]
struct DataSet {
    origins: BTreeSet<Origin>,
    keys: BTreeSet<Key>,
    /// customer -> providers
    aspas: BTreeMap<u32, Vec<u32>>,
}

impl DataSet {
    fn brief(&self) -> Value {
        json!({"origins": self.origins.len(), "keys": self.keys.len(),
               "aspas": self.aspas.iter().map(|(c, p)| json!([c, p.len()])).collect::<Vec<_>>()})
    }
}

/// Fixed-width /24 prefixes, increasing with `k` (k < 890000).
fn prefix_of(k: u32) -> String {
    format!("{}.{}.{}.0/24", 10 + k / 10000, 100 + (k / 100) % 100, 100 + k % 100)
}

fn ski_of(rank: u32) -> [u8; 20] {
    let mut s = [0x5au8; 20];
    s[0] = 0x10;
    s[1..5].copy_from_slice(&rank.to_be_bytes());
    s
}

fn asn_with_digits(d: usize, i: usize) -> u32 {
    let d = d.clamp(1, 10);
    let base = 10u64.pow(d as u32 - 1);
    let span = if d == 10 { 3_000_000_000u64 } else { base * 9 };
    (base + (i as u64 % span.min(100_000))) as u32
}

fn slurm_of(ds: &DataSet) -> LocalExceptions {
    let prefix: Vec<Value> = ds.origins.iter().map(|o| {
        json!({"asn": o.asn, "prefix": prefix_of(o.k), "maxPrefixLength": 24})
    }).collect();
    let spki = hex(EC_SPKI[0]);
    let key_b64 = rpki::util::base64::Slurm.encode(&spki);
    let bgpsec: Vec<Value> = ds.keys.iter().map(|k| {
        json!({"asn": k.asn, "SKI": rpki::util::base64::Slurm.encode(&ski_of(k.rank)), "routerPublicKey": key_b64})
    }).collect();
    let doc = json!({"slurmVersion": 1,
        "validationOutputFilters": {"prefixFilters": [], "bgpsecFilters": []},
        "locallyAddedAssertions": {"prefixAssertions": prefix, "bgpsecAssertions": bgpsec}});
    LocalExceptions::from_json(&doc.to_string(), false).expect("slurm")
}

fn world_of(aspas: &BTreeMap<u32, Vec<u32>>, version: u64) -> World {
    let mut ta = Ca::new("ta", None, 0, "rsync://repo.verif.test/ta/");
    ta.prefixes = vec!["10.0.0.0/8".into()];
    ta.asns = vec![(1, 4_294_967_294)];
    ta.mft.number = version;
    // a newer manifest must also have a later thisUpdate (engine.rs:999); stays >= 1 h in the past
    ta.mft.this_update_secs = -3 * 3600 + version as i64;
    ta.mft_serial = 100 + version;
    for (customer, providers) in aspas.iter() {
        // the serial does not depend on the version: an unchanged ASPA is the same object (and comes
        // from the factory's cache) in every version
        ta.objects.push(Obj {
            name: format!("a{customer}.asa"),
            kind: ObjKind::Aspa { customer: *customer, providers: providers.clone() },
            serial: 1_000_000 + *customer as u64, validity: (-2, 48), fault: Fault::None,
        });
    }
    World {
        tals: vec![Tal { name: "ta".into(), ca: 0, uris: vec![("rsync://repo.verif.test/ta/ta.cer".into(), TaVariant::Good)] }],
        cas: vec![ta],
    }
}

//------------ The server ----------------------------------------------------------

struct Srv {
    fx: Fixture,
    bed: Option<TestBed>,
    factory: Option<Arc<Factory>>,
    aspas: BTreeMap<u32, Vec<u32>>,
    version: u64,
    runs: u64,
    /// the data set installed last
    cur: Option<DataSet>,
    t_publish: f64,
    t_slurm: f64,
    t_run: f64,
}

impl Srv {
    /// Engine without TALs: data sets are SLURM assertions only.
    fn plain() -> Srv {
        let fx = Fixture::start(|c| { c.history_size = 10; });
        Srv { fx, bed: None, factory: None, aspas: BTreeMap::new(), version: 0, runs: 0, cur: None, t_publish: 0.0, t_slurm: 0.0, t_run: 0.0 }
    }

    /// Engine over a test bed: ASPAs come from validated ASPA objects.
    fn with_aspas(factory: Arc<Factory>) -> Result<Srv, String> {
        let bed = TestBed::new();
        let bc = bed.config();
        bed.publish(&world_of(&BTreeMap::new(), 1).build(&factory));
        let mut fx = Fixture::start(|c| {
            c.history_size = 10;
            c.cache_dir = bc.cache_dir.clone();
            c.extra_tals_dir = bc.extra_tals_dir.clone();
            c.rsync_command = bc.rsync_command.clone();
            c.rsync_args = bc.rsync_args.clone();
            c.rsync_timeout = bc.rsync_timeout;
            c.disable_rsync = false;
            c.validation_threads = 2;
            c.enable_aspa = true;
        });
        let mut engine = Engine::new(&fx.config, true).map_err(|_| "Engine::new failed".to_string())?;
        engine.ignite().map_err(|_| "Engine::ignite failed".to_string())?;
        fx.engine = engine;
        Ok(Srv { fx, bed: Some(bed), factory: Some(factory), aspas: BTreeMap::new(), version: 1, runs: 0, cur: None, t_publish: 0.0, t_slurm: 0.0, t_run: 0.0 })
    }

    fn install(&mut self, ds: &DataSet) -> Result<(), String> {
        let t0 = std::time::Instant::now();
        if let (Some(bed), Some(factory)) = (self.bed.as_ref(), self.factory.as_ref()) {
            if ds.aspas != self.aspas {
                self.version += 1;
                bed.publish_files(&world_of(&ds.aspas, self.version).build(factory));
                self.aspas = ds.aspas.clone();
            }
        }
        else if !ds.aspas.is_empty() {
            return Err("ASPAs on a server without repository".into())
        }
        self.t_publish += t0.elapsed().as_secs_f64();
        let t0 = std::time::Instant::now();
        let ex = slurm_of(ds);
        self.t_slurm += t0.elapsed().as_secs_f64();
        let t0 = std::time::Instant::now();
        // with a repository the "initial" quick run (store only) fails on an empty store, as in the real
        // server, which then falls back to a full run: go there directly
        let initial = self.runs == 0 && self.bed.is_none();
        self.runs += 1;
        self.fx.process_once(&ex, initial).map_err(|fatal| format!("process_once failed (fatal={fatal})"))?;
        self.t_run += t0.elapsed().as_secs_f64();
        self.cur = Some(ds.clone());
        Ok(())
    }

    fn serial(&self) -> u32 { self.fx.history.read().serial().into() }
    fn session(&self) -> u64 { self.fx.history.read().session() }
}

//------------ Canonical items --------------------------------------------------------

fn canon_ref(p: PayloadRef<'_>) -> String {
    match p {
        PayloadRef::Origin(o) => format!("O|AS{}|{}/{}|{}", o.asn.into_u32(), o.prefix.addr(), o.prefix.prefix_len(),
                                         o.prefix.resolved_max_len()),
        PayloadRef::RouterKey(k) => format!("K|{}|AS{}|{}",
            crate::gen::hexs(k.key_identifier.as_slice()).to_ascii_lowercase(), k.asn.into_u32(),
            rpki::util::base64::Slurm.encode(k.key_info.as_slice())),
        PayloadRef::Aspa(a) => format!("A|AS{}|{}", a.customer.into_u32(),
            a.providers.iter().map(|x| format!("AS{}", x.into_u32())).collect::<Vec<_>>().join(",")),
    }
}

fn canon_json(v: &Value) -> Result<String, String> {
    let o = v.as_object().ok_or("item is not an object")?;
    let s = |k: &str| o.get(k).and_then(|x| x.as_str()).map(String::from).ok_or(format!("member {k} missing or not a string"));
    match o.get("type").and_then(|t| t.as_str()) {
        Some("routeOrigin") => {
            let max = o.get("maxLength").and_then(|x| x.as_u64()).ok_or("maxLength missing or not a number")?;
            Ok(format!("O|{}|{}|{}", s("asn")?, s("prefix")?, max))
        }
        Some("routerKey") => Ok(format!("K|{}|{}|{}", s("keyIdentifier")?.to_ascii_lowercase(), s("asn")?, s("keyInfo")?)),
        Some("aspa") => {
            let provs = o.get("providerAsns").and_then(|x| x.as_array()).ok_or("providerAsns missing or not an array")?;
            let mut ps = Vec::new();
            for p in provs { ps.push(p.as_str().ok_or("provider is not a string")?.to_string()) }
            Ok(format!("A|{}|{}", s("customerAsn")?, ps.join(",")))
        }
        other => Err(format!("unknown item type {other:?}")),
    }
}

//------------ One request, checked against the property -----------------------------

/// What the history says the answer must be.
struct Truth {
    reset: bool,
    session: u64,
    serial: u32,
    from: Option<u32>,
    announced: Vec<String>,
    withdrawn: Vec<String>,
}

fn truth_for(srv: &Srv, query: Option<(u64, u32)>) -> Option<Truth> {
    let h = srv.fx.history.read();
    let session = h.session();
    let serial: u32 = h.serial().into();
    if let Some((qs, qn)) = query {
        if qs == session {
            if let Some(delta) = h.delta_since(Serial::from(qn)) {
                let mut announced = Vec::new();
                let mut withdrawn = Vec::new();
                for (p, a) in delta.actions() {
                    if a.is_announce() { announced.push(canon_ref(p)) } else { withdrawn.push(canon_ref(p)) }
                }
                return Some(Truth { reset: false, session, serial, from: Some(qn), announced, withdrawn })
            }
        }
    }
    let snap = h.current()?;
    let announced = snap.payload().map(canon_ref).collect();
    Some(Truth { reset: true, session, serial, from: None, announced, withdrawn: Vec::new() })
}

fn multiset(v: &[String]) -> BTreeMap<&str, usize> {
    let mut m = BTreeMap::new();
    for s in v { *m.entry(s.as_str()).or_insert(0) += 1; }
    m
}

fn list_diff(got: &[String], want: &[String]) -> Value {
    let g = multiset(got);
    let w = multiset(want);
    let missing: Vec<&str> = w.iter().filter(|(k, n)| g.get(*k).copied().unwrap_or(0) < **n).map(|(k, _)| *k).take(3).collect();
    let extra: Vec<&str> = g.iter().filter(|(k, n)| w.get(*k).copied().unwrap_or(0) < **n).map(|(k, _)| *k).take(3).collect();
    json!({"got": got.len(), "want": want.len(), "missing": missing, "extra": extra})
}

fn path_of(query: Option<(u64, u32)>) -> String {
    match query {
        Some((s, n)) => format!("/json-delta?session={s}&serial={n}"),
        None => "/json-delta".into(),
    }
}

struct Checked {
    resp: HttpResponse,
    reset: bool,
    ok: bool,
}

/// GET, then every clause of C18.  `ctx` describes the input for the replay file.
fn get_checked(rep: &mut Report, srv: &Srv, query: Option<(u64, u32)>, class: &str, ctx: &Value) -> Option<Checked> {
    let path = path_of(query);
    let truth = truth_for(srv, query)?;
    let resp = match http_get(srv.fx.http_port, &path, &[]) {
        Ok(r) => r,
        Err(e) => {
            rep.violation(PID, &format!("{class}/no-response"), format!("GET {path}: {e}"), ctx.clone(), json!({"error": e}));
            return None
        }
    };
    rep.eval(PID);
    let kind = if truth.reset { "reset" } else { "delta" };
    let mut ok = true;
    let mut bad = |rep: &mut Report, what: &str, detail: String, observed: Value| {
        ok = false;
        let mut c = ctx.clone();
        c["request"] = json!(path);
        rep.violation(PID, &format!("{kind}/{class}/{what}"), detail, c, observed);
    };
    if resp.status != 200 {
        bad(rep, "status", format!("GET {path} answered {}", resp.status), json!({"status": resp.status}));
        return Some(Checked { resp, reset: truth.reset, ok: false })
    }
    let doc: Value = match serde_json::from_slice(&resp.body) {
        Ok(v) => v,
        Err(e) => {
            let at = byte_offset(&resp.body, e.line(), e.column());
            let lo = at.saturating_sub(60);
            let hi = (at + 40).min(resp.body.len());
            let mut cum = 0usize;
            let bounds: Vec<usize> = resp.chunks.iter().map(|c| { cum += c; cum }).collect();
            bad(rep, "invalid-json", format!("body of {} bytes in {} chunks is not one JSON document: {e}", resp.body.len(), resp.chunks.len()),
                json!({"error": e.to_string(), "offset": at, "chunk_ends": bounds,
                       "around": String::from_utf8_lossy(&resp.body[lo..hi])}));
            return Some(Checked { resp, reset: truth.reset, ok: false })
        }
    };
    let obj = match doc.as_object() {
        Some(o) => o,
        None => { bad(rep, "not-an-object", "document is not an object".into(), json!({})); return Some(Checked { resp, reset: truth.reset, ok: false }) }
    };
    // member names are unique (serde_json silently keeps the last of two members of the same name; with two
    // "withdrawn" members there is no such thing as *the* withdrawn list).  Item strings cannot contain these.
    for name in ["\"reset\":", "\"session\":", "\"serial\":", "\"fromSerial\":", "\"announced\":", "\"withdrawn\":"] {
        let n = resp.body.windows(name.len()).filter(|w| *w == name.as_bytes()).count();
        if n > 1 {
            bad(rep, "duplicate-member", format!("member {name} occurs {n} times in the document"), json!({"member": name, "times": n}));
        }
    }
    // header members
    if obj.get("reset").and_then(|v| v.as_bool()) != Some(truth.reset) {
        bad(rep, "reset-flag", format!("\"reset\" is {:?}, the history answers with a {kind}", obj.get("reset")), json!({"reset": obj.get("reset")}));
    }
    if obj.get("session").and_then(|v| v.as_str()) != Some(truth.session.to_string().as_str()) {
        bad(rep, "session", format!("\"session\" is {:?}, the history has {}", obj.get("session"), truth.session), json!({"session": obj.get("session")}));
    }
    if obj.get("serial").and_then(|v| v.as_u64()) != Some(truth.serial as u64) {
        bad(rep, "serial", format!("\"serial\" is {:?}, the history is at {}", obj.get("serial"), truth.serial), json!({"serial": obj.get("serial")}));
    }
    if let Some(from) = truth.from {
        if obj.get("fromSerial").and_then(|v| v.as_u64()) != Some(from as u64) {
            bad(rep, "from-serial", format!("\"fromSerial\" is {:?}, the request said {from}", obj.get("fromSerial")), json!({"fromSerial": obj.get("fromSerial")}));
        }
    }
    // lists
    let mut lists: Vec<(&str, &Vec<String>)> = vec![("announced", &truth.announced)];
    if !truth.reset { lists.push(("withdrawn", &truth.withdrawn)) }
    for (name, want) in lists {
        let arr = match obj.get(name).and_then(|v| v.as_array()) {
            Some(a) => a,
            None => { bad(rep, &format!("{name}-not-array"), format!("member \"{name}\" is missing or not an array"), json!({name: obj.get(name)})); continue }
        };
        let mut got = Vec::with_capacity(arr.len());
        let mut malformed = None;
        for it in arr {
            match canon_json(it) { Ok(s) => got.push(s), Err(e) => { malformed = Some((e, it.clone())); break } }
        }
        if let Some((e, it)) = malformed {
            bad(rep, &format!("{name}-malformed-item"), format!("item of \"{name}\": {e}"), json!({"item": it}));
            continue
        }
        if multiset(&got) != multiset(want) {
            bad(rep, &format!("{name}-inexact"),
                format!("\"{name}\" has {} items, the {} of the history has {}", got.len(), if truth.reset { "data set" } else { "change set" }, want.len()),
                list_diff(&got, want));
        }
        else if got != *want {
            rep.divergence(PID, format!("{path}: \"{name}\" has the right items in another order than the payload iterator"));
        }
    }
    if truth.reset && obj.contains_key("withdrawn") && obj["withdrawn"].as_array().map(|a| !a.is_empty()).unwrap_or(true) {
        bad(rep, "reset-withdraws", "a reset document carries a non-empty \"withdrawn\" member".into(), json!({}));
    }
    Some(Checked { resp, reset: truth.reset, ok })
}

fn byte_offset(body: &[u8], line: usize, col: usize) -> usize {
    let mut l = 1;
    let mut start = 0;
    for (i, b) in body.iter().enumerate() {
        if l == line { start = i; break }
        if *b == b'\n' { l += 1; start = i + 1; }
    }
    (start + col.saturating_sub(1)).min(body.len())
}

//------------ Tokens of a real body ----------------------------------------------------

fn find(hay: &[u8], needle: &[u8], from: usize) -> Option<usize> {
    if from > hay.len() { return None }
    hay[from..].windows(needle.len()).position(|w| w == needle).map(|p| p + from)
}

/// End offsets of the tokens of a body: header, items (each with its leading
/// comma and white space), separator, footer.
fn token_ends(body: &[u8]) -> Option<Vec<(char, usize)>> {
    let needle = b"\"announced\": [";
    let mut pos = find(body, needle, 0)? + needle.len();
    let mut out = vec![('H', pos)];
    loop {
        let mut p = pos;
        while p < body.len() && (body[p].is_ascii_whitespace() || body[p] == b',') { p += 1 }
        if p >= body.len() { return None }
        match body[p] {
            b'{' => {
                let e = find(body, b"}", p)?;
                out.push(('I', e + 1));
                pos = e + 1;
            }
            b']' => {
                let rest: Vec<u8> = body[p..].iter().copied().filter(|b| !b.is_ascii_whitespace()).collect();
                if rest == b"]}" {
                    out.push(('F', body.len()));
                    return Some(out)
                }
                let w = b"\"withdrawn\": [";
                let e = find(body, w, p)? + w.len();
                out.push(('S', e));
                pos = e;
            }
            _ => return None,
        }
    }
}

/// Chunking discipline of the code as modelled (`Chunking` of JsonDelta.tla):
/// differences are model divergences, not violations.
fn chunk_discipline(rep: &mut Report, resp: &HttpResponse, what: &str) {
    let ends = match token_ends(&resp.body) { Some(e) => e, None => return };
    let set: BTreeSet<usize> = ends.iter().map(|e| e.1).collect();
    let mut cum = 0;
    for (i, c) in resp.chunks.iter().enumerate() {
        let start = cum;
        cum += c;
        let last = i + 1 == resp.chunks.len();
        if *c == 0 { rep.divergence(PID, format!("{what}: empty chunk")); }
        if !set.contains(&cum) { rep.divergence(PID, format!("{what}: chunk {i} ends inside a token (offset {cum})")); continue }
        if !last {
            let prev = set.range(..cum).next_back().copied().unwrap_or(0);
            if *c <= LIMIT || prev.saturating_sub(start) > LIMIT {
                rep.divergence(PID, format!("{what}: chunk {i} of {c} bytes does not end at the first token that exceeds {LIMIT}"));
            }
        }
    }
}

//------------ Calibration: rendered sizes measured from the real output ------------------

#[derive(Clone, Debug)]
struct Cal {
    /// header sizes without the digits of serial / fromSerial
    h_reset: usize,
    h_delta: usize,
    sep: usize,
    /// item sizes without leading comma and without the digits of the AS numbers
    o_base: usize,
    k_base: usize,
    /// ASPA without customer digits and without providers
    a_base: usize,
}

fn digits(n: u64) -> usize { n.to_string().len() }

impl Cal {
    fn origin(&self, asn: u32) -> usize { self.o_base + digits(asn as u64) }
    fn key(&self, asn: u32) -> usize { self.k_base + digits(asn as u64) }
    fn aspa(&self, customer: u32, providers: &[u32]) -> usize {
        let mut n = self.a_base + digits(customer as u64);
        for (i, p) in providers.iter().enumerate() { n += digits(*p as u64) + if i == 0 { 4 } else { 6 } }
        n
    }
}

fn span_sizes(body: &[u8]) -> Option<Vec<(char, usize)>> {
    let ends = token_ends(body)?;
    let mut prev = 0;
    Some(ends.iter().map(|(c, e)| { let s = e - prev; prev = *e; (*c, s) }).collect())
}

fn calibrate(srv: &mut Srv) -> Result<Cal, String> {
    let mut d0 = DataSet::default();
    d0.origins.insert(Origin { k: 889_000, asn: 64999 });
    srv.install(&d0)?;
    let from = srv.serial();
    let mut d1 = DataSet::default();
    d1.origins.insert(Origin { k: 1, asn: 64501 });
    d1.keys.insert(Key { rank: 1, asn: 64502 });
    if srv.bed.is_some() { d1.aspas.insert(64503, vec![64504, 64505]); }
    srv.install(&d1)?;
    let serial = srv.serial();
    let reset = http_get(srv.fx.http_port, "/json-delta", &[])?;
    let rs = span_sizes(&reset.body).ok_or("cannot tokenise the calibration reset document")?;
    let delta = http_get(srv.fx.http_port, &path_of(Some((srv.session(), from))), &[])?;
    let ds = span_sizes(&delta.body).ok_or("cannot tokenise the calibration delta document")?;
    let want_items = if srv.bed.is_some() { 3 } else { 2 };
    if rs.iter().filter(|t| t.0 == 'I').count() != want_items || ds.iter().filter(|t| t.0 == 'S').count() != 1 {
        if let Some(bed) = srv.bed.as_ref() {
            eprintln!("pub: {:?}\ncache: {:?}\nrsync log: {:?}", crate::env::dir_listing(&bed.pubdir), crate::env::dir_listing(&bed.cache), bed.take_rsync_log());
        }
        return Err(format!("calibration documents have an unexpected shape: {rs:?} {ds:?}"))
    }
    let a_base = if srv.bed.is_some() { rs[3].1 - 1 - 5 - (5 + 4) - (5 + 6) } else { 0 };
    Ok(Cal {
        h_reset: rs[0].1 - digits(serial as u64),
        h_delta: ds[0].1 - digits(serial as u64) - digits(from as u64),
        sep: ds.iter().find(|t| t.0 == 'S').unwrap().1,
        o_base: rs[1].1 - 5,
        k_base: rs[2].1 - 1 - 5,
        a_base,
    })
}

//------------ Model cases ---------------------------------------------------------------

#[derive(Clone, Debug)]
struct MItem { ty: u8, announce: bool }

#[derive(Clone, Debug)]
struct Case {
    delta: bool,
    items: Vec<MItem>,
    /// index (in the comma-free token list H, items.., [S, items..], F) of the
    /// token after which the first chunk ends; None = a single chunk
    boundary: Option<usize>,
    /// does the model's second chunk start with a comma?
    second_starts_with_comma: Option<bool>,
    model_chunks: usize,
    raw: Value,
}

fn parse_case(v: &Value) -> Case {
    let delta = v["mode"].as_str().unwrap() == "delta";
    let items = v["items"].as_array().unwrap().iter().map(|c| {
        let c = c.as_u64().unwrap();
        MItem { ty: (c / 100) as u8, announce: (c / 10) % 10 == 1 }
    }).collect();
    let chunks = v["chunks"].as_array().unwrap();
    let boundary = if chunks.len() > 1 {
        Some(chunks[0].as_array().unwrap().iter().filter(|t| t.as_u64() != Some(4)).count() - 1)
    } else { None };
    let second = chunks.get(1).and_then(|c| c.as_array()).and_then(|c| c.first()).map(|t| t.as_u64() == Some(4));
    Case { delta, items, boundary, second_starts_with_comma: second, model_chunks: chunks.len(), raw: v.clone() }
}

/// A token of the expected document (comma-free list).
#[derive(Clone, Debug, PartialEq)]
enum PTok { H, S, F, I { ty: u8, announce: bool, pos: usize } }

fn plan_tokens(c: &Case) -> Vec<PTok> {
    let mut out = vec![PTok::H];
    for (pos, it) in c.items.iter().enumerate() {
        if it.announce { out.push(PTok::I { ty: it.ty, announce: true, pos }) }
    }
    if c.delta {
        out.push(PTok::S);
        for (pos, it) in c.items.iter().enumerate() {
            if !it.announce { out.push(PTok::I { ty: it.ty, announce: false, pos }) }
        }
    }
    out.push(PTok::F);
    out
}

fn tok_name(t: &PTok, toks: &[PTok], i: usize) -> String {
    match t {
        PTok::H => "H".into(), PTok::S => "S".into(), PTok::F => "F".into(),
        PTok::I { ty, announce, .. } => {
            let first = i > 0 && !matches!(toks[i - 1], PTok::I { .. });
            let last = i + 1 < toks.len() && !matches!(toks[i + 1], PTok::I { .. });
            format!("{}{}{}{}", ["", "o", "k", "a"][*ty as usize], if *announce { "+" } else { "-" },
                    if first { "^" } else { "" }, if last { "$" } else { "" })
        }
    }
}

/// Class of a case: stream, which groups are empty, token before / after the first boundary.
fn class_of(c: &Case) -> String {
    let toks = plan_tokens(c);
    let mut groups = String::new();
    for announce in [true, false] {
        for ty in 1..=3u8 {
            let n = c.items.iter().filter(|i| i.ty == ty && i.announce == announce).count();
            groups.push(if n == 0 { '0' } else { '1' });
        }
    }
    let b = match c.boundary {
        Some(b) => format!("{}|{}", tok_name(&toks[b], &toks, b), tok_name(&toks[b + 1], &toks, b + 1)),
        None => "single".into(),
    };
    format!("{}:{}:{}", if c.delta { "delta" } else { "reset" }, groups, b)
}

/// `total` bytes as n items of cost `fixed + d`, d digits in 5..=10.
fn spread(total: usize, fixed: usize) -> Option<Vec<usize>> {
    let n = total / (fixed + 5);
    if n == 0 { return None }
    let rem = total - n * (fixed + 5);
    let each = rem / n;
    let more = rem % n;
    if each + (more > 0) as usize > 5 { return None }
    Some((0..n).map(|i| 5 + each + (i < more) as usize).collect())
}

struct Concrete {
    d0: DataSet,
    d1: DataSet,
    /// how the boundary was produced
    filler: &'static str,
}

/// Builds the two data sets of a case.  `serial_to` / `serial_from`: the
/// serials the document will carry (for the header size); `adjust`: correction
/// of the filler size from a previous attempt.
fn concretise(c: &Case, cal: &Cal, serial_from: u32, serial_to: u32, adjust: i64) -> Result<Concrete, String> {
    let toks = plan_tokens(c);
    // per model item: the concrete item
    let mut origins: BTreeMap<usize, Origin> = BTreeMap::new();
    let mut keys: BTreeMap<usize, Key> = BTreeMap::new();
    let mut aspas: BTreeMap<usize, (u32, Vec<u32>)> = BTreeMap::new();
    let mut per_type = [0usize; 4];
    for (pos, it) in c.items.iter().enumerate() {
        let j = per_type[it.ty as usize];
        per_type[it.ty as usize] += 1;
        match it.ty {
            1 => { origins.insert(pos, Origin { k: (j as u32 + 1) * 2000, asn: 64600 + j as u32 }); }
            2 => { keys.insert(pos, Key { rank: (j as u32 + 1) * 2000, asn: 64700 + j as u32 }); }
            _ => { aspas.insert(pos, (61000 + 10 * j as u32, if it.announce { vec![65001, 65002] } else { Vec::new() })); }
        }
    }
    let size_of = |t: &PTok, first: bool, aspas: &BTreeMap<usize, (u32, Vec<u32>)>| -> usize {
        match t {
            PTok::H => if c.delta { cal.h_delta + digits(serial_to as u64) + digits(serial_from as u64) }
                       else { cal.h_reset + digits(serial_to as u64) },
            PTok::S => cal.sep,
            PTok::F => 7,
            PTok::I { ty, pos, .. } => (!first) as usize + match ty {
                1 => cal.origin(origins[pos].asn),
                2 => cal.key(keys[pos].asn),
                _ => { let a = &aspas[pos]; cal.aspa(a.0, &a.1) }
            },
        }
    };
    let mut extra_o: Vec<(bool, Origin)> = Vec::new();
    let mut extra_k: Vec<(bool, Key)> = Vec::new();
    let mut filler = "none";
    if let Some(b) = c.boundary {
        if b == 0 { return Err("first chunk = header alone: not reachable with a 64000 byte threshold".into()) }
        // sizes up to the boundary token
        let mut before = 0usize;      // end of token b-1
        let mut size_b = 0usize;
        for (i, t) in toks.iter().enumerate().take(b + 1) {
            let first = i == 0 || !matches!(toks[i - 1], PTok::I { .. }) || !matches!(t, PTok::I { .. });
            let s = size_of(t, first, &aspas);
            if i < b { before += s } else { size_b = s }
        }
        // the filler: the last announced ASPA at or before b, else the last origin / key at or before b
        let aspa_at = (1..=b).rev().find(|i| matches!(toks[*i], PTok::I { ty: 3, announce: true, .. }));
        let count_at = (1..=b).rev().find(|i| matches!(toks[*i], PTok::I { ty: 1 | 2, .. }));
        if let Some(f) = aspa_at {
            filler = "aspa-providers";
            let pos = match toks[f] { PTok::I { pos, .. } => pos, _ => unreachable!() };
            let want_extra: i64 = if f == b {
                (LIMIT as i64 - before as i64) + 40 - size_b as i64
            } else {
                LIMIT as i64 - before as i64 - (size_b as i64) / 2
            } + adjust;
            if want_extra < 11 { return Err("no room for a filler".into()) }
            let ds = spread(want_extra as usize, 6).ok_or("cannot spread the provider filler")?;
            let a = aspas.get_mut(&pos).unwrap();
            for (i, d) in ds.iter().enumerate() { a.1.push(asn_with_digits(*d, i)); }
        }
        else if let Some(f) = count_at {
            let (ty, announce, pos) = match toks[f] { PTok::I { ty, announce, pos } => (ty, announce, pos), _ => unreachable!() };
            filler = if ty == 1 { "origin-count" } else { "key-count" };
            // extra items go in front of item f (same type, same action, smaller sort keys); item f loses
            // its "first in the list" position if it had it, so it gains a comma
            let f_first = !matches!(toks[f - 1], PTok::I { .. });
            let want_extra: i64 = LIMIT as i64 - before as i64 - (size_b as i64) / 2 - (f_first as i64) + adjust;
            let fixed = if ty == 1 { cal.o_base + 1 } else { cal.k_base + 1 };
            if want_extra < fixed as i64 + 5 { return Err("no room for a filler".into()) }
            // the first extra item takes over the "first in the list" position: no comma
            let ds = spread(want_extra as usize + f_first as usize, fixed).ok_or("cannot spread the count filler")?;
            let n = ds.len() as u32;
            if n >= 1990 { return Err("filler too large".into()) }
            for (i, d) in ds.iter().enumerate() {
                let asn = asn_with_digits(*d, i);
                if ty == 1 { extra_o.push((announce, Origin { k: origins[&pos].k - n + i as u32, asn })) }
                else { extra_k.push((announce, Key { rank: keys[&pos].rank - n + i as u32, asn })) }
            }
        }
        else {
            return Err("no origin, key or announced ASPA before the boundary to inflate".into())
        }
    }
    // data sets
    let mut d0 = DataSet::default();
    let mut d1 = DataSet::default();
    if c.delta {
        // unchanged items (in both data sets)
        d0.origins.insert(Origin { k: 3, asn: 64999 });
        d1.origins.insert(Origin { k: 3, asn: 64999 });
        d0.keys.insert(Key { rank: 3, asn: 64998 });
        d1.keys.insert(Key { rank: 3, asn: 64998 });
    }
    else {
        d0.origins.insert(Origin { k: 889_000, asn: 64999 });
    }
    let mut nth_announced_aspa = 0;
    for (pos, it) in c.items.iter().enumerate() {
        let target = if it.announce { &mut d1 } else { &mut d0 };
        match it.ty {
            1 => { target.origins.insert(origins[&pos].clone()); }
            2 => { target.keys.insert(keys[&pos].clone()); }
            _ => {
                let a = aspas[&pos].clone();
                if it.announce {
                    nth_announced_aspa += 1;
                    // every second announced ASPA is an update of an existing customer
                    if c.delta && nth_announced_aspa % 2 == 0 { d0.aspas.insert(a.0, vec![65009]); }
                    d1.aspas.insert(a.0, a.1);
                }
                else { d0.aspas.insert(a.0, vec![65001]); }
            }
        }
    }
    for (announce, o) in extra_o { if announce { d1.origins.insert(o); } else { d0.origins.insert(o); } }
    for (announce, k) in extra_k { if announce { d1.keys.insert(k); } else { d0.keys.insert(k); } }
    Ok(Concrete { d0, d1, filler })
}

/// Index (comma-free token list) of the token at which the first chunk of the response ends.
fn real_first_boundary(resp: &HttpResponse) -> Option<(usize, Vec<(char, usize)>)> {
    let ends = token_ends(&resp.body)?;
    let c0 = *resp.chunks.first()?;
    let i = ends.iter().position(|e| e.1 == c0)?;
    Some((i, ends))
}

struct CaseStats { realised: u64, unrealised: u64, unreachable: u64, pattern_off: u64, sampled: BTreeSet<&'static str> }

fn run_case(rep: &mut Report, srv: &mut Srv, cal: &Cal, c: &Case, class: &str, st: &mut CaseStats) -> Result<(), String> {
    let toks = plan_tokens(c);
    let mut adjust = 0i64;
    let mut last_note = String::new();
    for attempt in 0..4 {
        // the serials the document will carry decide the size of its header: predict them
        let now = srv.serial();
        let mut from = now.wrapping_add(1);
        let mut conc = match concretise(c, cal, from, from.wrapping_add(1), adjust) {
            Ok(p) => p,
            Err(e) => { st.unreachable += 1; rep.add_note(PID, "boundary_not_reachable", 1); last_note = e; break }
        };
        if srv.cur.as_ref() == Some(&conc.d0) {
            from = now;
            conc = concretise(c, cal, from, from.wrapping_add(1), adjust)?;
        }
        if conc.d0 == conc.d1 {
            conc = concretise(c, cal, from, from, adjust)?;
        }
        srv.install(&conc.d0)?;
        if srv.serial() != from { return Err(format!("serial after installing D0 is {}, predicted {from}", srv.serial())) }
        srv.install(&conc.d1)?;
        let ctx = json!({"case": c.raw, "class": class, "filler": conc.filler, "adjust": adjust,
                         "d0": conc.d0.brief(), "d1": conc.d1.brief(), "serial_from": from});
        let query = if c.delta { Some((srv.session(), from)) } else { None };
        let main = get_checked(rep, srv, query, "case", &ctx);
        // the other stream over the same data, for free
        let other = if c.delta { None } else { Some((srv.session(), from)) };
        if let Some(o) = get_checked(rep, srv, other, "case-other", &ctx) { chunk_discipline(rep, &o.resp, "case-other"); }
        let main = match main { Some(m) => m, None => return Ok(()) };
        if main.reset == c.delta { return Err(format!("asked for a {} and got the other kind", if c.delta { "delta" } else { "reset" })) }
        chunk_discipline(rep, &main.resp, class);
        if !main.ok {
            // the violation is recorded; where the chunk boundary fell in a wrong document is of no interest
            rep.trace(PID);
            return Ok(())
        }
        // item sequence as planned?  (interleaving of the change set)
        if attempt == 0 {
            if let Some(d) = srv.fx.history.read().delta_since(Serial::from(from)) {
                if c.delta && c.boundary.is_none() {
                    let real: Vec<(u8, bool)> = d.actions().map(|(p, a)| (match p { PayloadRef::Origin(_) => 1, PayloadRef::RouterKey(_) => 2, PayloadRef::Aspa(_) => 3 }, a.is_announce())).collect();
                    let planned: Vec<(u8, bool)> = c.items.iter().map(|i| (i.ty, i.announce)).collect();
                    if real != planned { st.pattern_off += 1; rep.add_note(PID, "interleaving_not_realised", 1); }
                }
            }
        }
        let b = match c.boundary {
            None => {
                if main.resp.chunks.len() == 1 && main.ok { rep.nontrivial(PID, format!("{class}|{}", c.raw["items"])); }
                rep.trace(PID);
                return Ok(())
            }
            Some(b) => b,
        };
        match real_first_boundary(&main.resp) {
            Some((i, ends)) => {
                // planned token index -> real token index: the filler items (count filler) all sit in
                // front of their model item, which is at or before the boundary token
                if ends.len() < toks.len() {
                    last_note = format!("attempt {attempt}: {} tokens in the body, {} planned", ends.len(), toks.len());
                    break
                }
                let real_b = b + (ends.len() - toks.len());
                if i == real_b {
                    st.realised += 1;
                    if main.ok { rep.nontrivial(PID, format!("{class}|{}|b{b}", c.raw["items"])); }
                    rep.add_note(PID, &format!("realised_by_{}", conc.filler), 1);
                    // model vs code: does the second chunk start with the comma?
                    let c0 = main.resp.chunks[0];
                    let real_comma = main.resp.body.get(c0) == Some(&b',');
                    if let Some(m) = c.second_starts_with_comma {
                        if m != real_comma {
                            rep.divergence(PID, format!("{class}: second chunk starts with a comma in the {} only", if m { "model" } else { "code" }));
                        }
                    }
                    if st.sampled.insert(conc.filler) { rep.sample(PID, json!({"class": class, "model_items": c.raw["items"], "model_chunks": c.model_chunks,
                        "filler": conc.filler, "d0": conc.d0.brief(), "d1": conc.d1.brief(),
                        "real_chunks": main.resp.chunks, "first_chunk_ends_after_token": b,
                        "second_chunk_starts_with": String::from_utf8_lossy(&main.resp.body[c0..(c0 + 12).min(main.resp.body.len())])})); }
                    rep.trace(PID);
                    return Ok(())
                }
                // shift the filler by the distance between the intended and the real position
                let intended_end = ends.get(real_b).map(|e| e.1 as i64).unwrap_or(0);
                let before_end = if real_b > 0 { ends[real_b - 1].1 as i64 } else { 0 };
                // we want before_end <= LIMIT < intended_end
                let mid = (before_end + intended_end) / 2;
                adjust += LIMIT as i64 - mid;
                last_note = format!("attempt {attempt}: first chunk ended after token {i}, intended {real_b}");
            }
            None => {
                last_note = format!("attempt {attempt}: single chunk or body not tokenisable ({} chunks)", main.resp.chunks.len());
                // single chunk: the document is too short; grow
                adjust += 200;
            }
        }
    }
    if last_note.starts_with("attempt") {
        st.unrealised += 1;
        rep.add_note(PID, "boundary_not_realised", 1);
        rep.divergence(PID, format!("{class}: boundary not realised: {last_note}"));
    }
    rep.trace(PID);
    Ok(())
}

//------------ Sweeps ---------------------------------------------------------------------

fn sweep_set(kind: &str, fam: u32, n: usize) -> DataSet {
    let mut ds = DataSet::default();
    for j in 0..n as u32 {
        match kind {
            "origins" => { ds.origins.insert(Origin { k: fam * 100_000 + j, asn: 64500 + fam }); }
            _ => { ds.keys.insert(Key { rank: fam * 100_000 + j, asn: 64500 + fam }); }
        }
    }
    ds
}

/// Installs data sets with n items for every n of `ns` (alternating between two
/// disjoint families, so that the change set announces n and withdraws the
/// previous n) and checks the reset, the one-step delta and the two-step delta.
fn sweep(rep: &mut Report, srv: &mut Srv, kind: &str, ns: &[usize]) -> Result<(), String> {
    let mut serials: Vec<u32> = Vec::new();
    let mut prev_chunks = (0usize, 0usize);
    let mut boundaries: Vec<Value> = Vec::new();
    for (i, n) in ns.iter().enumerate() {
        let ds = sweep_set(kind, (i % 2) as u32, *n);
        let before = srv.serial();
        srv.install(&ds)?;
        serials.push(before);
        let ctx = json!({"sweep": kind, "n": n, "previous_n": if i > 0 { json!(ns[i - 1]) } else { Value::Null },
                         "data": "family alternates between two disjoint item ranges"});
        if let Some(r) = get_checked(rep, srv, None, &format!("sweep-{kind}"), &ctx) {
            chunk_discipline(rep, &r.resp, "sweep reset");
            if r.ok && (r.resp.chunks.len() > 1 || *n <= 2) { rep.nontrivial(PID, format!("sweep|{kind}|reset|{n}")); }
            if r.resp.chunks.len() != prev_chunks.0 {
                boundaries.push(json!({"doc": "reset", "n": n, "chunks": r.resp.chunks.len()}));
                prev_chunks.0 = r.resp.chunks.len();
            }
        }
        if i > 0 {
            if let Some(r) = get_checked(rep, srv, Some((srv.session(), before)), &format!("sweep-{kind}"), &ctx) {
                chunk_discipline(rep, &r.resp, "sweep delta");
                if r.ok && (r.resp.chunks.len() > 1 || *n <= 2) { rep.nontrivial(PID, format!("sweep|{kind}|delta|{n}")); }
                if r.resp.chunks.len() != prev_chunks.1 {
                    boundaries.push(json!({"doc": "delta", "announced": n, "withdrawn": ns[i - 1], "chunks": r.resp.chunks.len()}));
                    prev_chunks.1 = r.resp.chunks.len();
                }
            }
        }
        if i > 1 && i % 3 == 0 {
            // two steps back: merged change sets (same family: the difference of the two sizes)
            let two = serials[i - 1];
            get_checked(rep, srv, Some((srv.session(), two)), &format!("sweep-{kind}-merged"), &ctx);
        }
        rep.trace(PID);
    }
    rep.note(PID, &format!("sweep_{kind}_chunk_count_changes"), json!(boundaries));
    Ok(())
}

/// Many ASPA items (through the engine): item counts around the first chunk boundary of the reset
/// document, each followed by the empty set, so that the change sets announce n and withdraw n ASPAs.
fn aspa_sweep(rep: &mut Report, srv: &mut Srv, cal: &Cal, around: usize) -> Result<(), String> {
    // first boundary of the announced list (items with one provider) and of the withdrawn list (no providers)
    let item = cal.aspa(10_000, &[65001]) + 1;
    let mut nb = 1;
    while cal.h_reset + 4 + nb * item - 1 <= LIMIT { nb += 1 }
    let item_w = cal.aspa(10_000, &[]) + 1;
    let mut nw = 1;
    while cal.h_delta + 8 + cal.sep + nw * item_w - 1 <= LIMIT { nw += 1 }
    let mut ns: BTreeSet<usize> = (nb.saturating_sub(around)..=nb + around).collect();
    ns.extend(nw.saturating_sub(around)..=nw + around);
    let mut log = Vec::new();
    for n in ns {
        let mut ds = DataSet::default();
        for j in 0..n as u32 { ds.aspas.insert(10_000 + j, vec![65001]); }
        for (step, set) in [("announce", ds), ("withdraw", DataSet::default())] {
            let before = srv.serial();
            srv.install(&set)?;
            let ctx = json!({"aspa_sweep": n, "step": step, "data": "n ASPAs AS10000.. with provider AS65001, then none"});
            if let Some(r) = get_checked(rep, srv, Some((srv.session(), before)), "sweep-aspas", &ctx) {
                chunk_discipline(rep, &r.resp, "aspa sweep delta");
                if r.ok && !r.reset && r.resp.chunks.len() > 1 { rep.nontrivial(PID, format!("sweep|aspas|{step}|{n}")); }
                log.push(json!({"n": n, "step": step, "chunks": r.resp.chunks}));
            }
            if let Some(r) = get_checked(rep, srv, None, "sweep-aspas", &ctx) {
                chunk_discipline(rep, &r.resp, "aspa sweep reset");
                if r.ok && r.resp.chunks.len() > 1 { rep.nontrivial(PID, format!("sweep|aspas|reset|{n}")); }
            }
            rep.trace(PID);
        }
    }
    rep.note(PID, "sweep_aspas", json!(log));
    Ok(())
}

//------------ Protocol ---------------------------------------------------------------------

fn protocol_before_first_run(rep: &mut Report) {
    let srv = Srv::plain();
    // the server's own session (handed out by the notify endpoint even now) with the serial the first data set will get
    let own = http_request(srv.fx.http_port, "GET", "/json-delta/notify", &[], None, std::time::Duration::from_secs(20)).ok()
        .and_then(|r| serde_json::from_slice::<Value>(&r.body).ok())
        .and_then(|v| v["session"].as_u64().or_else(|| v["session"].as_str().and_then(|s| s.parse().ok())));
    let mut probes = vec![("GET", "/json-delta".to_string()), ("GET", "/json-delta?session=1&serial=0".to_string()),
                          ("HEAD", "/json-delta".to_string())];
    match own {
        Some(sess) => {
            probes.push(("GET", format!("/json-delta?session={sess}&serial=0")));
            probes.push(("HEAD", format!("/json-delta?session={sess}&serial=0")));
            probes.push(("GET", format!("/json-delta?session={sess}&serial=1")));
        }
        None => rep.divergence(PID, "initial: /json-delta/notify did not hand out a session before the first run".to_string()),
    }
    for (method, path) in probes {
        rep.eval(PID);
        match http_request(srv.fx.http_port, method, &path, &[], None, std::time::Duration::from_secs(20)) {
            Ok(r) => {
                if r.status != 503 {
                    rep.violation(PID, "initial/status", format!("{method} {path} before the first validation run answered {} instead of 503", r.status),
                        json!({"request": path, "method": method, "state": "no run yet"}), json!({"status": r.status}));
                }
                else { rep.nontrivial(PID, format!("initial|{method}|{path}")); }
            }
            Err(e) => rep.violation(PID, "initial/no-response", format!("{method} {path}: {e}"), json!({"request": path}), json!({"error": e})),
        }
    }
}

fn protocol_after_runs(rep: &mut Report, srv: &mut Srv) -> Result<(), String> {
    let session = srv.session();
    let serial = srv.serial();
    let ctx = json!({"state": format!("session {session}, serial {serial}"), "data": "as left by the sweep"});
    // HEAD
    for path in ["/json-delta".to_string(), path_of(Some((session, serial.wrapping_sub(1))))] {
        rep.eval(PID);
        let r = http_request(srv.fx.http_port, "HEAD", &path, &[], None, std::time::Duration::from_secs(20))?;
        if r.status != 200 || !r.body.is_empty() || r.header("content-type") != Some("application/json") {
            rep.violation(PID, "head", format!("HEAD {path}: status {}, {} body bytes, content type {:?}", r.status, r.body.len(), r.header("content-type")),
                ctx.clone(), json!({"status": r.status}));
        }
        else { rep.nontrivial(PID, format!("head|{}", path.contains('?'))); }
    }
    // content type of GET
    let r = http_get(srv.fx.http_port, "/json-delta", &[])?;
    rep.eval(PID);
    if r.header("content-type") != Some("application/json") {
        rep.violation(PID, "content-type", format!("GET /json-delta has content type {:?}", r.header("content-type")), ctx.clone(), json!({}));
    }
    // foreign session, serial from the future, serial older than the history keeps: all must be full, exact resets
    let queries = [
        ("foreign-session", (session.wrapping_add(1), serial)),
        ("foreign-session-old", (session ^ 0x5555, serial.wrapping_sub(1))),
        ("future-serial", (session, serial.wrapping_add(5))),
        ("half-space-serial", (session, serial.wrapping_add(0x8000_0000))),
        ("evicted-serial", (session, serial.wrapping_sub(40))),
        ("current-serial", (session, serial)),
        ("previous-serial", (session, serial.wrapping_sub(1))),
        ("oldest-kept-serial", (session, serial.wrapping_sub(9))),
    ];
    for (name, q) in queries {
        if let Some(r) = get_checked(rep, srv, Some(q), name, &ctx) {
            let expect_reset = !matches!(name, "current-serial" | "previous-serial" | "oldest-kept-serial");
            if r.ok && r.reset == expect_reset { rep.nontrivial(PID, format!("protocol|{name}")); }
            else if r.reset != expect_reset { rep.divergence(PID, format!("{name}: answered with a {}", if r.reset { "reset" } else { "delta" })); }
        }
    }
    Ok(())
}

//------------ main ---------------------------------------------------------------------------

fn boundary_counts(cal: &Cal, kind: &str, upto: usize) -> Vec<usize> {
    // item counts at which the reset document gains a chunk (predicted from the measured sizes)
    let item = if kind == "origins" { cal.o_base + 5 } else { cal.k_base + 5 };
    let mut out = Vec::new();
    let mut vec = cal.h_reset + 2;
    for n in 1..=upto {
        vec += item + (n > 1) as usize;
        if vec > LIMIT { out.push(n); vec = 0; }
    }
    out
}

pub fn main(args: &Args) -> i32 {
    let mut rep = Report::new("jsondelta");
    rep.touch(PID);
    let mut rng = Rng::new(args.seed);
    let thorough = args.thorough();
    let parts: BTreeSet<String> = args.opt("parts").unwrap_or(if thorough { "protocol,cases,sweep,aspa-sweep" } else { "protocol,cases,sweep" }).split(',').map(String::from).collect();
    let mut tool_errors: Vec<String> = Vec::new();

    if parts.contains("protocol") {
        if let Err(m) = catch(std::panic::AssertUnwindSafe(|| protocol_before_first_run(&mut rep))) {
            rep.violation(PID, "panic/initial", format!("panic: {m}"), json!({"part": "protocol before the first run"}), json!({"panic": m}));
        }
    }

    //--- model cases
    if parts.contains("cases") {
        let behaviours = args.input.as_deref().map(read_behaviours).unwrap_or_default();
        let mut by_class: BTreeMap<String, Vec<Case>> = BTreeMap::new();
        let mut seen: BTreeSet<String> = BTreeSet::new();
        for v in &behaviours {
            let c = parse_case(v);
            let key = format!("{}|{}|{:?}", c.delta, v["items"], c.boundary);
            if !seen.insert(key) { continue }
            by_class.entry(class_of(&c)).or_default().push(c);
        }
        let per_class = args.opt_usize("per-class", if thorough { 2 } else { 1 });
        let max_cases = args.opt_usize("max-cases", usize::MAX);
        // quick tier: the classes are grouped by (stream, token before | after the boundary) and a few
        // classes (differing in which groups of items are empty) are taken from each group
        let per_group = args.opt_usize("per-group", if thorough { usize::MAX } else { 3 });
        let mut groups: BTreeMap<String, Vec<String>> = BTreeMap::new();
        for class in by_class.keys() {
            let mut parts = class.split(':');
            let coarse = format!("{}:{}", parts.next().unwrap(), parts.nth(1).unwrap());
            groups.entry(coarse).or_default().push(class.clone());
        }
        let mut chosen: BTreeSet<String> = BTreeSet::new();
        for (coarse, classes) in groups.iter_mut() {
            rng.shuffle(classes);
            let take = if coarse.ends_with("single") { per_group.saturating_mul(4) } else { per_group };
            for c in classes.iter().take(take) { chosen.insert(c.clone()); }
        }
        rep.note(PID, "model_case_groups", json!(groups.len()));
        rep.note(PID, "model_case_classes_chosen", json!(chosen.len()));
        rep.note(PID, "model_cases_distinct", json!(seen.len()));
        rep.note(PID, "model_case_classes", json!(by_class.len()));
        let res = catch(std::panic::AssertUnwindSafe(|| -> Result<(), String> {
            let factory = Arc::new(Factory::new());
            let mut srv = Srv::with_aspas(factory)?;
            let cal = calibrate(&mut srv)?;
            rep.note(PID, "calibration", json!(format!("{cal:?}")));
            let mut st = CaseStats { realised: 0, unrealised: 0, unreachable: 0, pattern_off: 0, sampled: BTreeSet::new() };
            let mut done = 0usize;
            'outer: for (class, cases) in by_class.iter_mut() {
                if !chosen.contains(class) { continue }
                rng.shuffle(cases);
                // single-chunk documents are cheap: take more of them
                let take = if class.ends_with("single") { per_class * 4 } else { per_class };
                for c in cases.iter().take(take) {
                    run_case(&mut rep, &mut srv, &cal, c, class, &mut st)?;
                    done += 1;
                    if done >= max_cases { break 'outer }
                }
            }
            if parts.contains("aspa-sweep") {
                aspa_sweep(&mut rep, &mut srv, &cal, args.opt_usize("aspa-around", 3))?;
            }
            rep.note(PID, "cases_run", json!(done));
            rep.note(PID, "cases_seconds_publish_slurm_run", json!(format!("{:.1} {:.1} {:.1} ({} runs)", srv.t_publish, srv.t_slurm, srv.t_run, srv.runs)));
            rep.note(PID, "boundaries_realised", json!(st.realised));
            rep.note(PID, "boundaries_unrealised", json!(st.unrealised));
            rep.note(PID, "boundaries_unreachable_in_reality", json!(st.unreachable));
            Ok(())
        }));
        match res {
            Ok(Ok(())) => {}
            Ok(Err(e)) => tool_errors.push(format!("cases: {e}")),
            Err(m) => rep.violation(PID, "panic/cases", format!("panic while serving a model case: {m}"), json!({"part": "cases"}), json!({"panic": m})),
        }
    }

    //--- sweeps and protocol on a plain server
    if parts.contains("sweep") || parts.contains("protocol") {
        let res = catch(std::panic::AssertUnwindSafe(|| -> Result<(), String> {
            let mut srv = Srv::plain();
            let cal = calibrate(&mut srv)?;
            if parts.contains("sweep") {
                // replay of one sweep step: sweep-only=<kind>:<previous n>:<n>
                let only: Option<(String, usize, usize)> = args.opt("sweep-only").and_then(|v| {
                    let mut p = v.split(':');
                    Some((p.next()?.to_string(), p.next()?.parse().ok()?, p.next()?.parse().ok()?))
                });
                for (kind, upto) in [("origins", args.opt_usize("max-origins", 1500)), ("keys", args.opt_usize("max-keys", 700))] {
                    if let Some((k, _, _)) = only.as_ref() { if k != kind { continue } }
                    let ns: Vec<usize> = if let Some((_, prev, n)) = only.as_ref() { vec![*prev, *n] }
                    else if thorough { (0..=upto).collect() } else {
                        let mut s: BTreeSet<usize> = [0usize, 1, 2].into_iter().collect();
                        for b in boundary_counts(&cal, kind, upto).iter().take(2) {
                            for n in b.saturating_sub(6)..=b + 6 { s.insert(n); }
                        }
                        s.into_iter().collect()
                    };
                    rep.note(PID, &format!("sweep_{kind}_counts"), json!(format!("{} counts, {}..{}", ns.len(), ns.first().unwrap(), ns.last().unwrap())));
                    rep.note(PID, &format!("sweep_{kind}_predicted_boundaries"), json!(boundary_counts(&cal, kind, upto)));
                    sweep(&mut rep, &mut srv, kind, &ns)?;
                }
            }
            if parts.contains("protocol") {
                // make sure the history is longer than it keeps
                for i in 0..14u32 { srv.install(&sweep_set("origins", 2 + i % 2, 3 + i as usize))?; }
                protocol_after_runs(&mut rep, &mut srv)?;
            }
            Ok(())
        }));
        match res {
            Ok(Ok(())) => {}
            Ok(Err(e)) => tool_errors.push(format!("sweep: {e}")),
            Err(m) => rep.violation(PID, "panic/sweep", format!("panic while serving a sweep document: {m}"), json!({"part": "sweep"}), json!({"panic": m})),
        }
    }

    if !tool_errors.is_empty() {
        eprintln!("vh jsondelta: {}", tool_errors.join("; "));
        rep.note(PID, "tool_errors", json!(tool_errors));
        // violations already found on concrete inputs stand; without any, the run is void
        if rep.violations(PID) == 0 {
            rep.write(args);
            return 2
        }
    }
    rep.write(args)
}
