//! Replay of `Gen_Refresh` worlds through the real engine (C39).
//!
//! World: TA = ca1 -> ca2 -> {ca3, ca4}, one repository, ROAs under every CA.
//! Every element with an expiry (CA certificate notAfter, manifest EE
//! notAfter, manifest nextUpdate, CRL nextUpdate per CA; EE notAfter per ROA)
//! gets the time the behaviour prescribes, in hours from the factory's `now`.
//! Each world is validated twice on a fresh cache:
//!   pass A with hook H8 (manifest entries in file name order) -- the result
//!          must equal the model's value for that order (divergence if not);
//!   pass B with the real shuffle -- the result must lie between the model's
//!          values for the two extreme orders (divergence if not).
//! In both passes the property's own oracle is evaluated from what was really
//! served: refresh <= Min over served ROAs of Min(times on its chain, its own).

use std::collections::{BTreeMap, BTreeSet};
use std::sync::{Arc, Mutex};
use serde_json::{json, Value};
use routinator::slurm::LocalExceptions;
use crate::common::{read_behaviours, Args, Report};
use crate::env::{run_once, TestBed};
use crate::gen::*;
use super::rpkitree::with_watchdog;

const PID: &str = "C39";
const REPO: &str = "rsync://repo.verif.test/repo/";

/// (ca, n) -> (file name, prefix, asn)
fn objects() -> Vec<((u64, u64), (&'static str, &'static str, u32))> {
    vec![
        ((1, 1), ("o1.roa", "10.128.0.0/24", 64511)),
        ((2, 1), ("a1.roa", "10.0.1.0/24", 64521)),   // sorts before ca3.cer / ca4.cer
        ((2, 2), ("o2.roa", "10.0.2.0/24", 64522)),   // sorts after them
        ((3, 1), ("o1.roa", "10.1.0.0/24", 64531)),
        ((4, 1), ("o1.roa", "10.2.0.0/24", 64541)),
    ]
}

fn vrp(prefix: &str, asn: u32) -> String {
    let (addr, len) = prefix.split_once('/').unwrap();
    format!("{addr}/{len}-{len} AS{asn}")
}

fn parent_of(c: u64) -> u64 { match c { 1 => 0, 2 => 1, _ => 2 } }

type Times = BTreeMap<(String, u64, u64), i64>;

fn times_of(b: &Value) -> Times {
    b["times"].as_array().unwrap().iter().map(|x| {
        let el = x["el"].as_array().unwrap();
        ((el[0].as_str().unwrap().to_string(), el[1].as_u64().unwrap(), el[2].as_u64().unwrap()), x["t"].as_i64().unwrap())
    }).collect()
}

/// The elements on the chain of CA `c`: (kind, ca, 0).
fn chain(c: u64) -> Vec<(String, u64, u64)> {
    let mut res = Vec::new();
    let mut a = c;
    while a != 0 {
        for k in ["cert", "mftee", "mftnext", "crlnext"] { res.push((k.to_string(), a, 0)); }
        a = parent_of(a);
    }
    res
}

fn fault_kind(s: &str) -> Fault {
    match s { "BadSig" => Fault::BadSig, "Expired" => Fault::Expired, "None" => Fault::None, x => panic!("fault kind {x}") }
}

fn build_world(b: &Value, t: &Times) -> World {
    let fsites: BTreeSet<(String, u64, u64)> = b["faults"].as_array().unwrap().iter().map(|f| {
        (f[0].as_str().unwrap().to_string(), f[1].as_u64().unwrap(), f[2].as_u64().unwrap())
    }).collect();
    let fkind = fault_kind(b["fkind"].as_str().unwrap());
    let at = |k: &str, c: u64, n: u64| t[&(k.to_string(), c, n)];
    let mut w = World::default();
    for c in 1..=4u64 {
        let parent = parent_of(c);
        let mut ca = Ca::new(&format!("ca{c}"), if parent == 0 { None } else { Some(parent as usize - 1) },
                             c as usize - 1, &format!("{REPO}ca{c}/"));
        ca.prefixes = vec![match c { 1 => "10.0.0.0/8", 2 => "10.0.0.0/14", 3 => "10.1.0.0/16", _ => "10.2.0.0/16" }.into()];
        ca.asns = vec![(64000, 65000)];
        ca.serial = 1000 + c;
        ca.validity = (-24, at("cert", c, 0));
        ca.mft.this_update = -2;
        ca.mft.next_update = at("mftnext", c, 0);
        ca.mft_validity = (-2, at("mftee", c, 0));
        ca.crl = (-2, at("crlnext", c, 0));
        if fsites.contains(&("cert".to_string(), c, 0)) { ca.cert_fault = fkind; }
        w.cas.push(ca);
    }
    for ((c, n), (name, prefix, asn)) in objects() {
        let f = if fsites.contains(&("obj".to_string(), c, n)) { fkind } else { Fault::None };
        w.cas[c as usize - 1].objects.push(Obj {
            name: name.into(), kind: ObjKind::Roa { asn, prefixes: vec![(prefix.into(), 24)] },
            serial: 10 + n, validity: (-2, at("obj", c, n)), fault: f,
        });
    }
    w.tals.push(Tal { name: "root".into(), ca: 0, uris: vec![("rsync://ta.verif.test/ta/root.cer".into(), TaVariant::Good)] });
    w
}

fn brief(b: &Value) -> Value {
    let short: Vec<Value> = b["times"].as_array().unwrap().iter().filter(|x| x["t"].as_i64() != Some(30)).cloned().collect();
    json!({"short": short, "faults": b["faults"], "fkind": b["fkind"]})
}

pub fn main(args: &Args) -> i32 {
    let behaviours = Arc::new(read_behaviours(args.input.as_deref().expect("--in")));
    let factory = Arc::new(Factory::new());
    let total = behaviours.len();
    let limit = args.opt_usize("limit", usize::MAX);
    let mut order: Vec<usize> = (0..total).collect();
    if limit < total {
        let mut rng = crate::common::Rng::new(args.seed);
        rng.shuffle(&mut order);
        order.truncate(limit);
        order.sort();
    }
    let nthreads = args.opt_usize("jobs", 12);
    let mut rep = Report::new("refresh");
    rep.touch(PID);
    for sorted in [true, false] {
        // Hook H8 is a process-wide switch, hence two passes.
        routinator::verif::set_switch("sort-manifest-entries", sorted);
        let work = Arc::new(Mutex::new(order.clone().into_iter()));
        let reports: Vec<Report> = std::thread::scope(|scope| {
            let handles: Vec<_> = (0..nthreads).map(|_| {
                let work = work.clone();
                let behaviours = behaviours.clone();
                let factory = factory.clone();
                scope.spawn(move || {
                    let mut local = Report::new("refresh");
                    let mut bed = TestBed::new();
                    loop {
                        let idx = match work.lock().unwrap().next() { Some(i) => i, None => break };
                        if one(&mut local, &bed, &factory, &behaviours[idx], idx, sorted) {
                            std::mem::forget(std::mem::replace(&mut bed, TestBed::new()));
                        }
                    }
                    local
                })
            }).collect();
            handles.into_iter().map(|h| h.join().expect("worker")).collect()
        });
        for r in reports { rep.absorb(r); }
    }
    routinator::verif::set_switch("sort-manifest-entries", false);
    // the stored-data path: the same worlds once more after an aborted update of ca2's publication point
    {
        let mut local = Report::new("refresh");
        let bed = TestBed::new();
        let mut n = 0usize;
        for idx in order.iter() {
            let b = &behaviours[*idx];
            let t = times_of(b);
            let short_mft = ["mftnext", "mftee"].iter().any(|k| t[&(k.to_string(), 2, 0)] != 30);
            if !short_mft || !b["faults"].as_array().unwrap().is_empty() { continue }
            for shorter in [true, false] { fallback_one(&mut local, &bed, &factory, b, *idx, shorter); n += 1; }
            if n >= args.opt_usize("fallback_limit", if args.thorough() { 400 } else { 60 }) { break }
        }
        local.note(PID, "fallback_histories", json!(n));
        rep.absorb(local);
    }
    // what is served: two worlds with the same payload through one SharedHistory, the second expiring earlier
    {
        let mut local = Report::new("refresh");
        let n = served_pass(&mut local, &factory, &behaviours, &order, args.opt_usize("served_limit", if args.thorough() { 120 } else { 24 }));
        local.note(PID, "served_histories", json!(n));
        rep.absorb(local);
    }
    rep.note(PID, "worlds_exported", json!(total));
    rep.note(PID, "worlds_replayed", json!(order.len()));
    rep.write(args)
}

/// The deadline attached to the data set that is *served* (SharedHistory::update, RunLoop.tla Install): world A is
/// validated and installed, then world B -- same payload, something on a contributing chain expiring earlier -- is
/// validated (fresh cache) and installed.  What the history serves afterwards must carry B's deadline.
fn served_pass(rep: &mut Report, factory: &Arc<Factory>, behaviours: &[Value], order: &[usize], limit: usize) -> usize {
    use routinator::engine::Engine;
    use routinator::payload::{SharedHistory, ValidationReport};
    let bound_of = |b: &Value| b["bound"].as_i64().unwrap_or(9999);
    let mut groups: BTreeMap<String, Vec<usize>> = BTreeMap::new();
    for idx in order {
        let b = &behaviours[*idx];
        if !b["faults"].as_array().unwrap().is_empty() || bound_of(b) == 9999 { continue }
        groups.entry(b["contributing"].to_string()).or_default().push(*idx);
    }
    let mut pairs: Vec<(usize, usize)> = Vec::new();
    for (_, mut g) in groups {
        g.sort_by_key(|i| std::cmp::Reverse(bound_of(&behaviours[*i])));
        let a = g[0];
        // one partner per distinct smaller bound
        let mut seen = BTreeSet::new();
        for i in g.iter().skip(1) {
            let bd = bound_of(&behaviours[*i]);
            if bd < bound_of(&behaviours[a]) && seen.insert((bd, brief(&behaviours[*i])["short"].to_string())) { pairs.push((a, *i)); }
        }
    }
    let step = (pairs.len() / limit.max(1)).max(1);
    let pairs: Vec<(usize, usize)> = pairs.into_iter().step_by(step).take(limit).collect();
    let bed = TestBed::new();
    let base = factory.now.timestamp();
    let mut n = 0;
    for (ia, ib) in pairs {
        let cfg = bed.config();
        let history = SharedHistory::from_config(&cfg);
        let mut refresh: Vec<Option<i64>> = Vec::new();
        let mut sizes: Vec<usize> = Vec::new();
        let mut failed = false;
        for idx in [ia, ib] {
            let b = &behaviours[idx];
            let t = times_of(b);
            bed.wipe_cache();
            bed.publish(&build_world(b, &t).build(factory));
            let res = (|| -> Result<(), String> {
                crate::env::init_process();
                let mut engine = Engine::new(&cfg, true).map_err(|_| "Engine::new".to_string())?;
                engine.ignite().map_err(|_| "ignite".to_string())?;
                let (report, metrics) = ValidationReport::process(&engine, &cfg, false).map_err(|_| "run failed".to_string())?;
                history.update(report, &LocalExceptions::empty(), metrics);
                Ok(())
            })();
            if let Err(e) = res { rep.divergence(PID, format!("served history ({ia}, {ib}): {e}")); failed = true; break }
            let cur = history.read().current();
            refresh.push(cur.as_ref().and_then(|s| s.refresh()).map(|t| t.timestamp()));
            sizes.push(cur.as_ref().map(|s| crate::env::payload_of(s).origins.len()).unwrap_or(0));
        }
        if failed { continue }
        n += 1;
        rep.eval(PID);
        rep.trace(PID);
        let (ba, bb) = (bound_of(&behaviours[ia]), bound_of(&behaviours[ib]));
        rep.nontrivial(PID, format!("served|{}|{}", brief(&behaviours[ia]), brief(&behaviours[ib])));
        if sizes[0] != sizes[1] || sizes[1] == 0 {
            rep.divergence(PID, format!("served history ({ia}, {ib}): payload sizes {sizes:?}, expected the same non-empty payload"));
            continue
        }
        let hours = |r: Option<i64>| r.map(|r| (r - base) as f64 / 3600.0);
        let observed = json!({"served_refresh_hours_after_first": hours(refresh[0]), "served_refresh_hours_after_second": hours(refresh[1]),
                              "bound_hours_first": ba, "bound_hours_second": bb});
        let ctx = json!({"history": "world A validated and installed, then world B (same payload, earlier expiry) validated and installed",
                         "first": brief(&behaviours[ia]), "second": brief(&behaviours[ib])});
        match refresh[1] {
            Some(r) if r > base + bb * 3600 => rep.violation(PID, "served-refresh-later-than/second-run-same-payload",
                format!("after the second run the served data set carries a refresh deadline {:.2} h from now; its contributing objects expire after {bb} h (the first run's did after {ba} h)",
                        (r - base) as f64 / 3600.0), ctx, observed),
            None => rep.violation(PID, "no-refresh-time", "payload is served without any refresh deadline".to_string(), ctx, observed),
            _ => {}
        }
    }
    n
}

/// The stored-data path.  Run 1 validates and stores the world.  Then ca2 issues a newer manifest (number + 1) that
/// lasts shorter (`shorter`) or longer than the stored one and lists a file that cannot be retrieved: the update is
/// abandoned and the stored point is used.  The payload comes from the stored manifest, so the deadline is bound by
/// the stored manifest's times, whatever the abandoned one said.
fn fallback_one(rep: &mut Report, bed: &TestBed, factory: &Arc<Factory>, b: &Value, idx: usize, shorter: bool) {
    let t = times_of(b);
    let world = build_world(b, &t);
    bed.wipe_cache();
    bed.publish(&world.build(factory));
    let cfg = bed.config();
    let ctx = || json!({"world": brief(b), "history": format!("stored, then an abandoned update of ca2 whose manifest lasts {}", if shorter { "shorter" } else { "longer" }),
                        "behaviour": b});
    let first = match run_once(&cfg, true, &LocalExceptions::empty()) { Ok(r) => r.payload, Err(e) => { rep.divergence(PID, format!("world {idx}: first run failed {e:?}")); return } };
    let mut w2 = build_world(b, &t);
    {
        let ca2 = &mut w2.cas[1];
        let t1 = t[&("mftnext".to_string(), 2, 0)].min(t[&("mftee".to_string(), 2, 0)]);
        let t2 = if shorter { (t1 - 2).max(1) } else { 30 };
        ca2.mft.number = 2;
        ca2.mft.this_update = -1;
        ca2.mft.next_update = t2;
        ca2.mft_validity = (-2, t2);
        ca2.mft_serial += 1;
        ca2.objects[1].fault = Fault::Missing;
    }
    bed.publish_files(&w2.build(factory));
    let second = match run_once(&cfg, true, &LocalExceptions::empty()) { Ok(r) => r.payload, Err(e) => { rep.divergence(PID, format!("world {idx}: second run failed {e:?}")); return } };
    rep.eval(PID);
    if second.origins != first.origins {
        rep.divergence(PID, format!("world {idx}: the abandoned update changed the payload ({} -> {} origins): the stored point was not used", first.origins.len(), second.origins.len()));
        return
    }
    let base = factory.now.timestamp();
    let mut relevant: Vec<(i64, (String, u64, u64))> = Vec::new();
    for (key, (_, prefix, asn)) in objects() {
        if !second.origins.contains(&vrp(prefix, asn)) { continue }
        for el in chain(key.0) { relevant.push((t[&el], el)); }
        let el = ("obj".to_string(), key.0, key.1);
        relevant.push((t[&el], el));
    }
    relevant.sort();
    let bound = match relevant.first() { Some(x) => x.0, None => return };
    rep.nontrivial(PID, format!("fallback|{}|{}", brief(b), shorter));
    rep.trace(PID);
    let observed = json!({"refresh_hours_from_now": second.refresh.map(|r| (r - base) as f64 / 3600.0), "bound_hours": bound,
                          "first_run_refresh_hours": first.refresh.map(|r| (r - base) as f64 / 3600.0)});
    match second.refresh {
        Some(r) if r > base + bound * 3600 => {
            rep.violation(PID, &format!("refresh-later-than/stored-manifest/{}", if shorter { "abandoned-shorter" } else { "abandoned-longer" }),
                format!("payload comes from the stored publication point; the refresh deadline is {:.2} h from now although {:?} expires after {} h",
                        (r - base) as f64 / 3600.0, relevant.first().map(|x| &x.1), bound), ctx(), observed);
        }
        None => rep.violation(PID, "no-refresh-time", "payload is served without any refresh deadline".to_string(), ctx(), observed),
        _ => {}
    }
}

fn one(rep: &mut Report, bed: &TestBed, factory: &Arc<Factory>, b: &Value, idx: usize, sorted: bool) -> bool {
    let t = times_of(b);
    let world = build_world(b, &t);
    let published = world.build(factory);
    bed.wipe_cache();
    bed.publish(&published);
    let _ = bed.take_rsync_log();
    let mut cfg = bed.config();
    cfg.validation_threads = [1, 2, 4][(idx + if sorted { 0 } else { 1 }) % 3];
    let threads = cfg.validation_threads;
    let res = with_watchdog(60, move || {
        crate::common::catch(std::panic::AssertUnwindSafe(|| run_once(&cfg, true, &LocalExceptions::empty())))
    });
    let ctx = || json!({"world": brief(b), "order": if sorted { "file-name (hook H8)" } else { "shuffled" },
                        "threads": threads, "behaviour": b});
    rep.eval(PID);
    let payload = match res {
        None => { rep.add_note(PID, "hung_runs", 1); rep.divergence(PID, format!("world {idx}: run did not terminate")); return true }
        Some(Err(msg)) => { rep.add_note(PID, "panics", 1); rep.divergence(PID, format!("world {idx}: panic {msg}")); return false }
        Some(Ok(Err(e))) => { rep.add_note(PID, "failed_runs", 1); rep.divergence(PID, format!("world {idx}: run failed {e:?}")); return false }
        Some(Ok(Ok(r))) => r.payload,
    };
    let base = factory.now.timestamp();

    // ---- what was really served, and the property's bound for it
    let mut served: BTreeSet<(u64, u64)> = BTreeSet::new();
    for (key, (_, prefix, asn)) in objects() {
        if payload.origins.contains(&vrp(prefix, asn)) { served.insert(key); }
    }
    // (hours, element) of everything on the chain of a served object, and the object itself
    let mut relevant: Vec<(i64, (String, u64, u64))> = Vec::new();
    for (c, n) in &served {
        for el in chain(*c) { relevant.push((t[&el], el)); }
        let el = ("obj".to_string(), *c, *n);
        relevant.push((t[&el], el));
    }
    relevant.sort();
    relevant.dedup();
    let bound = relevant.first().map(|x| x.0);
    let observed = json!({"refresh_unix": payload.refresh, "refresh_hours_from_now": payload.refresh.map(|r| (r - base) as f64 / 3600.0),
                          "bound_hours": bound, "served": served, "origins": payload.origins,
                          "model": {"bound": b["bound"], "sorted": b["sorted"], "lo": b["lo"], "hi": b["hi"]}});
    if let Some(bound) = bound {
        if bound < 30 { rep.nontrivial(PID, brief(b).to_string()); }
        match payload.refresh {
            None => {
                rep.violation(PID, "no-refresh-time",
                    "payload is served without any refresh deadline".to_string(), ctx(), observed.clone());
            }
            Some(r) if r > base + bound * 3600 => {
                // name the elements whose expiry the deadline overshoots
                let mut ignored: Vec<String> = relevant.iter().filter(|x| base + x.0 * 3600 < r).map(|x| {
                    match (x.1 .0.as_str(), x.1 .1) { ("cert", 1) => "ta-cert".to_string(), ("cert", _) => "ca-cert".to_string(),
                                                      ("obj", _) => "object-ee".to_string(), (k, _) => k.to_string() }
                }).collect();
                ignored.sort(); ignored.dedup();
                rep.violation(PID, &format!("refresh-later-than/{}", ignored.join("+")),
                    format!("refresh deadline is {:.2} h from now, but {:?} on the chain of served payload expires after {} h",
                            (r - base) as f64 / 3600.0, relevant.iter().find(|x| base + x.0 * 3600 < r).map(|x| &x.1), bound),
                    ctx(), observed.clone());
            }
            Some(_) => {}
        }
    }

    // ---- comparison with the model
    let exp_contrib: BTreeSet<(u64, u64)> = b["contributing"].as_array().unwrap().iter()
        .map(|o| (o[0].as_u64().unwrap(), o[1].as_u64().unwrap())).collect();
    if served != exp_contrib {
        rep.divergence(PID, format!("world {idx} {}: served objects {:?}, model expects {:?}", brief(b), served, exp_contrib));
    }
    let hours = payload.refresh.map(|r| (r - base) as f64 / 3600.0);
    let as_model = |v: &Value| -> Option<f64> { let x = v.as_i64().unwrap(); if x == 9999 { None } else { Some(x as f64) } };
    if sorted {
        if hours != as_model(&b["sorted"]) {
            rep.divergence(PID, format!("world {idx} {} (file-name order): refresh {:?} h, model {:?} h", brief(b), hours, as_model(&b["sorted"])));
        }
        rep.trace(PID);
    } else {
        let (lo, hi) = (as_model(&b["lo"]), as_model(&b["hi"]));
        let inside = match (hours, lo, hi) { (Some(h), Some(lo), Some(hi)) => lo <= h && h <= hi, (None, None, None) => true, _ => false };
        if !inside {
            rep.divergence(PID, format!("world {idx} {} (shuffled): refresh {:?} h outside the model's window [{:?}, {:?}]", brief(b), hours, lo, hi));
        }
        if lo != hi {
            rep.add_note(PID, "order_dependent_worlds", 1);
            if hours == lo { rep.add_note(PID, "shuffled_runs_at_tight_end", 1); }
            if hours == hi { rep.add_note(PID, "shuffled_runs_at_loose_end", 1); }
        }
    }
    rep.sample(PID, json!({"world": brief(b), "order": if sorted { "file-name" } else { "shuffled" }, "observed": observed}));
    false
}
