//! Random driver for `SharedHistory` that records what the real code did as
//! an ndjson trace for `Trace_History.tla` (properties C13, C14; direction
//! implementation -> specification).
//!
//! Episodes: a fresh history with a random history-size, optionally seeded
//! with a start serial near the 32-bit wrap, then 20..60 steps: runs that
//! install a random subset of a six-item universe (origins plus router keys,
//! through the public API: empty report + SLURM assertions) and queries at
//! serials around the retained window, half the number space away, random,
//! own and foreign session.  Serials are logged as signed 32-bit values (TLC
//! integers are 32 bit); the specification uses them as names only (Succ and
//! equality), so no arithmetic overflows.
//!
//! Events:
//!   {"ev":"reset","keep":k}
//!   {"ev":"seed","serial":s}
//!   {"ev":"run","set":[ids],"changed":b,"serial":s,"ndeltas":n}
//!   {"ev":"query","serial":s,"own":b,"res":"refuse"|"delta","ann":[ids],"wd":[ids],"dup":b,"tag":s,"tagown":b}

use std::io::Write;
use serde_json::{json, Value};
use routinator::metrics::Metrics;
use routinator::payload::{SharedHistory, ValidationReport};
use routinator::slurm::LocalExceptions;
use rpki::rtr::payload::PayloadRef;
use rpki::rtr::server::{PayloadDiff, PayloadSource};
use rpki::rtr::{Serial, State};
use crate::common::{catch, Args, Report, Rng};
use super::history::config;

const PREFIXES: [(&str, u8, u32); 4] = [
    ("10.1.0.0/16", 16, 64501),
    ("2001:db8::/32", 48, 64502),
    ("10.1.0.0/16", 24, 64501),
    ("192.0.2.0/24", 24, 64503),
];
const KEYS: [(u32, u8); 2] = [(64601, 0x11), (64602, 0x22)];
const NIDS: u64 = 6;

fn slurm(set: u64) -> LocalExceptions {
    let mut pfx = Vec::new();
    let mut keys = Vec::new();
    for i in 0..4 {
        if set & (1 << i) != 0 {
            let (p, m, a) = PREFIXES[i];
            pfx.push(json!({"asn": a, "prefix": p, "maxPrefixLength": m}));
        }
    }
    for i in 0..2 {
        if set & (1 << (4 + i)) != 0 {
            let (a, b) = KEYS[i];
            let b64 = |x: &[u8]| rpki::util::base64::Slurm.encode(x);
            keys.push(json!({"asn": a, "SKI": b64(&[b; 20]), "routerPublicKey": b64(&[0xa0 + (b % 16); 40])}));
        }
    }
    let doc = json!({
        "slurmVersion": 1,
        "validationOutputFilters": {"prefixFilters": [], "bgpsecFilters": []},
        "locallyAddedAssertions": {"prefixAssertions": pfx, "bgpsecAssertions": keys}
    });
    LocalExceptions::from_json(&doc.to_string(), false).expect("slurm")
}

/// The identifier (1..=6) of a payload item, 0 for anything outside the universe.
fn id_of(p: PayloadRef<'_>) -> i64 {
    match p {
        PayloadRef::Origin(o) => {
            let s = format!("{}/{}", o.prefix.addr(), o.prefix.prefix_len());
            for (i, (p, m, a)) in PREFIXES.iter().enumerate() {
                if *p == s && *m == o.prefix.resolved_max_len() && *a == o.asn.into_u32() { return i as i64 + 1 }
            }
            0
        }
        PayloadRef::RouterKey(k) => {
            for (i, (a, b)) in KEYS.iter().enumerate() {
                if *a == k.asn.into_u32() && k.key_identifier == rpki::crypto::KeyIdentifier::from([*b; 20]) {
                    return i as i64 + 5
                }
            }
            0
        }
        _ => 0,
    }
}

fn ids(set: u64) -> Vec<i64> {
    (0..NIDS).filter(|i| set & (1 << i) != 0).map(|i| i as i64 + 1).collect()
}

pub fn main(args: &Args) -> i32 {
    let mut rep = Report::new("histtrace");
    rep.touch("C13");
    rep.touch("C14");
    let path = args.opt("trace").expect("--opt trace=FILE").to_string();
    let episodes = args.opt_usize("episodes", 40);
    let mut out = std::io::BufWriter::new(std::fs::File::create(&path).expect("trace file"));
    let mut rng = Rng::new(args.seed ^ 0x4849_5354);
    let mut events = 0u64;
    let mut emit = |v: Value, out: &mut std::io::BufWriter<std::fs::File>| {
        writeln!(out, "{}", v).unwrap();
        events += 1;
    };
    for ep in 0..episodes {
        let res = catch(std::panic::AssertUnwindSafe(|| {
        let keep = *rng.pick(&[0usize, 1, 1, 2, 3, 3, 5, 10]);
        let cfg = config(keep);
        let hist = SharedHistory::from_config(&cfg);
        let own = hist.read().rtr_session();
        emit(json!({"ev": "reset", "keep": keep}), &mut out);
        let mut seeded = false;
        if ep % 4 != 0 {
            // start close below the wrap of the 32-bit space, of the signed range, or anywhere
            let s: u32 = match rng.below(4) {
                0 => 0xFFFF_FFFFu32.wrapping_sub(rng.below(6) as u32),
                1 => 0x7FFF_FFFFu32.wrapping_sub(rng.below(6) as u32),
                2 => rng.below(5) as u32,
                _ => rng.next() as u32,
            };
            hist.verif_seed_serial(Serial::from(s));
            emit(json!({"ev": "seed", "serial": s as i32}), &mut out);
            seeded = true;
        }
        let steps = 20 + rng.below(41);
        let mut runs = 0u64;
        let mut changes = 0u64;
        let mut issued: Vec<u32> = Vec::new();
        let mut last_set: Option<u64> = None;
        for _ in 0..steps {
            let do_run = runs == 0 || rng.below(3) == 0;
            if do_run {
                // mostly small changes, sometimes the same set again, sometimes keys only
                let set = match (last_set, rng.below(6)) {
                    (Some(s), 0) => s,
                    (Some(s), 1) => s ^ (1 << (4 + rng.below(2))),
                    (Some(s), 2) => s ^ (1 << rng.below(NIDS)),
                    _ => rng.below(1 << NIDS),
                };
                let report = ValidationReport::new(&cfg);
                let changed = hist.update(report, &slurm(set), Metrics::new());
                hist.mark_update_done();
                let serial: u32 = hist.read().serial().into();
                emit(json!({"ev": "run", "set": ids(set), "changed": changed, "serial": serial as i32,
                            "ndeltas": hist.verif_delta_count()}), &mut out);
                if last_set.map(|l| l != set).unwrap_or(false) { changes += 1 }
                if issued.last() != Some(&serial) { issued.push(serial) }
                last_set = Some(set);
                runs += 1;
                rep.eval("C14");
                continue
            }
            let cur: u32 = hist.read().serial().into();
            let s: u32 = match rng.below(10) {
                0 => cur,
                1 | 2 | 3 => cur.wrapping_sub(rng.below(keep as u64 + 4) as u32),
                4 => *rng.pick(&issued),
                5 => cur.wrapping_add(1 + rng.below(3) as u32),
                6 => cur.wrapping_add(0x8000_0000),
                7 => cur.wrapping_add(0x7FFF_FFFF).wrapping_add(rng.below(3) as u32),
                8 => rng.next() as u32,
                _ => cur.wrapping_sub(rng.below(70) as u32),
            };
            // the seed hook stores an empty change set leading to the start serial: "one behind the start" is an
            // artefact of the hook, not a serial the real server could be asked about in that state
            if seeded && changes == 0 && s == cur.wrapping_sub(1) { continue }
            let is_own = rng.below(8) != 0;
            let session = if is_own { own } else { own.wrapping_add(1 + rng.below(3) as u16) };
            rep.eval("C13");
            match hist.diff(State::from_parts(session, Serial::from(s))) {
                None => emit(json!({"ev": "query", "serial": s as i32, "own": is_own, "res": "refuse",
                                    "ann": [], "wd": [], "dup": false, "tag": 0, "tagown": true}), &mut out),
                Some((state, mut diff)) => {
                    let mut ann = Vec::new();
                    let mut wd = Vec::new();
                    let mut dup = false;
                    while let Some((pl, a)) = diff.next() {
                        let id = id_of(pl);
                        let v = if a.is_announce() { &mut ann } else { &mut wd };
                        if v.contains(&id) { dup = true }
                        v.push(id);
                    }
                    emit(json!({"ev": "query", "serial": s as i32, "own": is_own, "res": "delta",
                                "ann": ann, "wd": wd, "dup": dup,
                                "tag": u32::from(state.serial()) as i32, "tagown": state.session() == own}), &mut out);
                }
            }
        }
        rep.trace("C13");
        rep.trace("C14");
        if changes as usize > keep.max(1) { rep.nontrivial("C14", format!("ep{ep}")) }
        if changes >= 2 { rep.nontrivial("C13", format!("ep{ep}")) }
        }));
        if let Err(msg) = res {
            for pid in ["C13", "C14"] {
                if args.wants(pid) {
                    rep.violation(pid, "panic", format!("panic in history code (histtrace episode {ep}): {msg}"),
                        json!({"episode": ep, "seed": args.seed}), json!({"panic": msg}));
                }
            }
        }
    }
    out.flush().unwrap();
    rep.note("C13", "trace_events", json!(events));
    rep.write(args)
}
