//! Replay of `Gen_Delta` behaviours against `routinator::payload::{PayloadSnapshot,
//! PayloadDelta}` (properties C11, C12).
//!
//! A behaviour is a triple of abstract data sets (a, b, c) with the action
//! lists the specification expects for construct(a,b), construct(b,c) and
//! their merge.  Abstract items are ranks into a concrete dictionary sorted
//! with the real `Ord`, so that order means the same on both sides.

use std::collections::{BTreeMap, BTreeSet};
use std::sync::Arc;
use serde_json::{json, Value};
use routinator::payload::{PayloadDelta, PayloadInfo, PayloadSnapshot};
use routinator::slurm::ExceptionInfo;
use rpki::crypto::keys::KeyIdentifier;
use rpki::resources::{Asn, MaxLenPrefix, Prefix};
use rpki::rtr::payload::{Action, Aspa, PayloadRef, RouteOrigin, RouterKey};
use rpki::rtr::pdu::{ProviderAsns, RouterKeyInfo};
use rpki::rtr::server::PayloadDiff;
use rpki::rtr::Serial;
use crate::common::{catch, read_behaviours, Args, Report};

//------------ Dictionaries ---------------------------------------------------

#[derive(Clone)]
pub struct Dict {
    pub name: &'static str,
    pub origins: Vec<RouteOrigin>,
    pub keys: Vec<RouterKey>,
    pub customers: Vec<Asn>,
    pub providers: Vec<Asn>,
}

pub fn origin(prefix: &str, max: u8, asn: u32) -> RouteOrigin {
    let p: Prefix = prefix.parse().expect("prefix");
    RouteOrigin::new(MaxLenPrefix::new(p, Some(max)).expect("maxlen"), Asn::from_u32(asn))
}

pub fn router_key(ski: u8, asn: u32, key: u8) -> RouterKey {
    let ski = KeyIdentifier::from([ski; 20]);
    let info = RouterKeyInfo::new(bytes::Bytes::from(vec![key; 32])).expect("key info");
    RouterKey::new(ski, Asn::from_u32(asn), info)
}

pub fn dicts() -> Vec<Dict> {
    let mut res = vec![
        Dict {
            name: "mixed-families",
            origins: vec![
                origin("10.1.0.0/16", 16, 64501), origin("10.2.0.0/16", 24, 64502),
                origin("2001:db8:1::/48", 48, 64503), origin("2001:db8:2::/48", 64, 64504),
            ],
            keys: vec![router_key(1, 64501, 7), router_key(2, 64501, 7), router_key(3, 64502, 9)],
            customers: vec![Asn::from_u32(64601), Asn::from_u32(64602), Asn::from_u32(64603)],
            providers: vec![Asn::from_u32(64701), Asn::from_u32(64702), Asn::from_u32(64703)],
        },
        Dict {
            name: "same-prefix-close-items",
            origins: vec![
                origin("192.0.2.0/24", 24, 1), origin("192.0.2.0/24", 24, 2),
                origin("192.0.2.0/24", 25, 1), origin("192.0.2.0/25", 25, 1),
            ],
            keys: vec![router_key(5, 1, 1), router_key(5, 2, 1), router_key(5, 2, 2)],
            customers: vec![Asn::from_u32(0), Asn::from_u32(1), Asn::from_u32(u32::MAX)],
            providers: vec![Asn::from_u32(0), Asn::from_u32(2), Asn::from_u32(u32::MAX)],
        },
        Dict {
            name: "v6-and-extreme-asns",
            origins: vec![
                origin("::/0", 0, 0), origin("2001:db8::/32", 128, u32::MAX),
                origin("2001:db8::/33", 33, 65000), origin("0.0.0.0/0", 32, 65000),
            ],
            keys: vec![router_key(0, 0, 0), router_key(255, u32::MAX, 255), router_key(255, u32::MAX, 0)],
            customers: vec![Asn::from_u32(65000), Asn::from_u32(65001), Asn::from_u32(65002)],
            providers: vec![Asn::from_u32(65000), Asn::from_u32(65001), Asn::from_u32(65002)],
        },
    ];
    for d in &mut res {
        d.origins.sort();
        d.keys.sort();
        d.customers.sort();
        d.providers.sort();
    }
    res
}

//------------ Abstract data sets ---------------------------------------------

#[derive(Clone, Debug, PartialEq, Eq, PartialOrd, Ord)]
pub struct AbsSet {
    pub o: BTreeSet<usize>,
    pub k: BTreeSet<usize>,
    /// customer rank -> provider ranks
    pub a: BTreeMap<usize, BTreeSet<usize>>,
}

impl AbsSet {
    pub fn from_json(v: &Value) -> Self {
        let ints = |x: &Value| -> BTreeSet<usize> {
            x.as_array().map(|a| a.iter().map(|i| i.as_u64().unwrap() as usize).collect())
                .unwrap_or_default()
        };
        let mut a = BTreeMap::new();
        if let Some(arr) = v["a"].as_array() {
            for (idx, item) in arr.iter().enumerate() {
                let provs = ints(item);
                if provs.len() == 1 && provs.contains(&0) { continue } // Absent
                a.insert(idx + 1, provs);
            }
        }
        AbsSet { o: ints(&v["o"]), k: ints(&v["k"]), a }
    }

    pub fn to_json(&self) -> Value {
        json!({"o": self.o, "k": self.k, "a": self.a})
    }
}

fn info() -> PayloadInfo {
    PayloadInfo::from(Arc::new(ExceptionInfo::default()))
}

pub fn providers(d: &Dict, ranks: &BTreeSet<usize>) -> ProviderAsns {
    ProviderAsns::try_from_iter(ranks.iter().map(|r| d.providers[r - 1])).expect("providers")
}

pub fn snapshot(d: &Dict, s: &AbsSet, rev: bool) -> PayloadSnapshot {
    // The constructor sorts; feed it in reverse order half of the time.
    let mut o: Vec<_> = s.o.iter().map(|r| (d.origins[r - 1], info())).collect();
    let mut k: Vec<_> = s.k.iter().map(|r| (d.keys[r - 1].clone(), info())).collect();
    let mut a: Vec<_> = s.a.iter().map(|(c, p)| {
        (Aspa::new(d.customers[c - 1], providers(d, p)), info())
    }).collect();
    if rev { o.reverse(); k.reverse(); a.reverse(); }
    PayloadSnapshot::new(o.into_iter(), k.into_iter(), a.into_iter(), None)
}

/// The visible action list in abstract terms: (type, rank, provider ranks, action).
pub type AbsAction = (String, usize, Vec<usize>, String);

fn rank<T: PartialEq>(xs: &[T], x: &T) -> usize {
    xs.iter().position(|y| y == x).map(|p| p + 1).unwrap_or(0)
}

fn abs_action(d: &Dict, p: PayloadRef<'_>, a: Action) -> AbsAction {
    let act = if a.is_announce() { "A" } else { "W" }.to_string();
    match p {
        PayloadRef::Origin(o) => ("origin".into(), rank(&d.origins, &o), vec![], act),
        PayloadRef::RouterKey(k) => ("key".into(), rank(&d.keys, k), vec![], act),
        PayloadRef::Aspa(x) => (
            "aspa".into(), rank(&d.customers, &x.customer),
            x.providers.iter().map(|p| rank(&d.providers, &p)).collect(), act
        ),
    }
}

pub fn abs_actions(d: &Dict, delta: &PayloadDelta) -> Vec<AbsAction> {
    delta.actions().map(|(p, a)| abs_action(d, p, a)).collect()
}

pub fn abs_actions_arc(d: &Dict, delta: &PayloadDelta) -> Vec<AbsAction> {
    let mut it = Arc::new(delta.clone()).arc_iter();
    let mut res = Vec::new();
    while let Some((p, a)) = it.next() {
        res.push(abs_action(d, p, a));
    }
    res
}

pub fn expected_actions(v: &Value) -> Vec<AbsAction> {
    v.as_array().map(|arr| arr.iter().map(|x| (
        x[0].as_str().unwrap().to_string(),
        x[1].as_u64().unwrap() as usize,
        x[2].as_array().map(|p| p.iter().map(|i| i.as_u64().unwrap() as usize).collect()).unwrap_or_default(),
        x[3].as_str().unwrap().to_string(),
    )).collect()).unwrap_or_default()
}

/// What a client holding `s` has after processing the action list.
/// Returns Err if an action is not applicable (withdraw of an unknown item,
/// announce of an origin/key it already has) -- an RTR client would treat
/// that as a protocol error.
pub fn apply(s: &AbsSet, acts: &[AbsAction]) -> Result<AbsSet, String> {
    let mut r = s.clone();
    for (t, i, p, a) in acts {
        match (t.as_str(), a.as_str()) {
            ("origin", "A") => if !r.o.insert(*i) { return Err(format!("announce of known origin {i}")) },
            ("origin", _) => if !r.o.remove(i) { return Err(format!("withdraw of unknown origin {i}")) },
            ("key", "A") => if !r.k.insert(*i) { return Err(format!("announce of known key {i}")) },
            ("key", _) => if !r.k.remove(i) { return Err(format!("withdraw of unknown key {i}")) },
            ("aspa", "A") => {
                let new: BTreeSet<usize> = p.iter().copied().collect();
                if r.a.get(i) == Some(&new) { return Err(format!("announce of unchanged aspa {i}")) }
                r.a.insert(*i, new);
            }
            ("aspa", _) => if r.a.remove(i).is_none() { return Err(format!("withdraw of unknown aspa {i}")) },
            _ => return Err(format!("unknown action {t}/{a}")),
        }
        if *i == 0 { return Err("item outside the dictionary".into()) }
    }
    Ok(r)
}

fn count(acts: &[AbsAction], a: &str) -> usize {
    acts.iter().filter(|x| x.3 == a).count()
}

//------------ The replay -----------------------------------------------------

pub fn main(args: &Args) -> i32 {
    let mut rep = Report::new("delta");
    rep.touch("C11");
    rep.touch("C12");
    let behaviours = read_behaviours(args.input.as_deref().expect("--in"));
    let dicts = dicts();
    let all_dicts = args.thorough() || args.opt("all_dicts").is_some();
    for (idx, b) in behaviours.iter().enumerate() {
        let picks: Vec<usize> = if all_dicts { (0..dicts.len()).collect() }
            else { vec![(idx + args.seed as usize) % dicts.len()] };
        for di in picks {
            let d = &dicts[di];
            let res = catch(std::panic::AssertUnwindSafe(|| one(&mut rep, d, b, idx, args.seed)));
            if let Err(msg) = res {
                rep.violation("C11", "panic", format!("panic in delta code: {msg}"),
                    json!({"dict": d.name, "behaviour": b}), json!({"panic": msg}));
            }
        }
    }
    rep.write(args)
}

/// A sequence of data sets: the consecutive deltas are merged oldest first
/// (as `PayloadHistory::delta_since` does) and every intermediate merge is
/// compared with the direct delta.
fn sequence(rep: &mut Report, d: &Dict, b: &Value, idx: usize, seed: u64) {
    let sets: Vec<AbsSet> = b["sets"].as_array().unwrap().iter().map(AbsSet::from_json).collect();
    let rev = (idx as u64 + seed) % 2 == 1;
    let snaps: Vec<PayloadSnapshot> = sets.iter().enumerate().map(|(i, s)| snapshot(d, s, rev ^ (i % 2 == 1))).collect();
    let start: Serial = match idx % 3 { 0 => 0.into(), 1 => (u32::MAX - 1).into(), _ => 77.into() };
    let deltas: Vec<PayloadDelta> = (0..sets.len() - 1).map(|i| {
        let ser = start.add(i as u32);
        PayloadDelta::construct(&snaps[i], &snaps[i + 1], ser).unwrap_or_else(|| PayloadDelta::empty(ser.add(1)))
    }).collect();
    let mut acc = deltas[0].clone();
    for k in 1..deltas.len() {
        acc = acc.merge(&deltas[k]);
        let direct = PayloadDelta::construct(&snaps[0], &snaps[k + 1], start)
            .unwrap_or_else(|| PayloadDelta::empty(start.add(1)));
        let m_acts = abs_actions(d, &acc);
        let d_acts = abs_actions(d, &direct);
        rep.eval("C12");
        let ctx = json!({"dict": d.name, "sets": sets.iter().map(|s| s.to_json()).collect::<Vec<_>>(), "merged_deltas": k + 1});
        if k >= 2 { rep.nontrivial("C12", format!("seq|{}|{:?}|{}", d.name, sets, k)); }
        if m_acts != d_acts {
            rep.violation("C12", &format!("merge/differs-from-direct/{}-deltas", k + 1),
                format!("merging {} consecutive change sets differs from the direct change set", k + 1),
                ctx.clone(), json!({"merged": m_acts, "direct": d_acts}));
        }
        match apply(&sets[0], &m_acts) {
            Ok(ref got) if *got == sets[k + 1] => {}
            Ok(got) => rep.violation("C12", &format!("merge/apply/{}-deltas", k + 1),
                "a client catching up over several versions does not end with the current data set",
                ctx.clone(), json!({"merged": m_acts, "result": got.to_json()})),
            Err(e) => rep.violation("C12", &format!("merge/not-applicable/{}-deltas", k + 1), e, ctx.clone(), json!({"merged": m_acts})),
        }
        if acc.announce_len() != count(&m_acts, "A") || acc.withdraw_len() != count(&m_acts, "W") {
            rep.violation("C12", "merge/counts", "announce_len/withdraw_len of a merged change set do not match its actions",
                ctx.clone(), json!({"merged": m_acts}));
        }
        let exp = expected_actions(&b["merged"][k - 1]);
        if m_acts != exp {
            rep.divergence("C12", format!("merged action list differs from the specification: real {:?} spec {:?}", m_acts, exp));
            rep.add_note("C12", "model_mismatches", 1);
        }
    }
    rep.trace("C12");
}

fn one(rep: &mut Report, d: &Dict, b: &Value, idx: usize, seed: u64) {
    if b.get("sets").is_some() {
        return sequence(rep, d, b, idx, seed)
    }
    let a_set = AbsSet::from_json(&b["a"]);
    let b_set = AbsSet::from_json(&b["b"]);
    let c_set = AbsSet::from_json(&b["c"]);
    let rev = (idx as u64 + seed) % 2 == 1;
    let sa = snapshot(d, &a_set, rev);
    let sb = snapshot(d, &b_set, !rev);
    let sc = snapshot(d, &c_set, rev);
    // Serial numbers: exercise wrap-around for a third of the cases.
    let serial: Serial = match idx % 3 { 0 => 0.into(), 1 => u32::MAX.into(), _ => (u32::MAX - 1).into() };
    let ctx = |extra: Value| json!({"dict": d.name, "behaviour": b, "serial": u32::from(serial), "extra": extra});

    let single = |rep: &mut Report, old: &AbsSet, new: &AbsSet, so: &PayloadSnapshot, sn: &PayloadSnapshot,
                      serial: Serial, exp: &Value, tag: &str| -> PayloadDelta {
        let exp = expected_actions(exp);
        let real = PayloadDelta::construct(so, sn, serial);
        rep.eval("C11");
        if old != new { rep.nontrivial("C11", format!("{}|{:?}|{:?}", d.name, old, new)); }
        // empty exactly when equal
        if real.is_none() != (old == new) {
            rep.violation("C11", "construct/empty-iff-equal",
                format!("{tag}: construct returned {} for {} sets", if real.is_none() {"None"} else {"Some"},
                        if old == new {"equal"} else {"different"}),
                ctx(json!(tag)), json!({"is_none": real.is_none()}));
        }
        let delta = real.unwrap_or_else(|| PayloadDelta::empty(serial.add(1)));
        let acts = abs_actions(d, &delta);
        let arc_acts = abs_actions_arc(d, &delta);
        if acts != arc_acts {
            rep.violation("C11", "construct/iter-mismatch",
                format!("{tag}: actions() and the RTR diff iterator disagree"),
                ctx(json!(tag)), json!({"actions": acts, "arc": arc_acts}));
        }
        match apply(old, &acts) {
            Ok(ref got) if got == new => {}
            Ok(got) => rep.violation("C11", "construct/apply",
                format!("{tag}: applying the change set to the old set does not yield the new set"),
                ctx(json!(tag)), json!({"actions": acts, "result": got.to_json()})),
            Err(e) => rep.violation("C11", "construct/not-applicable",
                format!("{tag}: {e}"), ctx(json!(tag)), json!({"actions": acts})),
        }
        if delta.announce_len() != count(&acts, "A") || delta.withdraw_len() != count(&acts, "W") {
            rep.violation("C11", "construct/counts",
                format!("{tag}: announce_len/withdraw_len do not match the listed actions"),
                ctx(json!(tag)), json!({"actions": acts, "announce_len": delta.announce_len(), "withdraw_len": delta.withdraw_len()}));
        }
        if delta.is_empty() != acts.is_empty() {
            rep.violation("C11", "construct/is-empty",
                format!("{tag}: is_empty() inconsistent with the action list"),
                ctx(json!(tag)), json!({"actions": acts}));
        }
        if delta.serial() != serial.add(1) {
            rep.violation("C11", "construct/serial",
                format!("{tag}: target serial is not old serial + 1"),
                ctx(json!(tag)), json!({"serial": u32::from(delta.serial())}));
        }
        if acts != exp {
            // The model fixes one order; the property does not.
            rep.divergence("C11", format!("{tag}: action list differs from the specification: real {:?} spec {:?}", acts, exp));
            rep.add_note("C11", "model_mismatches", 1);
        }
        delta
    };

    let dab = single(rep, &a_set, &b_set, &sa, &sb, serial, &b["dab"], "a->b");
    let dbc = single(rep, &b_set, &c_set, &sb, &sc, serial.add(1), &b["dbc"], "b->c");
    rep.trace("C11");
    if a_set != b_set { rep.sample("C11", json!({"dict": d.name, "old": a_set.to_json(), "new": b_set.to_json(),
        "actions": abs_actions(d, &dab)})); }

    // C12
    let merged = dab.merge(&dbc);
    let direct = PayloadDelta::construct(&sa, &sc, serial)
        .unwrap_or_else(|| PayloadDelta::empty(serial.add(1)));
    let m_acts = abs_actions(d, &merged);
    let d_acts = abs_actions(d, &direct);
    let exp = expected_actions(&b["dac"]);
    rep.eval("C12");
    rep.trace("C12");
    let touched = |acts: &[AbsAction]| -> BTreeSet<(String, usize)> {
        acts.iter().map(|x| (x.0.clone(), x.1)).collect()
    };
    let t1 = touched(&abs_actions(d, &dab));
    let t2 = touched(&abs_actions(d, &dbc));
    if t1.intersection(&t2).next().is_some() {
        rep.nontrivial("C12", format!("{}|{:?}|{:?}|{:?}", d.name, a_set, b_set, c_set));
    }
    if m_acts != d_acts {
        rep.violation("C12", "merge/differs-from-direct",
            "merged change set differs from the direct change set (actions or order)",
            ctx(json!("merge")), json!({"merged": m_acts, "direct": d_acts}));
    }
    match apply(&a_set, &m_acts) {
        Ok(ref got) if *got == c_set => {}
        Ok(got) => rep.violation("C12", "merge/apply",
            "a client applying the merged change set does not end with the last data set",
            ctx(json!("merge")), json!({"merged": m_acts, "result": got.to_json()})),
        Err(e) => rep.violation("C12", "merge/not-applicable", e,
            ctx(json!("merge")), json!({"merged": m_acts})),
    }
    if merged.announce_len() != count(&m_acts, "A") || merged.withdraw_len() != count(&m_acts, "W") {
        rep.violation("C12", "merge/counts",
            "announce_len/withdraw_len of the merged change set do not match its actions",
            ctx(json!("merge")), json!({"merged": m_acts, "announce_len": merged.announce_len(), "withdraw_len": merged.withdraw_len()}));
    }
    if abs_actions_arc(d, &merged) != m_acts {
        rep.violation("C12", "merge/iter-mismatch",
            "actions() and the RTR diff iterator disagree on a merged change set",
            ctx(json!("merge")), json!({"merged": m_acts}));
    }
    if merged.serial() != dbc.serial() {
        rep.violation("C12", "merge/serial",
            "merged change set does not carry the newer serial",
            ctx(json!("merge")), json!({"serial": u32::from(merged.serial())}));
    }
    if m_acts != exp {
        rep.divergence("C12", format!("merged action list differs from the specification: real {:?} spec {:?}", m_acts, exp));
        rep.add_note("C12", "model_mismatches", 1);
    }
    if b["ann"].as_u64() != Some(merged.announce_len() as u64) || b["wd"].as_u64() != Some(merged.withdraw_len() as u64) {
        rep.add_note("C12", "model_count_mismatches", 1);
    }
    rep.sample("C12", json!({"dict": d.name, "sets": [a_set.to_json(), b_set.to_json(), c_set.to_json()],
        "merged": m_acts, "direct": d_acts}));
}
