//! Smoke test of the object factory and the test bed (not a check).
use routinator::slurm::LocalExceptions;
use crate::common::Args;
use crate::env::{run_once, TestBed};
use crate::gen::*;

pub fn demo_world() -> World {
    let mut ta = Ca::new("ta", None, 0, "rsync://repo.verif.test/ta/");
    ta.prefixes = vec!["10.0.0.0/8".into(), "2001:db8::/32".into()];
    ta.asns = vec![(64000, 65000)];
    let mut ca1 = Ca::new("ca1", Some(0), 1, "rsync://repo.verif.test/ta/ca1/");
    ca1.prefixes = vec!["10.1.0.0/16".into(), "2001:db8:1::/48".into()];
    ca1.asns = vec![(64500, 64600)];
    ca1.objects.push(Obj { name: "r1.roa".into(), kind: ObjKind::Roa { asn: 64501, prefixes: vec![("10.1.0.0/16".into(), 24)] },
        serial: 11, validity: (-2, 48), fault: Fault::None });
    ca1.objects.push(Obj { name: "r2.roa".into(), kind: ObjKind::Roa { asn: 64502, prefixes: vec![("2001:db8:1::/48".into(), 48)] },
        serial: 12, validity: (-2, 48), fault: Fault::BadSig });
    ca1.objects.push(Obj { name: "a1.asa".into(), kind: ObjKind::Aspa { customer: 64501, providers: vec![64510, 64511] },
        serial: 13, validity: (-2, 48), fault: Fault::None });
    ca1.objects.push(Obj { name: "k1.cer".into(), kind: ObjKind::Router { asns: vec![64501], ec: 0 },
        serial: 14, validity: (-2, 48), fault: Fault::None });
    World {
        tals: vec![Tal { name: "ta".into(), ca: 0, uris: vec![("rsync://repo.verif.test/ta/ta.cer".into(), TaVariant::Good)] }],
        cas: vec![ta, ca1],
    }
}

pub fn main(_args: &Args) -> i32 {
    let t = std::time::Instant::now();
    let f = Factory::new();
    println!("factory {:?}", t.elapsed());
    let w = demo_world();
    let p = w.build(&f);
    println!("built {} files {:?}", p.files.len(), t.elapsed());
    let bed = TestBed::new();
    bed.publish(&p);
    let mut cfg = bed.config();
    cfg.enable_aspa = true;
    cfg.enable_bgpsec = true;
    match run_once(&cfg, true, &LocalExceptions::empty()) {
        Ok(r) => {
            println!("payload {:?}", r.payload);
            println!("rsync log {:?}", bed.take_rsync_log());
        }
        Err(e) => println!("run failed {:?}", e),
    }
    println!("done {:?}", t.elapsed());
    0
}
