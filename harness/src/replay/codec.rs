//! Replay of `Gen_Codec` / `Gen_CodecArchive` (C27, C28) against the real
//! record codecs (`store::Stored*::{read, write}`, `RepositoryState` via hook
//! H7), the real RRDP archive readers and whole validation runs over a
//! damaged cache.
//!
//! C28 runs in-process.  For C27 every damaged input is decoded by the real
//! decoder in a child process (this binary, `--opt child=dec|runs`) under the
//! counting allocator of `codec_parts/alloc.rs`; violation = panic / abort /
//! hang / a single allocation request > 64 MiB + 16 x input size.

#[path = "codec_parts/alloc.rs"] pub mod alloc;
#[path = "codec_parts/model.rs"] pub mod model;
#[path = "codec_parts/real.rs"] pub mod real;
#[path = "codec_parts/child.rs"] pub mod child;
#[path = "codec_parts/pool.rs"] pub mod pool;
#[path = "codec_parts/archive.rs"] pub mod archive;
#[path = "codec_parts/c27.rs"] mod c27;

use std::collections::HashMap;
use serde_json::{json, Value};
use crate::common::{catch, Args, Report};
use model::*;

#[global_allocator]
static GLOBAL: alloc::Counting = alloc::Counting;

pub const PROPS: [&str; 2] = ["C27", "C28"];

/// The allocation bound of C27 for an input of `len` bytes.
pub fn alloc_limit(len: usize) -> u64 { (64u64 << 20) + 16 * len as u64 }

pub fn strs(v: &Value) -> Vec<String> { v.as_array().unwrap().iter().map(|x| x.as_str().unwrap().to_string()).collect() }

pub fn short_hex(b: &[u8]) -> String {
    if b.len() <= 600 { hex(b) } else { format!("{}..({} bytes)..{}", hex(&b[..300]), b.len(), hex(&b[b.len() - 100..])) }
}

/// One exported case of Gen_Codec in compact form (a thorough export has some 10^5 lines).
pub struct CLine {
    pub rec: &'static str,
    pub cls: Vec<String>,
    pub enc: Vec<u8>,
    pub rest: usize,
    pub c: Corr,
    pub exp_outcome: String,
    pub exp_fi: usize,
    pub exp_pos: usize,
}

impl CLine {
    pub fn corr_json(&self) -> Value {
        json!({"k": self.c.k, "f": self.c.f, "how": self.c.how, "at": self.c.at, "by": self.c.by, "cut": self.c.cut})
    }
}

/// Reads the behaviour file line by line: (record cases, archive cases).
fn read_lines(path: &str) -> (Vec<CLine>, Vec<Value>) {
    use std::io::BufRead;
    let f = std::fs::File::open(path).unwrap_or_else(|e| { eprintln!("vh: cannot open {path}: {e}"); std::process::exit(2) });
    let mut lines = Vec::new();
    let mut arch = Vec::new();
    for l in std::io::BufReader::new(f).lines() {
        let l = l.expect("read behaviour file");
        if l.trim().is_empty() { continue }
        let v: Value = serde_json::from_str(&l).unwrap_or_else(|e| { eprintln!("vh: bad behaviour line: {e}"); std::process::exit(2) });
        if v.get("archive").is_some() { arch.push(v); continue }
        let rec = v["rec"].as_str().unwrap();
        let rec = *RECORDS.iter().find(|r| **r == rec).expect("record type");
        lines.push(CLine {
            rec, cls: strs(&v["cls"]), enc: bytes_of(&v["enc"]), rest: v["rest"].as_u64().unwrap() as usize, c: Corr::from_json(&v["c"]),
            exp_outcome: v["exp"]["outcome"].as_str().unwrap().to_string(), exp_fi: v["exp"]["fi"].as_u64().unwrap() as usize,
            exp_pos: v["exp"]["pos"].as_u64().unwrap() as usize,
        });
    }
    (lines, arch)
}

/// Model fidelity: constants of the spec that mirror third-party behaviour.
fn fidelity(rep: &mut Report) -> bool {
    use chrono::TimeZone;
    let ok = |s: i64| chrono::Utc.timestamp_opt(s, 0).single().is_some();
    let good = ok(TMAX) && !ok(TMAX + 1) && ok(TMIN) && !ok(TMIN - 1);
    if !good {
        for p in PROPS { rep.note(p, "fidelity_error", json!("chrono's timestamp range differs from TMAX/TMIN of Codec.tla")); }
    }
    good
}

pub fn main(args: &Args) -> i32 {
    match args.opt("child") {
        Some("dec") => return child::main_dec(),
        Some("runs") => return child::main_runs(),
        Some("probe-time") => {
            // prints chrono's representable timestamp range (for TMAX / TMIN of Codec.tla)
            use chrono::TimeZone;
            let ok = |s: i64| chrono::Utc.timestamp_opt(s, 0).single().is_some();
            let (mut lo, mut hi) = (0i64, i64::MAX / 2);
            while lo < hi { let m = lo + (hi - lo + 1) / 2; if ok(m) { lo = m } else { hi = m - 1 } }
            let max = lo;
            let (mut lo, mut hi) = (i64::MIN / 2, 0i64);
            while lo < hi { let m = lo + (hi - lo) / 2; if ok(m) { hi = m } else { lo = m + 1 } }
            println!("max {max} {:?} min {lo} {:?}", max.to_be_bytes(), lo.to_be_bytes());
            return 0
        }
        _ => {}
    }
    crate::env::init_process();
    let (lines, arch_lines) = read_lines(args.input.as_deref().expect("--in"));
    let mut rep = Report::new("codec");
    for p in PROPS { rep.touch(p); }
    if !fidelity(&mut rep) { return rep.write(args) }
    if args.wants("C28") { c28(&mut rep, &lines, args); }
    if args.wants("C27") { c27::run(&mut rep, &lines, &arch_lines, args); }
    rep.write(args)
}

// ---------------------------------------------------------------------------
// C28

struct RoundTrip { subsec: bool }

/// write -> append `rest` -> read: equal value, exactly the written bytes consumed.
fn round_trip(rec: &str, v: &real::Real, rest: &[u8]) -> Result<RoundTrip, (String, String)> {
    let w = real::write(v).map_err(|e| ("write-error".to_string(), e))?;
    let mut inp = w.clone();
    inp.extend_from_slice(rest);
    let d = real::read(rec, &inp);
    if d.outcome != "value" {
        return Err(("read-error".into(), format!("reading back failed: {} {}", d.outcome, d.detail)))
    }
    if d.consumed != w.len() {
        return Err(("consumed".into(), format!("{} bytes written, {} consumed ({} trailing bytes given)", w.len(), d.consumed, rest.len())))
    }
    let rt = match real::same(v, d.value.as_ref().unwrap()) {
        Ok(exact) => RoundTrip { subsec: !exact },
        Err(e) => return Err((format!("field/{}", e.split(':').next().unwrap_or("?").split('(').next().unwrap_or("?")), e)),
    };
    // the same through readers that hand out the bytes in pieces (Read::read may return less than asked for)
    for pieces in [&[1usize][..], &[5, 2][..], &[31, 1, 64][..]] {
        if w.len() > 4_000_000 && pieces.len() == 1 { continue }
        let d = real::read_in_pieces(rec, &inp, pieces);
        if d.outcome != "value" {
            return Err(("short-reads/read-error".into(), format!("reading back from a reader that returns {pieces:?} bytes per call failed: {} {}", d.outcome, d.detail)))
        }
        if d.consumed != w.len() {
            return Err(("short-reads/consumed".into(), format!("{} bytes written, {} consumed from a reader that returns {pieces:?} bytes per call", w.len(), d.consumed)))
        }
        if let Err(e) = real::same(v, d.value.as_ref().unwrap()) {
            return Err(("short-reads/field".into(), format!("read back from a reader that returns {pieces:?} bytes per call: {e}")))
        }
    }
    Ok(rt)
}

fn c28(rep: &mut Report, lines: &[CLine], args: &Args) {
    let pid = "C28";
    let mut seen_inflated: HashMap<String, ()> = HashMap::new();
    for (ln, l) in lines.iter().enumerate().filter(|(_, l)| l.c.k == "none") {
        let rec = l.rec;
        let cls = l.cls.clone();
        let enc = &l.enc;
        let nrest = l.rest;
        let rest = enc[enc.len() - nrest..].to_vec();
        let g = grammar(rec);
        let has_inflatable = g.iter().zip(&cls).any(|((_, t), c)| inflatable(*t, c));
        for inflate in [false, true] {
            if inflate && (!has_inflatable || nrest != 0) { continue }
            if inflate {
                // one inflated round trip per combination of inflated fields (thorough: 16 per combination)
                let key = format!("{rec}|{:?}|{}", g.iter().zip(&cls).enumerate().filter(|(_, ((_, t), c))| inflatable(*t, c)).map(|(i, _)| i).collect::<Vec<_>>(),
                                  if args.thorough() { ln % 16 } else { 0 });
                if seen_inflated.insert(key, ()).is_some() { continue }
            }
            let vals = values_of(rec, &cls, inflate);
            let (enc_m, _) = encode(&vals);
            let behaviour = json!({"rec": rec, "cls": cls, "inflated": inflate, "rest": short_hex(&rest), "encoding": short_hex(&enc_m)});
            if !inflate && enc_m[..] != enc[..enc.len() - nrest] {
                rep.note(pid, "fidelity_error", json!(format!("the harness' value table disagrees with Codec.tla for {rec} {cls:?}")));
                continue
            }
            let v = match catch(std::panic::AssertUnwindSafe(|| real::build(rec, &vals))) {
                Ok(Ok(v)) => v,
                Ok(Err(e)) => {
                    rep.eval(pid);
                    rep.violation(pid, &format!("roundtrip/{rec}/build"), format!("a representable value cannot be built or read: {e}"), behaviour, json!({"error": e}));
                    continue
                }
                Err(p) => { rep.violation(pid, &format!("roundtrip/{rec}/panic"), format!("panic: {p}"), behaviour, json!({"panic": p})); continue }
            };
            // the model's bytes are the real bytes (map entries may be written in any order)
            match real::write(&v) {
                Ok(w) if w == enc_m => rep.add_note(pid, "encodings_identical_to_model", 1),
                Ok(w) if w.len() == enc_m.len() && cls.iter().any(|c| c == "m2" || c == "m2r") => { let _ = w; rep.add_note(pid, "encodings_differing_in_map_order", 1) }
                Ok(w) => {
                    rep.add_note(pid, "model_mismatches", 1);
                    rep.divergence(pid, format!("{rec} {cls:?}: real encoding {} differs from the model's {}", short_hex(&w), short_hex(&enc_m)));
                }
                Err(_) => {}
            }
            let mut rests: Vec<Vec<u8>> = vec![rest.clone()];
            if nrest == 0 { rests.push(vec![255u8; 64]); rests.push(enc_m.clone()); rests.push(vec![0u8; 9]); }
            for r in &rests {
                rep.eval(pid);
                let res = catch(std::panic::AssertUnwindSafe(|| round_trip(rec, &v, r)));
                let beh = json!({"rec": rec, "cls": cls, "inflated": inflate, "trailing": short_hex(r), "encoding": short_hex(&enc_m)});
                match res {
                    Ok(Ok(rt)) => { if rt.subsec { rep.add_note(pid, "subsecond_part_dropped_by_design", 1); } }
                    Ok(Err((what, detail))) => rep.violation(pid, &format!("roundtrip/{rec}/{what}"), detail.clone(), beh, json!({"detail": detail})),
                    Err(p) => rep.violation(pid, &format!("roundtrip/{rec}/panic"), format!("panic: {p}"), beh, json!({"panic": p})),
                }
            }
            rep.trace(pid);
            rep.nontrivial(pid, format!("{rec}|{cls:?}|{nrest}|{inflate}"));
            if cls.iter().any(|c| c == "odd" || c == "s_odd") { rep.sample(pid, behaviour); }
        }
    }
    c28_extras(rep);
}

/// Values the class table cannot express: the current time (nanoseconds),
/// `StoredPointHeader::new`, the binio primitives with sentinels.
fn c28_extras(rep: &mut Report) {
    use routinator::utils::binio::{Compose, Parse};
    use rpki::repository::x509::Time;
    let pid = "C28";
    let now = Time::now();
    let cases: Vec<(&str, real::Real)> = vec![
        ("StoredStatus", real::Real::Status(routinator::store::StoredStatus::new(now))),
        ("StoredPointHeader", real::Real::Header(routinator::store::StoredPointHeader::new(
            rpki::uri::Rsync::from_str_checked("rsync://now.verif.test/m/x.mft"), None))),
        ("StoredPointHeader", real::Real::Header(routinator::store::StoredPointHeader::new(
            rpki::uri::Rsync::from_str_checked("rsync://now.verif.test/m/x.mft"),
            Some(rpki::uri::Https::from_string("https://now.verif.test/n.xml".into()).unwrap())))),
    ];
    for (rec, v) in cases {
        for r in [vec![], vec![7u8; 13]] {
            rep.eval(pid);
            let beh = json!({"rec": rec, "value": format!("{v:?}").chars().take(300).collect::<String>(), "trailing": hex(&r)});
            match catch(std::panic::AssertUnwindSafe(|| round_trip(rec, &v, &r))) {
                Ok(Ok(rt)) => { if rt.subsec { rep.add_note(pid, "subsecond_part_dropped_by_design", 1); } rep.nontrivial(pid, format!("now|{rec}|{}", r.len())); }
                Ok(Err((what, d))) => rep.violation(pid, &format!("roundtrip/{rec}/{what}"), d.clone(), beh, json!({"detail": d})),
                Err(p) => rep.violation(pid, &format!("roundtrip/{rec}/panic"), format!("panic: {p}"), beh, json!({"panic": p})),
            }
        }
    }
    // collections around the size up to which the parser reserves memory ahead of reading (binio.rs: 65536 entries)
    for n in [65_535usize, 65_536, 65_537, 200_000] {
        let vals: Vec<FV> = grammar("RepositoryState").iter().map(|(_, t)| {
            if matches!(t, Ty::Map) {
                return FV::Map((0..n as u64).map(|i| (i.wrapping_mul(0x9E3779B97F4A7C15), { let mut h = [0x5au8; 32]; h[..8].copy_from_slice(&i.to_be_bytes()); h })).collect())
            }
            let c = match format!("{t:?}").as_str() { "OptBytes" => "s_etag", "OptI64" => "s_zero", "Uuid" => "mixed",
                                                      "U64" => "one", "I64" => "zero", "Https" => "min", _ => "v" };
            class_value(*t, c, false)
        }).collect();
        let beh = json!({"rec": "RepositoryState", "delta_state_entries": n});
        rep.eval(pid);
        match catch(std::panic::AssertUnwindSafe(|| real::build("RepositoryState", &vals).and_then(|v| round_trip("RepositoryState", &v, &[1, 2, 3]).map_err(|(w, d)| format!("{w}: {d}"))))) {
            Ok(Ok(_)) => rep.nontrivial(pid, format!("bigmap|{n}")),
            Ok(Err(e)) => rep.violation(pid, "roundtrip/RepositoryState/large-map", format!("a delta state of {n} entries does not read back as written: {e}"), beh, json!({"detail": e})),
            Err(p) => rep.violation(pid, "roundtrip/RepositoryState/panic", format!("panic: {p}"), beh, json!({"panic": p})),
        }
    }
    // sentinels of the primitive optional types (binio.rs): None and the values next to the sentinel
    fn prim<T>(rep: &mut Report, name: &str, v: T, show: String)
    where T: Compose<Vec<u8>> + for<'a> Parse<&'a [u8]> + PartialEq {
        rep.eval("C28");
        let mut buf = Vec::new();
        let r = v.compose(&mut buf);
        let n = buf.len();
        buf.extend_from_slice(&[9u8; 5]);
        let mut s: &[u8] = &buf;
        let back = T::parse(&mut s);
        let ok = r.is_ok() && matches!(&back, Ok(b) if *b == v) && s.len() == 5;
        if !ok {
            rep.violation("C28", &format!("roundtrip/primitive/{name}"), format!("{name} {show} does not read back ({n} bytes written, {} left)", s.len()),
                          json!({"type": name, "value": show}), json!({"encoded": hex(&buf)}));
        } else { rep.nontrivial("C28", format!("prim|{name}|{show}")); }
    }
    use chrono::TimeZone;
    let t = |s: i64| Time::new(chrono::Utc.timestamp_opt(s, 0).single().unwrap());
    for v in [None, Some(t(0)), Some(t(TMIN)), Some(t(TMAX)), Some(t(-1))] { prim(rep, "Option<Time>", v, format!("{:?}", v.map(|x| x.timestamp()))); }
    for v in [None, Some(0i64), Some(i64::MIN), Some(i64::MAX), Some(-1)] { prim(rep, "Option<i64>", v, format!("{v:?}")); }
    for v in [None, Some(bytes::Bytes::new()), Some(bytes::Bytes::from_static(b"\xff\x00")), Some(bytes::Bytes::from(vec![255u8; 70000]))] {
        let show = format!("{:?}", v.as_ref().map(|b| b.len()));
        prim(rep, "Option<Bytes>", v, show);
    }
    for v in [None, Some(rpki::uri::Https::from_string("https://".into()).unwrap()), Some(rpki::uri::Https::from_string("https://a".into()).unwrap())] {
        let show = format!("{v:?}");
        prim(rep, "Option<Https>", v, show);
    }
}

trait FromStrChecked { fn from_str_checked(s: &str) -> Self; }
impl FromStrChecked for rpki::uri::Rsync {
    fn from_str_checked(s: &str) -> Self { rpki::uri::Rsync::from_string(s.to_string()).expect("valid rsync uri") }
}
