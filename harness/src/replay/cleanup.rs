//! Replay of `Gen_Cleanup` histories (C40): a trust anchor in module m0 and
//! the points ca1..caN in the rsync modules m1, m2 over consecutive
//! validation runs on one test bed.
//!
//! Per run three executions of the real code on copies of the same cache:
//!   * the *twin*: the same run with `dirty = true` on a clone of the cache --
//!     what process() leaves before cleanup ("pre", observed, not modelled);
//!   * the run itself (update or initial run, dirty as prescribed);
//!   * an offline read-back (collector disabled, dirty) on a clone of the
//!     result: the payload of every point that had to be retained must still
//!     be produced.
//! The oracle is evaluated on these observables only (which files of
//! `<cache>/stored` hold a manifest whose EE certificate has not expired,
//! which module directories of `<cache>/rsync` exist, which modules the fake
//! rsync was asked for in this run).  The expectation of the model is compared
//! as well; differences that do not contradict the property are divergences.
//!
//! "expires" = manifest EE certificate valid for LIFE seconds; the histories of
//! a batch all wait together for the expiry (one sleep per batch and expiry).

use std::collections::{BTreeMap, BTreeSet};
use std::path::Path;
use std::sync::{Arc, Mutex};
use std::time::Duration;
use serde_json::{json, Value};
use routinator::config::{Config, FilterPolicy};
use routinator::engine::Engine;
use routinator::payload::ValidationReport;
use routinator::slurm::LocalExceptions;
use routinator::store::StoredPoint;
use crate::common::{catch, read_behaviours, Args, Report, Rng};
use crate::env::{dir_listing, payload_of, TestBed};
use crate::gen::*;

pub const PROPS: [&str; 1] = ["C40"];
const P: &str = "C40";

/// Seconds a "short lived" manifest EE certificate stays valid after it is built.
const LIFE: i64 = 3;

const TA_HOST: &str = "ta.verif.test";

thread_local! {
    /// The history being replayed writes the hosts of its CA repositories with capital letters (host names are
    /// case-insensitive; the cache keeps them in lower case).
    static CAPS: std::cell::Cell<bool> = const { std::cell::Cell::new(false) };
}

fn module_uri(name: &str, same_host: bool) -> String {
    let caps = CAPS.with(|c| c.get());
    match name {
        "m0" => format!("rsync://{TA_HOST}/m0/"),
        m if same_host && caps => format!("rsync://R1.Verif.TEST/{m}/"),
        m if same_host => format!("rsync://r1.verif.test/{m}/"),
        m if caps => format!("rsync://R-{m}.Verif.TEST/{m}/"),
        m => format!("rsync://r-{m}.verif.test/{m}/"),
    }
}

/// "host/module" (as below `<cache>/rsync`) -> model name.
fn module_name(host_module: &str) -> String {
    host_module.rsplit('/').next().unwrap_or("").to_string()
}

fn payload_str(p: u64, v: u64) -> String {
    format!("10.{p}.0.0/16-16 AS{}", 65000 + 10 * p + v)
}

fn now_ms() -> i64 { chrono::Utc::now().timestamp_millis() }

//------------ observation of a cache directory ---------------------------------

#[derive(Clone, Debug, PartialEq, Eq)]
enum PointState {
    /// A manifest is stored: (manifest number, notAfter of its EE certificate).
    Ok(u64, i64),
    /// Only a LastAttempt record.
    Att,
    /// Not readable as a stored point.
    Bad,
}

#[derive(Clone, Debug)]
struct PointFile {
    /// 0 = the trust anchor's point.
    p: u64,
    module: String,
    notify: bool,
    state: PointState,
}

#[derive(Clone, Debug, Default)]
struct Obs {
    /// files of `<cache>/stored` that are stored points
    points: BTreeMap<String, PointFile>,
    /// files of `<cache>/stored/ta`
    ta_certs: BTreeSet<String>,
    /// "host/module" of `<cache>/rsync` holding at least one file
    modules: BTreeSet<String>,
    /// files of `<cache>/rrdp`
    rrdp: BTreeSet<String>,
}

fn observe(cache: &Path) -> Obs {
    let mut obs = Obs::default();
    let stored = cache.join("stored");
    for rel in dir_listing(&stored) {
        let parts: Vec<&str> = rel.split('/').collect();
        if parts[0] == "ta" { obs.ta_certs.insert(rel.clone()); continue }
        let (notify, tail) = match parts[0] {
            "rsync" => (false, &parts[1..]),
            "rrdp" if parts.len() > 3 => (true, &parts[3..]),
            _ => continue,           // status.bin, tmp
        };
        // tail = ["rsync", host, module, dir, file]
        if tail.len() != 5 || tail[0] != "rsync" { continue }
        let p = if tail[3] == "ta" { 0 } else { tail[3].trim_start_matches("ca").parse().unwrap_or(99) };
        let state = match StoredPoint::load_quietly(stored.join(&rel)) {
            Some(sp) => match sp.manifest() {
                Some(m) => PointState::Ok(format!("{}", m.manifest_number).parse().unwrap_or(0), m.not_after.timestamp()),
                None => PointState::Att,
            },
            None => PointState::Bad,
        };
        obs.points.insert(rel.clone(), PointFile { p, module: tail[2].to_string(), notify, state });
    }
    for rel in dir_listing(&cache.join("rsync")) {
        let mut it = rel.split('/');
        if let (Some(h), Some(m), Some(_)) = (it.next(), it.next(), it.next()) {
            obs.modules.insert(format!("{h}/{m}"));
        }
    }
    obs.rrdp = dir_listing(&cache.join("rrdp"));
    obs
}

impl Obs {
    fn to_json(&self) -> Value {
        json!({
            "points": self.points.iter().map(|(k, f)| json!({"file": k, "p": f.p, "module": f.module, "notify": f.notify,
                "state": format!("{:?}", f.state)})).collect::<Vec<_>>(),
            "ta_certs": self.ta_certs, "modules": self.modules,
        })
    }

    /// (p, module, notify, "ok"/"att", v) of the points other than the TA's.
    fn model_view(&self) -> BTreeSet<(u64, String, bool, String, u64)> {
        self.points.values().filter(|f| f.p != 0).map(|f| match f.state {
            PointState::Ok(v, _) => (f.p, f.module.clone(), f.notify, "ok".to_string(), v),
            PointState::Att => (f.p, f.module.clone(), f.notify, "att".to_string(), 0),
            PointState::Bad => (f.p, f.module.clone(), f.notify, "bad".to_string(), 0),
        }).collect()
    }
}

fn copy_tree(src: &Path, dst: &Path) {
    let _ = std::fs::remove_dir_all(dst);
    std::fs::create_dir_all(dst).unwrap();
    if let Ok(rd) = std::fs::read_dir(src) {
        for e in rd.flatten() {
            let p = e.path();
            let d = dst.join(e.file_name());
            if p.is_dir() { copy_tree(&p, &d) } else { std::fs::copy(&p, &d).unwrap(); }
        }
    }
}

//------------ one history -------------------------------------------------------

struct Hist {
    idx: usize,
    bed: TestBed,
    same_host: bool,
    next_run: usize,
    /// every CA manifest is issued with a nextUpdate that has already passed (all runs accept stale objects)
    stale_mode: bool,
    /// counter for the TA's manifest number
    step: u64,
    /// (p, v) -> ee_not_after_secs (offset from factory.now) of short lived versions built so far
    short_abs: BTreeMap<(u64, u64), i64>,
    /// listing of the TA's stored point: p -> (module, notify)
    ta_view: BTreeMap<u64, (String, bool)>,
    /// a run crossed a wall-clock second boundary and kept LastAttempt records the model (Ticks = {FALSE}) drops
    clock_drift: bool,
    abandoned: bool,
}

enum Progress { Sleep(i64), Finished }

fn world_for(h: &mut Hist, w: &Value, n: u64, factory: &Factory) -> World {
    let fnow = factory.now.timestamp();
    let mut ta = Ca::new("ta", None, 0, &format!("{}ta/", module_uri("m0", h.same_host)));
    ta.prefixes = vec!["10.0.0.0/8".into()];
    ta.asns = vec![(64000, 66000)];
    ta.validity = (-24 * 10, 24 * 30);
    ta.mft = MftSpec { number: h.step, this_update: -30, next_update: 24,
                       this_update_secs: -72000 + 60 * h.step as i64, ..Default::default() };
    ta.mft_validity = (-30, 24);
    ta.mft_serial = 100 + h.step;
    ta.crl = (-30, 24);
    let mut cas = vec![ta];
    let listed: BTreeSet<u64> = w["listed"].as_array().unwrap().iter().map(|x| x.as_u64().unwrap()).collect();
    let is_in = |set: &Value, p: u64, v: u64| set.as_array().unwrap().iter()
        .any(|x| x[0].as_u64() == Some(p) && x[1].as_u64() == Some(v));
    for p in 1..=n {
        let home = &w["home"][p as usize - 1];
        let module = home["mod"].as_str().unwrap();
        let notify = home["notify"].as_bool().unwrap();
        let v = w["pver"][p as usize - 1].as_u64().unwrap();
        let mut ca = Ca::new(&format!("ca{p}"), Some(0), p as usize, &format!("{}ca{p}/", module_uri(module, h.same_host)));
        if notify {
            ca.notify = Some(format!("https://rrdp-{module}.verif.test/{module}/notification.xml"));
        }
        ca.prefixes = vec![format!("10.{p}.0.0/16")];
        ca.asns = vec![(64000, 66000)];
        ca.validity = (-24 * 10, 24 * 30);
        if !listed.contains(&p) { ca.cert_fault = Fault::Unlisted }
        ca.mft = MftSpec { number: v, this_update: -10 + v as i64, next_update: 24, ..Default::default() };
        ca.mft_validity = (-12, 24);
        ca.mft_serial = 100 + v;
        ca.crl = (-12, 24);
        if h.stale_mode {
            ca.mft.next_update_secs = chrono::Utc::now().timestamp() - fnow - 2;
        }
        if is_in(&w["short"], p, v) {
            let dead = is_in(&w["dead"], p, v);
            let secs = *h.short_abs.entry((p, v)).or_insert_with(|| {
                let off = chrono::Utc::now().timestamp() - fnow;
                if dead { off - 5 } else { off + 1 + LIFE }
            });
            ca.mft.ee_not_after_secs = if secs == 0 { -1 } else { secs };
        }
        ca.objects.push(Obj {
            name: format!("r{p}.roa"),
            kind: ObjKind::Roa { asn: 65000 + 10 * p as u32 + v as u32, prefixes: vec![(format!("10.{p}.0.0/16"), 16)] },
            serial: 1000 + v, validity: (-12, 48), fault: Fault::None,
        });
        cas.push(ca);
    }
    World {
        tals: vec![Tal { name: "tal1".into(), ca: 0,
                         uris: vec![(format!("{}ta.cer", module_uri("m0", h.same_host)), TaVariant::Good)] }],
        cas,
    }
}

#[derive(Debug)]
enum Outcome { Ok, Retry, Fatal, Init }

/// One validation run like `ValidationReport::process` is called by the
/// server: update run (initial = false) or initial run.
fn run_real(cfg: &Config, initial: bool) -> Outcome {
    let mut engine = match Engine::new(cfg, true) { Ok(e) => e, Err(_) => return Outcome::Init };
    if engine.ignite().is_err() { return Outcome::Init }
    match ValidationReport::process(&engine, cfg, initial) {
        Ok(_) => Outcome::Ok,
        Err(e) => if e.is_fatal() { Outcome::Fatal } else { Outcome::Retry },
    }
}

/// Offline read-back on a clone of the cache: origins of the payload.
fn readback(bed: &TestBed, from: &Path) -> Result<BTreeSet<String>, String> {
    let clone = bed.dir.path().join("cache-off");
    copy_tree(from, &clone);
    let mut cfg = bed.config();
    cfg.cache_dir = clone;
    cfg.dirty_repository = true;
    cfg.stale = FilterPolicy::Accept;
    cfg.validation_threads = 1;
    let mut engine = Engine::new(&cfg, false).map_err(|_| "Engine::new".to_string())?;
    engine.ignite().map_err(|_| "ignite".to_string())?;
    let (report, mut metrics) = ValidationReport::process(&engine, &cfg, false).map_err(|e| format!("run failed (fatal={})", e.is_fatal()))?;
    let snapshot = report.into_snapshot(&LocalExceptions::empty(), &mut metrics);
    Ok(payload_of(&snapshot).origins)
}

fn set_of(v: &Value) -> BTreeSet<String> {
    v.as_array().map(|a| a.iter().map(|x| x.as_str().unwrap_or("").to_string()).collect()).unwrap_or_default()
}

fn model_stored(v: &Value) -> BTreeSet<(u64, String, bool, String, u64)> {
    v.as_array().unwrap().iter().map(|r| (r["p"].as_u64().unwrap(), r["mod"].as_str().unwrap().to_string(),
        r["notify"].as_bool().unwrap(), r["st"].as_str().unwrap().to_string(), r["v"].as_u64().unwrap())).collect()
}

/// Replays runs of the history until it ends or has to wait for an expiry.
fn advance(rep: &mut Report, h: &mut Hist, b: &Value, factory: &Factory) -> Progress {
    // every fifth history (not the ones with RRDP-style homes only): capital letters in the repository hosts
    CAPS.with(|c| c.set(h.idx % 5 == 2));
    let runs = b["runs"].as_array().unwrap();
    let n = b["n"].as_u64().unwrap();
    let fnow_ms = factory.now.timestamp() * 1000;
    while h.next_run < runs.len() && !h.abandoned {
        let ri = h.next_run;
        let r = &runs[ri];
        let w = &r["world"];
        // every version the model considers expired must really be expired
        let need: i64 = h.short_abs.iter()
            .filter(|((p, v), _)| w["dead"].as_array().unwrap().iter().any(|x| x[0].as_u64() == Some(*p) && x[1].as_u64() == Some(*v)))
            .map(|(_, secs)| fnow_ms + secs * 1000 + 300).max().unwrap_or(0);
        if need > now_ms() { return Progress::Sleep(need) }

        h.step += 1;
        let world = world_for(h, w, n, factory);
        let published = world.build(factory);
        if CAPS.with(|c| c.get()) {
            // the server's tree is keyed by the host in lower case
            let _ = published.write_rsync_tree_tolerant(&h.bed.pubdir);
            published.write_tals(&h.bed.tals);
        } else { h.bed.publish(&published); }
        let down = set_of(&r["cfg"]["down"]);
        for m in ["m1", "m2", "m3"] {
            h.bed.fail_module(&module_uri(m, h.same_host).to_ascii_lowercase(), if down.contains(m) { Some(10) } else { None });
        }
        let dirty = r["cfg"]["dirty"].as_bool().unwrap();
        let initial = r["cfg"]["kind"] == "initial";
        let corrupt = r["cfg"]["corrupt"].as_bool().unwrap();
        let mut cfg = h.bed.config();
        cfg.validation_threads = 1 + (h.idx % 2);
        cfg.stale = FilterPolicy::Accept;
        cfg.dirty_repository = dirty;

        // the environment damages the TA's stored point
        let ta_file = h.bed.cache.join(format!("stored/rsync/rsync/{TA_HOST}/m0/ta/ta.mft"));
        let mut saved: Option<Vec<u8>> = None;
        if corrupt {
            match std::fs::read(&ta_file) {
                Ok(bytes) if bytes.len() > 400 => {
                    std::fs::write(&ta_file, &bytes[..200]).unwrap();
                    saved = Some(bytes);
                }
                _ => {
                    rep.divergence(P, format!("history {}: run {}: no stored TA point to corrupt", h.idx, ri));
                    h.abandoned = true;
                    break
                }
            }
        }

        let before = observe(&h.bed.cache);
        // twin: the same run without cleanup, on a clone
        let twin_dir = h.bed.dir.path().join("cache-twin");
        copy_tree(&h.bed.cache, &twin_dir);
        let mut twin_cfg = cfg.clone();
        twin_cfg.cache_dir = twin_dir.clone();
        twin_cfg.dirty_repository = true;
        let _ = run_real(&twin_cfg, initial);
        let pre = observe(&twin_dir);
        let _ = h.bed.take_rsync_log();

        let t_start = now_ms();
        let outcome = run_real(&cfg, initial);
        let t_end = now_ms();
        // two validation threads may interleave their log lines: take every "rsync://host/module/" of a line
        let fetched: BTreeSet<String> = h.bed.take_rsync_log().iter().flat_map(|line| {
            line.split("rsync://").filter(|s| !s.is_empty()).map(|rest| {
                let mut it = rest.split('/');
                format!("{}/{}", it.next().unwrap_or(""), it.next().unwrap_or(""))
            }).collect::<Vec<_>>()
        }).collect();
        let post = observe(&h.bed.cache);
        let ok = matches!(outcome, Outcome::Ok);

        let ctx = json!({"history": h.idx, "n": n, "same_host": h.same_host, "capital_letters_in_hosts": h.idx % 5 == 2, "manifests_past_next_update": h.stale_mode, "runs": runs[..=ri], "run_index": ri});
        let observed = json!({"outcome": format!("{outcome:?}"), "before": before.to_json(), "pre_cleanup_twin": pre.to_json(),
                              "after": post.to_json(), "fetched": fetched});
        if matches!(outcome, Outcome::Init) {
            rep.divergence(P, format!("history {}: run {}: engine could not be created", h.idx, ri));
            h.abandoned = true;
            break
        }

        // ---------------- the oracle (C40) -------------------------------------
        rep.eval(P);
        let mut stake = Vec::new();
        if !ok || dirty {
            // failed run / dirty: nothing the cache held is removed
            let what = if !ok { "failed-run" } else { "dirty" };
            let mut gone: Vec<String> = before.points.keys().filter(|k| !post.points.contains_key(*k)).cloned().collect();
            gone.extend(before.ta_certs.difference(&post.ta_certs).cloned());
            gone.extend(before.modules.difference(&post.modules).map(|m| format!("rsync module {m}")));
            let lost_data: Vec<String> = before.points.iter().filter(|(k, f)| matches!(f.state, PointState::Ok(..))
                && post.points.get(*k).map(|g| !matches!(g.state, PointState::Ok(..))).unwrap_or(false) && !(corrupt && f.p == 0))
                .map(|(k, _)| k.clone()).collect();
            if !gone.is_empty() || !lost_data.is_empty() {
                rep.violation(P, &format!("{what}/removed"),
                    format!("after a {what} run these were removed: {:?} {:?}", gone, lost_data), ctx.clone(), observed.clone());
            }
            let removable = before.points.values().any(|f| match f.state {
                PointState::Ok(_, na) => na * 1000 <= t_start, PointState::Att => true, PointState::Bad => f.p != 0 });
            let unused = before.modules.iter().any(|m| !fetched.contains(m));
            if removable || unused { stake.push(format!("{what}:removable={removable},unused={unused}")) }
        }
        else {
            // an unexpired stored point is never removed.  "Unexpired" is the notAfter of the manifest's EE certificate as
            // this harness issued it, not the time the stored record claims
            let fnow = factory.now.timestamp();
            for (k, f) in &pre.points {
                if let PointState::Ok(v, recorded) = f.state {
                    let na = if f.p == 0 { fnow + 24 * 3600 }
                             else { h.short_abs.get(&(f.p, v)).map(|s| fnow + if *s == 0 { -1 } else { *s }).unwrap_or(fnow + 24 * 3600) };
                    if recorded != na {
                        rep.divergence(P, format!("history {}: run {}: stored point {k} records notAfter {recorded}, the manifest's certificate says {na}", h.idx, ri));
                    }
                    if na * 1000 > t_end + 1000 {
                        let kept = matches!(post.points.get(k).map(|g| &g.state), Some(PointState::Ok(..)));
                        if !kept {
                            rep.violation(P, "unexpired-point-removed",
                                format!("stored point {k} (manifest {v}, EE notAfter in {} ms) was removed by cleanup", na * 1000 - t_end),
                                ctx.clone(), observed.clone());
                        }
                        let visited = fetched.iter().any(|m| module_name(m) == f.module) && !initial
                            && w["listed"].as_array().unwrap().iter().any(|x| x.as_u64() == Some(f.p))
                            && w["home"][(f.p.max(1) - 1) as usize]["mod"] == f.module.as_str();
                        if f.p != 0 && !visited { stake.push(format!("kept-unvisited:{}:{}:{}", f.p, f.module, f.notify)) }
                    }
                    else if na * 1000 <= t_start - 300 {
                        stake.push(format!("expired:{}:{}:{}", f.p, f.module, f.notify));
                        if post.points.contains_key(k) {
                            rep.divergence(P, format!("history {}: run {}: expired stored point {k} survived the cleanup", h.idx, ri));
                        }
                    }
                }
            }
            for k in &pre.ta_certs {
                if !post.ta_certs.contains(k) {
                    rep.violation(P, "ta-cert-removed", format!("stored trust anchor certificate {k} was removed by cleanup"),
                        ctx.clone(), observed.clone());
                }
            }
            // the collector copy of every retained point and of every repository used in this run
            for m in &pre.modules {
                let used = fetched.contains(m);
                let needed = post.points.iter().any(|(k, f)| !f.notify && k.starts_with(&format!("rsync/rsync/{m}/")));
                if (used || needed) && !post.modules.contains(m) {
                    rep.violation(P, if used { "used-module-removed" } else { "retained-point-module-removed" },
                        format!("rsync module copy {m} was removed (updated in this run: {used}, a retained stored point lives there: {needed})"),
                        ctx.clone(), observed.clone());
                }
                if !used && needed { stake.push(format!("module-kept-by-retain:{}", module_name(m))) }
                if !used && !needed {
                    stake.push(format!("module-unreferenced:{}", module_name(m)));
                    if post.modules.contains(m) && !initial {
                        rep.divergence(P, format!("history {}: run {}: unreferenced rsync module {m} survived the cleanup", h.idx, ri));
                    }
                    // a stored point filed under an RRDP repository but fetched through rsync loses its module
                    if !post.modules.contains(m) && post.points.iter().any(|(_, f)| f.notify && f.module == module_name(m)
                            && matches!(f.state, PointState::Ok(..))) {
                        rep.add_note(P, "observation_rrdp_filed_point_lost_its_rsync_module", 1);
                    }
                }
            }
            for (_, f) in pre.points.iter().filter(|(k, f)| f.state == PointState::Att && !post.points.contains_key(*k)) {
                stake.push(format!("attempt-removed:{}:{}", f.p, f.module));
            }
        }
        if !stake.is_empty() {
            stake.sort(); stake.dedup();
            rep.nontrivial(P, format!("{}|{}|{}|{:?}", r["cfg"]["kind"], dirty, ok, stake));
        }

        // restore what the environment damaged
        if let Some(bytes) = saved {
            if ta_file.exists() { std::fs::write(&ta_file, bytes).unwrap(); }
        }
        if !initial && !corrupt && ok {
            h.ta_view = (1..=n).filter(|p| w["listed"].as_array().unwrap().iter().any(|x| x.as_u64() == Some(*p)))
                .map(|p| (p, (w["home"][p as usize - 1]["mod"].as_str().unwrap().to_string(),
                              w["home"][p as usize - 1]["notify"].as_bool().unwrap()))).collect();
        }

        // ---------------- black box: the retained data is still usable ---------
        let rb = readback(&h.bed, &h.bed.cache);
        let t_rb = now_ms();
        match rb {
            Ok(origins) => {
                for (p, (module, notify)) in &h.ta_view {
                    let held = pre.points.values().find(|f| f.p == *p && &f.module == module && f.notify == *notify);
                    if let Some(PointFile { state: PointState::Ok(v, na), .. }) = held {
                        if na * 1000 > t_rb + 1000 && !origins.contains(&payload_str(*p, *v)) {
                            rep.violation(P, "retained-point-unusable",
                                format!("an offline run after the cleanup does not produce {} of ca{p} (manifest {v} was stored and unexpired)",
                                        payload_str(*p, *v)),
                                ctx.clone(), json!({"run": observed, "offline_origins": origins}));
                        }
                    }
                }
            }
            Err(e) => {
                rep.violation(P, "offline-run-failed", format!("the offline run after the cleanup failed: {e}"), ctx.clone(), observed.clone());
            }
        }

        // the short lived manifests the model takes for valid must have been valid all the time
        let alive_min = h.short_abs.iter()
            .filter(|((p, v), _)| !w["dead"].as_array().unwrap().iter().any(|x| x[0].as_u64() == Some(*p) && x[1].as_u64() == Some(*v)))
            .map(|(_, secs)| fnow_ms + secs * 1000).min();
        if let Some(t) = alive_min {
            if now_ms() > t - 300 {
                rep.add_note(P, "histories_abandoned_too_slow", 1);
                h.abandoned = true;
                break
            }
        }

        // ---------------- model conformance -------------------------------------
        let exp_outcome_ok = r["outcome"] == "ok";
        let mut diffs = Vec::new();
        if exp_outcome_ok != ok { diffs.push(format!("outcome: model {} code {:?}", r["outcome"], outcome)) }
        // A LastAttempt record written in this run survives the cleanup iff a second boundary lies between the
        // start of the run and the attempt (see Cleanup.tla); the export assumes it does not.
        let crossed = t_start / 1000 != t_end / 1000;
        let mut drift = false;
        let mut cmp = |what: &str, model: &Value, obs: &Obs, diffs: &mut Vec<String>| {
            let ms = model_stored(&model["stored"]);
            let os = obs.model_view();
            let only_model: Vec<_> = ms.difference(&os).collect();
            let only_code: Vec<_> = os.difference(&ms).filter(|x| {
                let tolerated = crossed && what == "post" && x.3 == "att";
                if tolerated { drift = true }
                !tolerated
            }).collect();
            if !only_model.is_empty() || !only_code.is_empty() {
                diffs.push(format!("{what} stored: only model {:?}, only code {:?}", only_model, only_code));
            }
            let mc = set_of(&model["copies"]);
            let oc: BTreeSet<String> = obs.modules.iter().map(|m| module_name(m)).collect();
            if mc != oc { diffs.push(format!("{what} copies: model {:?} code {:?}", mc, oc)) }
        };
        cmp("pre", &r["pre"], &pre, &mut diffs);
        cmp("post", &r["post"], &post, &mut diffs);
        let mt: BTreeSet<String> = set_of(&r["touched"]);
        let ot: BTreeSet<String> = fetched.iter().map(|m| module_name(m)).collect();
        if mt != ot { diffs.push(format!("touched: model {:?} code {:?}", mt, ot)) }
        if h.clock_drift {
            rep.add_note(P, "runs_not_compared_after_clock_tick", 1);
        }
        else if !diffs.is_empty() {
            rep.divergence(P, format!("history {} run {} ({}): {}", h.idx, ri, r["cfg"], diffs.join("; ")));
            rep.add_note(P, "model_mismatches", 1);
        }
        else {
            rep.add_note(P, "runs_conforming_to_model", 1);
        }
        if drift { h.clock_drift = true }
        h.next_run += 1;
    }
    Progress::Finished
}

pub fn main(args: &Args) -> i32 {
    let behaviours = read_behaviours(args.input.as_deref().expect("--in"));
    routinator::verif::set_switch("sort-manifest-entries", true);
    let factory = Arc::new(Factory::new());
    let total = behaviours.len();
    let limit = args.opt_usize("limit", usize::MAX);
    let mut order: Vec<usize> = (0..total).collect();
    if limit < total {
        let mut rng = Rng::new(args.seed);
        rng.shuffle(&mut order);
        order.truncate(limit);
        order.sort();
    }
    let batch = args.opt_usize("batch", 12);
    let batches: Vec<Vec<usize>> = order.chunks(batch).map(|c| c.to_vec()).collect();
    let work = Arc::new(Mutex::new(batches.into_iter()));
    let behaviours = Arc::new(behaviours);
    let nthreads = args.opt_usize("jobs", 12);
    let mut rep = Report::new("cleanup");
    rep.touch(P);
    let reports: Vec<Report> = std::thread::scope(|scope| {
        let handles: Vec<_> = (0..nthreads).map(|_| {
            let work = work.clone();
            let behaviours = behaviours.clone();
            let factory = factory.clone();
            scope.spawn(move || {
                let mut local = Report::new("cleanup");
                loop {
                    let ids = match work.lock().unwrap().next() { Some(b) => b, None => break };
                    let mut hs: Vec<Hist> = ids.iter().map(|&idx| Hist {
                        idx, bed: TestBed::new(), same_host: (idx as u64 + args.seed) % 2 == 0, next_run: 0, step: 0, stale_mode: idx % 3 == 1,
                        short_abs: BTreeMap::new(), ta_view: BTreeMap::new(), clock_drift: false, abandoned: false,
                    }).collect();
                    let mut done = vec![false; hs.len()];
                    loop {
                        let mut wake: Option<i64> = None;
                        for (i, h) in hs.iter_mut().enumerate() {
                            if done[i] { continue }
                            let b = &behaviours[h.idx];
                            let res = catch(std::panic::AssertUnwindSafe(|| advance(&mut local, h, b, &factory)));
                            match res {
                                Ok(Progress::Finished) => {
                                    done[i] = true;
                                    if !h.abandoned {
                                        local.trace(P);
                                        if b["runs"].as_array().unwrap().iter().any(|r| r["stake"] == true && r["cleaned"] == true) {
                                            local.sample(P, b.clone());
                                        }
                                    }
                                }
                                Ok(Progress::Sleep(until)) => { wake = Some(wake.map_or(until, |w: i64| w.max(until))); }
                                Err(msg) => {
                                    done[i] = true;
                                    local.divergence(P, format!("history {}: panic in the harness or the code under test: {msg}", h.idx));
                                    local.add_note(P, "panics", 1);
                                }
                            }
                        }
                        match wake {
                            Some(t) => {
                                let ms = (t - now_ms()).max(0) as u64;
                                local.add_note(P, "expiry_waits", 1);
                                std::thread::sleep(Duration::from_millis(ms.min(10_000)));
                            }
                            None => break,
                        }
                    }
                }
                local
            })
        }).collect();
        handles.into_iter().map(|h| h.join().expect("worker")).collect()
    });
    for r in reports { rep.absorb(r); }
    rep.write(args)
}
