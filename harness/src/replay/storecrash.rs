//! C23: kill the process at every file-system step of the store during a run
//! (hook H2 kill points), then check that every command still works on the
//! cache that was left behind, that every stored publication point is a
//! complete old or new version, and that the next run yields the data of an
//! uninterrupted run.
//!
//! The crash states observed on disk are classified and checked against the
//! set of crash states the specification `StoreCrash.tla` allows (exported by
//! TLC), which binds the model to the code in the direction code -> spec.

use std::collections::{BTreeMap, BTreeSet};
use std::path::{Path, PathBuf};
use std::process::{Command, Stdio};
use std::sync::{Arc, Mutex};
use serde_json::{json, Value};
use routinator::config::Config;
use crate::common::{catch, read_behaviours, Args, Report};
use crate::env::TestBed;
use crate::gen::*;

const TA_REPO: &str = "rsync://r1.verif.test/repo/";
const CA_REPO: &str = "rsync://r2.verif.test/repo/";

/// RRDP scenario: the directory the children's HTTP double serves from (None: RRDP is disabled in the children).
static HTTP_ROOT: Mutex<Option<PathBuf>> = Mutex::new(None);
const NOTIFY: &str = "https://rrdp.verif.test/n/notification.xml";

/// Answers `https://host/path` with the file `<root>/host/path`; ETag = digest of the file, a matching If-None-Match gets 304.
fn install_file_http(root: PathBuf) {
    use routinator::verif::HttpReply;
    routinator::verif::set_http_override(Some(Arc::new(move |u: &str, etag: Option<&[u8]>, _ims: Option<i64>| {
        let rel = u.strip_prefix("https://").unwrap_or(u);
        match std::fs::read(root.join(rel)) {
            Err(_) => HttpReply { status: 404, headers: Vec::new(), body: b"not found".to_vec() },
            Ok(body) => {
                let tag = format!("\"{}\"", hexs(&rpki::crypto::DigestAlgorithm::sha256().digest(&body).as_ref()[..12]));
                if etag == Some(tag.as_bytes()) { HttpReply { status: 304, headers: vec![("ETag".into(), tag)], body: Vec::new() } }
                else { HttpReply { status: 200, headers: vec![("ETag".into(), tag)], body } }
            }
        }
    })));
}

/// Writes notification and snapshot (session fixed, the given serial) publishing everything of `published` below CA_REPO.
fn publish_rrdp(http_root: &Path, published: &Published, serial: u64) {
    use std::str::FromStr;
    use rpki::rrdp::{Hash, NotificationFile, PublishElement, Snapshot, UriAndHash};
    let session = uuid::Uuid::from_u128(0x2323_0000_0000_4000_8000_0000_0000_0023);
    let elements: Vec<PublishElement> = published.files.iter().filter(|(u, _)| u.starts_with(CA_REPO)).filter_map(|(u, b)| {
        rpki::uri::Rsync::from_str(u).ok().map(|u| PublishElement::new(u, b.clone()))
    }).collect();
    let mut snap = Vec::new();
    Snapshot::new(session, serial, elements).write_xml(&mut snap).expect("snapshot xml");
    let snap_uri = format!("https://rrdp.verif.test/n/snapshot-{serial}.xml");
    let notif = NotificationFile::new(session, serial,
        UriAndHash::new(rpki::uri::Https::from_str(&snap_uri).expect("uri"), Hash::from_data(&snap)), Vec::new());
    let mut n = Vec::new();
    notif.write_xml(&mut n).expect("notification xml");
    let dir = http_root.join("rrdp.verif.test").join("n");
    std::fs::create_dir_all(&dir).unwrap();
    std::fs::write(dir.join(format!("snapshot-{serial}.xml")), snap).unwrap();
    std::fs::write(dir.join("notification.xml"), n).unwrap();
}

fn cli_child(argv_file: &str) -> i32 {
    crate::env::install_inproc_rsync();
    if let Some(root) = std::env::var_os("VERIF_HTTP_ROOT") { install_file_http(PathBuf::from(root)); }
    let argv: Vec<String> = match std::fs::read_to_string(argv_file).ok().and_then(|t| serde_json::from_str(&t).ok()) {
        Some(a) => a,
        None => return 90,
    };
    let res = catch(std::panic::AssertUnwindSafe(|| -> Result<(), i32> {
        routinator::Operation::prepare().map_err(|_| 91)?;
        let cur = std::env::current_dir().map_err(|_| 92)?;
        let app = routinator::Operation::config_args(Config::config_args(clap::Command::new("routinator")));
        let matches = app.try_get_matches_from(argv.iter()).map_err(|e| { eprintln!("clap: {e}"); 93 })?;
        let mut config = Config::from_arg_matches(&matches, &cur).map_err(|_| 94)?;
        let op = routinator::Operation::from_arg_matches(&matches, &cur, &mut config).map_err(|_| 95)?;
        op.run(config).map_err(|e| match e {
            routinator::ExitError::Generic => 1,
            routinator::ExitError::IncompleteUpdate => 2,
            routinator::ExitError::Invalid => 3,
        })
    }));
    match res { Ok(Ok(())) => 0, Ok(Err(c)) => c, Err(msg) => { eprintln!("panic: {msg}"); 70 } }
}

/// The prefix (3 bits below 0/0) of payload item `f` of CA `ca` in version `v`.
fn pfx(ca: u64, v: u64, f: u64) -> String {
    let n = ((ca - 2) * 4 + (v - 1) * 2 + (f - 1)) as u8;       // 0..7
    super::rpkitree::prefix_of(&[(n >> 2) & 1, (n >> 1) & 1, n & 1], false)
}

fn vrp_line(ca: u64, v: u64, f: u64) -> String {
    let p = pfx(ca, v, f);
    format!("{p}-3 AS{}", 64500 + ca)
}

/// TA with two child CAs in another module; version `v` of both CAs.
/// `world`, both child CAs announcing the RRDP repository NOTIFY.
fn world_rrdp(v: u64) -> World {
    let mut w = world(v, false);
    for c in w.cas.iter_mut().skip(1) { c.notify = Some(NOTIFY.to_string()); }
    w
}

pub(crate) fn world(v: u64, ca3_mft_missing: bool) -> World {
    let mut ta = Ca::new("ca1", None, 0, &format!("{TA_REPO}ca1/"));
    ta.prefixes = vec!["0.0.0.0/0".into()];
    ta.asns = vec![(64000, 65000)];
    ta.mft = MftSpec { number: 1, this_update: -20, next_update: 24, ..Default::default() };
    ta.mft_validity = (-20, 24);
    ta.crl = (-20, 24);
    let mut cas = vec![ta];
    for ca in [2u64, 3] {
        let mut c = Ca::new(&format!("ca{ca}"), Some(0), ca as usize - 1, &format!("{CA_REPO}ca{ca}/"));
        c.prefixes = vec!["0.0.0.0/0".into()];
        c.asns = vec![(64000, 65000)];
        c.mft = MftSpec { number: v, this_update: -10 + v as i64, next_update: 24, ..Default::default() };
        c.mft_validity = (-12, 24);
        c.mft_serial = 100 + v;
        for f in [1u64, 2] {
            c.objects.push(Obj { name: format!("o{f}.roa"),
                kind: ObjKind::Roa { asn: 64500 + ca as u32, prefixes: vec![(pfx(ca, v, f), 3)] },
                serial: 10 * v + f, validity: (-12, 48), fault: Fault::None });
        }
        if ca == 3 && ca3_mft_missing { c.mft_fault = Fault::Missing; }
        cas.push(c);
    }
    World { tals: vec![Tal { name: "tal1".into(), ca: 0, uris: vec![(format!("{TA_REPO}ta1.cer"), TaVariant::Good)] }], cas }
}

struct ChildResult { code: Option<i32>, signal: Option<i32> }

fn run_child(bed_root: &Path, cache: &Path, tals: &Path, cmd: &[&str], env: &[(&str, String)]) -> ChildResult {
    run_child_wrapped(bed_root, cache, tals, cmd, env, &[])
}

/// As `run_child`, with the child started through `wrapper` (e.g. strace ... --).
fn run_child_wrapped(bed_root: &Path, cache: &Path, tals: &Path, cmd: &[&str], env: &[(&str, String)], wrapper: &[String]) -> ChildResult {
    use std::os::unix::process::ExitStatusExt;
    let http_root = HTTP_ROOT.lock().unwrap().clone();
    let mut argv: Vec<String> = vec![
        "routinator".into(), "--repository-dir".into(), cache.to_string_lossy().into(),
        "--no-rir-tals".into(), "--extra-tals-dir".into(), tals.to_string_lossy().into(),
        "--validation-threads".into(), "1".into(), "-qq".into(),
    ];
    if http_root.is_none() { argv.push("--disable-rrdp".into()); }
    argv.extend(cmd.iter().map(|s| s.to_string()));
    let argv_file = cache.with_extension(format!("argv{}.json", std::process::id()));
    std::fs::write(&argv_file, serde_json::to_string(&argv).unwrap()).unwrap();
    let exe = std::env::current_exe().unwrap();
    let mut c = if wrapper.is_empty() { Command::new(&exe) } else {
        let mut c = Command::new(&wrapper[0]);
        c.args(&wrapper[1..]).arg(&exe);
        c
    };
    c.arg("storecrash").arg("--opt").arg(format!("child={}", argv_file.display()))
        .current_dir(bed_root).stdout(Stdio::null()).stderr(Stdio::null());
    for (k, v) in env { c.env(k, v); }
    if let Some(r) = http_root.as_ref() { c.env("VERIF_HTTP_ROOT", r); }
    let st = c.status().expect("child");
    let _ = std::fs::remove_file(&argv_file);
    ChildResult { code: st.code(), signal: st.signal() }
}

fn copy_dir(src: &Path, dst: &Path) {
    let _ = std::fs::remove_dir_all(dst);
    std::fs::create_dir_all(dst).unwrap();
    if let Ok(rd) = std::fs::read_dir(src) {
        for e in rd.flatten() {
            let p = e.path();
            let d = dst.join(e.file_name());
            if p.is_dir() { copy_dir(&p, &d) } else { let _ = std::fs::copy(&p, &d); }
        }
    }
}

fn read_vrps(path: &Path) -> Option<BTreeSet<String>> {
    let text = std::fs::read_to_string(path).ok()?;
    let mut res = BTreeSet::new();
    for l in text.lines().skip(1) {
        // ASN,IP Prefix,Max Length,Trust Anchor
        let f: Vec<&str> = l.split(',').collect();
        if f.len() < 3 { return None }
        res.insert(format!("{}-{} {}", f[1], f[2], f[0]));
    }
    Some(res)
}

fn version_set(ca: u64, v: u64) -> BTreeSet<String> {
    [1u64, 2].iter().map(|f| vrp_line(ca, v, *f)).collect()
}

/// Classifies a stored point file: absent / empty / attempt / full / other.
fn classify_point(path: &Path) -> String {
    use routinator::store::{StoredManifest, StoredObject, StoredPointHeader};
    let data = match std::fs::read(path) { Ok(d) => d, Err(_) => return "absent".into() };
    if data.is_empty() { return "empty".into() }
    let mut r = std::io::Cursor::new(&data);
    // a header cut short by a kill between the pieces it is written in: the reader reports it as such
    // (a fatal error here would stop every later run)
    if let Err(e) = StoredPointHeader::read(&mut r) {
        return if e.is_fatal() { "header-fatal".into() } else { "torn".into() }
    }
    if r.position() as usize == data.len() { return "attempt".into() }
    if StoredManifest::read(&mut r).is_err() { return "other".into() }
    loop {
        match StoredObject::read(&mut r) {
            Ok(Some(_)) => {}
            Ok(None) => break,
            Err(_) => return "other".into(),
        }
    }
    "full".into()
}

fn classify_plain(path: &Path) -> String {
    match std::fs::read(path) {
        Err(_) => "absent".into(),
        Ok(d) if d.is_empty() => "empty".into(),
        Ok(_) => "ok".into(),
    }
}

pub(crate) fn find_files(root: &Path, suffix: &str, out: &mut Vec<PathBuf>) {
    if let Ok(rd) = std::fs::read_dir(root) {
        for e in rd.flatten() {
            let p = e.path();
            if p.is_dir() { find_files(&p, suffix, out) }
            else if p.to_string_lossy().ends_with(suffix) { out.push(p) }
        }
    }
}

pub fn main(args: &Args) -> i32 {
    if let Some(file) = args.opt("child") {
        return cli_child(file)
    }
    // crash states the specification allows: (point, status, ta) classes
    let allowed: BTreeSet<(String, String, String)> = read_behaviours(args.input.as_deref().expect("--in")).iter().map(|b| {
        (b["point"].as_str().unwrap().to_string(), b["status"].as_str().unwrap().to_string(), b["ta"].as_str().unwrap().to_string())
    }).collect();
    let allowed_point: BTreeSet<String> = allowed.iter().map(|x| match x.0.as_str() { "old" | "new" => "full".to_string(), o => o.to_string() }).collect();
    let allowed_status: BTreeSet<String> = allowed.iter().map(|x| x.1.clone()).collect();
    let mut rep = Report::new("storecrash");
    rep.touch("C23");
    let factory = Arc::new(Factory::new());
    let scenarios: Vec<&str> = if args.thorough() { vec!["fresh", "update", "attempt", "attempt_then_ok", "server_first", "rrdp_update"] }
                               else { vec!["fresh", "update", "attempt", "rrdp_update"] };
    let rep = Arc::new(Mutex::new(rep));
    for sc in scenarios {
        scenario(&rep, &factory, sc, &allowed_point, &allowed_status, args);
    }
    let rep = Arc::try_unwrap(rep).ok().unwrap().into_inner().unwrap();
    rep.write(args)
}

/// Classifies the crashed cache, then runs the recovery commands on copies of it.
#[allow(clippy::too_many_arguments)]
fn judge(local: &mut Report, root: &Path, tals: &Path, crashed: &Path, ctx: &Value, name: &str,
         reference: &BTreeSet<String>, new_version: u64, old_version: u64,
         allowed_point: &BTreeSet<String>, allowed_status: &BTreeSet<String>, tag: &str, had_stored: bool) {
    let crashed = crashed.to_path_buf();
    // classify what is on disk
    let mut files = Vec::new();
    find_files(&crashed.join("stored"), ".mft", &mut files);
    let mut classes = BTreeMap::new();
    for f in &files {
        let c = classify_point(f);
        classes.insert(f.file_name().unwrap().to_string_lossy().into_owned(), c.clone());
        if had_stored && c != "full" {
            local.violation("C23", &format!("stored-point-lost/{name}"),
                format!("after a kill at '{name}' the stored point {} that held a complete version before the run is now '{c}': neither its previous nor its new version", f.display()),
                ctx.clone(), json!({"class": c}));
        }
        if !allowed_point.contains(&c) {
            local.violation("C23", &format!("corrupt-stored-point/{name}"),
                format!("after a kill at '{name}' the stored point {} is neither absent, empty, a bare header nor a complete version ({c})", f.display()),
                ctx.clone(), json!({"class": c}));
        }
    }
    if had_stored {
        let mut before = Vec::new();
        find_files(&root.join("base-cache").join("stored"), ".mft", &mut before);
        for f in &before {
            let fname = f.file_name().unwrap().to_string_lossy().into_owned();
            if !classes.contains_key(&fname) {
                classes.insert(fname.clone(), "absent".into());
                local.violation("C23", &format!("stored-point-lost/{name}"),
                    format!("after a kill at '{name}' the stored point {fname} that held a complete version before the run is gone: neither its previous nor its new version"),
                    ctx.clone(), json!({"class": "absent"}));
            }
        }
    }
    let status_class = classify_plain(&crashed.join("stored").join("status.bin"));
    if !allowed_status.contains(&status_class) {
        local.divergence("C23", format!("status file class {status_class} not in the model"));
    }
    let observed_state = json!({"points": classes, "status": status_class});
    // recovery commands, each on its own copy
    let recoveries: [(&str, Vec<&str>); 5] = [
        ("vrps-noupdate", vec!["vrps", "-n", "-o", "rec.csv"]),
        ("vrps-update-after", vec!["vrps", "--update-after", "3600", "-o", "rec.csv"]),
        ("vrps", vec!["vrps", "-o", "rec.csv"]),
        ("validate", vec!["validate", "--asn", "64502", "--prefix", "0.0.0.0/3"]),
        ("update", vec!["update"]),
    ];
    for (rname, rcmd) in recoveries.iter() {
        let rc = root.join("caches").join(format!("{tag}-{rname}"));
        copy_dir(&crashed, &rc);
        let out = format!("rec-{tag}-{rname}.csv");
        let mut cmd: Vec<&str> = rcmd.clone();
        if let Some(pos) = cmd.iter().position(|x| *x == "rec.csv") { cmd[pos] = &out; }
        let res = run_child(root, &rc, tals, &cmd, &[]);
        local.eval("C23");
        let observed = json!({"command": rname, "exit_code": res.code, "signal": res.signal, "state_after_kill": observed_state});
        if res.code != Some(0) {
            local.violation("C23", &format!("command-fails-after-crash/{rname}/{name}"),
                format!("after a kill at '{name}' the command '{}' exits with {:?}", rcmd.join(" "), res.code),
                ctx.clone(), observed.clone());
        }
        else if rname.starts_with("vrps") {
            match read_vrps(&root.join(&out)) {
                None => local.violation("C23", &format!("no-output-after-crash/{rname}"), "vrps produced no readable output", ctx.clone(), observed.clone()),
                Some(got) => {
                    if *rname == "vrps" && got != *reference {
                        local.violation("C23", &format!("different-data-after-crash/{name}"),
                            format!("the run after the crash yields {:?}, an uninterrupted run {:?}", got, reference), ctx.clone(), observed.clone());
                    }
                    if *rname == "vrps-noupdate" {
                        // every CA contributes a complete old or new version (or nothing)
                        for ca in [2u64, 3] {
                            let mine: BTreeSet<String> = got.iter().filter(|l| l.ends_with(&format!("AS{}", 64500 + ca))).cloned().collect();
                            // (nothing at all is also what a CA contributes whose point file is a bare header)
                    let ok = (mine.is_empty() && !had_stored) || mine == version_set(ca, new_version)
                                || (old_version != 0 && mine == version_set(ca, old_version));
                            if !ok {
                                local.violation("C23", &format!("partial-point-after-crash/{name}"),
                                    format!("after the crash CA ca{ca} contributes {:?}: neither its previous nor its new complete version", mine),
                                    ctx.clone(), observed.clone());
                            }
                        }
                    }
                }
            }
            let _ = std::fs::remove_file(root.join(&out));
        }
        let _ = std::fs::remove_dir_all(&rc);
    }
    local.sample("C23", json!({"kill_point": name, "state_after_kill": observed_state}));
}

fn scenario(rep: &Arc<Mutex<Report>>, factory: &Arc<Factory>, sc: &str,
            allowed_point: &BTreeSet<String>, allowed_status: &BTreeSet<String>, args: &Args) {
    *HTTP_ROOT.lock().unwrap() = None;
    let bed = TestBed::new();
    let root = bed.dir.path().to_path_buf();
    let tals = bed.tals.clone();
    let base = root.join("base-cache");
    std::fs::create_dir_all(&base).unwrap();
    // 1. the state before the run that will be killed
    let (killed_cmd, new_version): (Vec<&str>, u64) = match sc {
        "fresh" => { bed.publish(&world(1, false).build(factory)); (vec!["vrps", "-o", "out.csv"], 1) }
        "update" | "server_first" => {
            bed.publish(&world(1, false).build(factory));
            let r = run_child(&root, &base, &tals, &["update"], &[]);
            if r.code != Some(0) { rep.lock().unwrap().divergence("C23", format!("{sc}: preparing run failed {:?}", r.code)); return }
            bed.publish(&world(2, false).build(factory));
            (vec!["vrps", "-o", "out.csv"], 2)
        }
        // both child CAs live in one RRDP repository; version 2 is a new serial.  The killed run has fetched it (archive
        // and ETag at serial 2) before it comes to the store; the runs after the kill get "304 Not Modified" and must
        // still bring every point to version 2
        "rrdp_update" => {
            let http = root.join("http");
            *HTTP_ROOT.lock().unwrap() = Some(http.clone());
            let p1 = world_rrdp(1).build(factory);
            bed.publish(&p1);
            publish_rrdp(&http, &p1, 1);
            let r = run_child(&root, &base, &tals, &["update"], &[]);
            if r.code != Some(0) { rep.lock().unwrap().divergence("C23", format!("{sc}: preparing run failed {:?}", r.code)); *HTTP_ROOT.lock().unwrap() = None; return }
            let mut arch = Vec::new();
            find_files(&base.join("rrdp"), ".bin", &mut arch);
            if arch.is_empty() { rep.lock().unwrap().divergence("C23", format!("{sc}: the preparing run left no RRDP archive")); *HTTP_ROOT.lock().unwrap() = None; return }
            let p2 = world_rrdp(2).build(factory);
            bed.publish(&p2);
            publish_rrdp(&http, &p2, 2);
            (vec!["vrps", "-o", "out.csv"], 2)
        }
        "attempt" | "attempt_then_ok" => {
            bed.publish(&world(1, true).build(factory));
            let r = run_child(&root, &base, &tals, &["update"], &[]);
            if r.code != Some(0) { rep.lock().unwrap().divergence("C23", format!("{sc}: preparing run failed {:?}", r.code)); return }
            if sc == "attempt_then_ok" { bed.publish(&world(1, false).build(factory)); }
            (vec!["vrps", "-o", "out.csv"], 1)
        }
        x => panic!("scenario {x}"),
    };
    let ca3_missing = sc == "attempt";
    let had_stored = matches!(sc, "update" | "server_first" | "rrdp_update");
    let old_version = if new_version == 2 { 1 } else { 0 };
    // 2. uninterrupted reference run, counting the kill points
    let refc = root.join("caches").join("ref");
    copy_dir(&base, &refc);
    let klog = root.join("kill.log");
    let _ = std::fs::remove_file(&klog);
    let r = run_child(&root, &refc, &tals, &killed_cmd, &[("VERIF_KILL_LOG", klog.to_string_lossy().into())]);
    let points: Vec<String> = std::fs::read_to_string(&klog).unwrap_or_default().lines().map(String::from).collect();
    let reference = read_vrps(&root.join("out.csv"));
    if r.code != Some(0) || reference.is_none() || points.is_empty() {
        rep.lock().unwrap().divergence("C23", format!("{sc}: reference run failed ({:?}, {} kill points)", r.code, points.len()));
        return
    }
    let reference = reference.unwrap();
    let mut expected_new: BTreeSet<String> = version_set(2, new_version);
    if !ca3_missing { expected_new.extend(version_set(3, new_version)); }
    if reference != expected_new {
        rep.lock().unwrap().divergence("C23", format!("{sc}: reference run gives {:?}, expected {:?}", reference, expected_new));
        return
    }
    rep.lock().unwrap().note("C23", &format!("kill_points_{sc}"), json!(points.len()));
    // 3. one killed run per kill point, then the recovery commands
    let ks: Vec<usize> = (1..=points.len()).collect();
    let work = Arc::new(Mutex::new(ks.into_iter()));
    let nthreads = args.opt_usize("jobs", 10);
    std::thread::scope(|scope| {
        for t in 0..nthreads {
            let work = work.clone();
            let rep = rep.clone();
            let (root, base, tals, points, killed_cmd, reference) = (&root, &base, &tals, &points, &killed_cmd, &reference);
            scope.spawn(move || loop {
                let k = match work.lock().unwrap().next() { Some(k) => k, None => break };
                let mut local = Report::new("storecrash");
                let name = points[k - 1].split_once(' ').map(|x| x.1).unwrap_or("?").to_string();
                let crashed = root.join("caches").join(format!("k{k}-t{t}"));
                copy_dir(base, &crashed);
                let out_killed = format!("out-k{k}.csv");
                let mut cmd: Vec<&str> = killed_cmd.clone();
                let n = cmd.len();
                cmd[n - 1] = &out_killed;
                let r = run_child(root, &crashed, tals, &cmd, &[("VERIF_KILL_AT", k.to_string())]);
                let ctx = json!({"scenario": sc, "kill_point": k, "kill_point_name": name, "of": points.len()});
                local.eval("C23"); local.trace("C23");
                local.nontrivial("C23", format!("{sc}/{k}/{name}"));
                if r.signal != Some(9) {
                    local.divergence("C23", format!("{sc}: run with VERIF_KILL_AT={k} was not killed (code {:?})", r.code));
                    rep.lock().unwrap().absorb(local);
                    continue
                }
                judge(&mut local, root, tals, &crashed, &ctx, &name, reference, new_version, old_version,
                      allowed_point, allowed_status, &format!("k{k}-t{t}"), had_stored);
                let _ = std::fs::remove_dir_all(&crashed);
                let _ = std::fs::remove_file(root.join(&out_killed));
                rep.lock().unwrap().absorb(local);
            });
        }
    });
    // 4. the same with kills at system-call granularity (strace fault injection): independent of where
    //    the source-level kill points were placed
    // (fresh / attempt: point files are created and their headers written piece by piece: the `write` calls)
    if sc == "update" || sc == "fresh" || sc == "attempt" || (args.thorough() && sc != "rrdp_update") {
        syscall_pass(rep, sc, &root, &base, &tals, &killed_cmd, &reference, new_version, old_version,
                     allowed_point, allowed_status, had_stored, args);
    }
    let _ = Value::Null;
    *HTTP_ROOT.lock().unwrap() = None;
}

const SYSCALLS: &str = "rename,renameat,renameat2,unlink,unlinkat,rmdir,ftruncate,mkdir,mkdirat";
/// strace keeps the `when=k` counter per thread and per system call, and the
/// whole process dies when any thread reaches its k-th call of any call in the
/// set.  So each call is injected on its own: a call of the counting run is
/// reachable when no other thread reaches the same index of the same call
/// earlier.  The share of reachable calls is reported.
fn syscall_pass(rep: &Arc<Mutex<Report>>, sc: &str, root: &Path, base: &Path, tals: &Path, killed_cmd: &[&str],
                reference: &BTreeSet<String>, new_version: u64, old_version: u64,
                allowed_point: &BTreeSet<String>, allowed_status: &BTreeSet<String>, had_stored: bool, args: &Args) {
    let union = if args.thorough() { format!("{SYSCALLS},write,pwrite64,writev,openat,creat,truncate") }
                else if sc == "update" { SYSCALLS.to_string() }
                else { "write,pwrite64,writev".to_string() };
    let sets: Vec<String> = union.split(',').map(|x| x.to_string()).collect();
    // counting run (union): the global order of the calls
    let countc = root.join("caches").join("sys-count");
    copy_dir(base, &countc);
    let log = root.join("strace-count.log");
    let wrapper: Vec<String> = vec!["strace".into(), "-f".into(), "-qq".into(), "-e".into(), format!("trace={union}"),
                                    "-o".into(), log.to_string_lossy().into(), "--".into()];
    let r = run_child_wrapped(root, &countc, tals, killed_cmd, &[], &wrapper);
    let text = std::fs::read_to_string(&log).unwrap_or_default();
    // (pid, syscall name) in log order
    let mut calls: Vec<(String, String)> = Vec::new();
    for l in text.lines() {
        if let Some((pid, rest)) = l.split_once(' ') {
            let rest = rest.trim_start();
            if rest.contains('(') && !rest.starts_with("+++") && !rest.starts_with("---") && !rest.starts_with("<...") {
                calls.push((pid.to_string(), rest.split('(').next().unwrap_or("?").trim().to_string()));
            }
        }
    }
    if r.code != Some(0) || calls.is_empty() {
        rep.lock().unwrap().divergence("C23", format!("{sc}: strace counting run unusable (exit {:?}, {} calls): system-call pass skipped", r.code, calls.len()));
        rep.lock().unwrap().note("C23", "syscall_pass", json!("skipped"));
        return
    }
    // the injections to do: (set, k); and which calls of the counting run they reach
    let mut jobs: Vec<(String, usize)> = Vec::new();
    let mut reached: BTreeSet<usize> = BTreeSet::new();
    for set in &sets {
        let names: BTreeSet<&str> = set.split(',').collect();
        let mut per_pid: BTreeMap<&str, usize> = BTreeMap::new();
        let mut first_at: BTreeMap<usize, usize> = BTreeMap::new();   // index k -> position of the first call with that index
        for (pos, (pid, name)) in calls.iter().enumerate() {
            if !names.contains(name.as_str()) { continue }
            let c = per_pid.entry(pid.as_str()).or_insert(0);
            *c += 1;
            first_at.entry(*c).or_insert(pos);
        }
        for (k, pos) in first_at {
            jobs.push((set.clone(), k));
            reached.insert(pos);
        }
    }
    rep.lock().unwrap().note("C23", &format!("syscall_calls_{sc}"), json!(calls.len()));
    rep.lock().unwrap().note("C23", &format!("syscall_calls_reached_{sc}"), json!(reached.len()));
    rep.lock().unwrap().note("C23", &format!("syscall_kill_points_{sc}"), json!(jobs.len()));
    let work = Arc::new(Mutex::new(jobs.into_iter().enumerate()));
    let nthreads = args.opt_usize("jobs", 10);
    std::thread::scope(|scope| {
        for t in 0..nthreads {
            let work = work.clone();
            let rep = rep.clone();
            scope.spawn(move || loop {
                let (j, (set, k)) = match work.lock().unwrap().next() { Some(x) => x, None => break };
                let mut local = Report::new("storecrash");
                let crashed = root.join("caches").join(format!("s{j}-t{t}"));
                copy_dir(base, &crashed);
                let out_killed = format!("out-s{j}.csv");
                let mut cmd: Vec<&str> = killed_cmd.to_vec();
                let n = cmd.len();
                cmd[n - 1] = &out_killed;
                let slog = root.join(format!("strace-s{j}-t{t}.log"));
                let wrapper: Vec<String> = vec!["strace".into(), "-f".into(), "-qq".into(), "-e".into(), format!("trace={set}"),
                    "-e".into(), format!("inject={set}:signal=SIGKILL:when={k}"), "-o".into(), slog.to_string_lossy().into(), "--".into()];
                let r = run_child_wrapped(root, &crashed, tals, &cmd, &[], &wrapper);
                let killed = r.signal == Some(9) || r.code == Some(137);
                if killed {
                    // the system call the kill hit: last call line of the killed thread
                    let st = std::fs::read_to_string(&slog).unwrap_or_default();
                    let name = st.lines().rev().find(|l| l.contains('(')).map(|l| {
                        let call = l.split_once(' ').map(|x| x.1).unwrap_or(l);
                        call.split('(').next().unwrap_or("?").trim().to_string()
                    }).unwrap_or_else(|| "?".into());
                    let name = format!("syscall-{name}");
                    let ctx = json!({"scenario": sc, "kill": "strace fault injection", "syscall_set": set, "when": k, "syscall": name});
                    local.eval("C23"); local.trace("C23");
                    local.nontrivial("C23", format!("{sc}/sys/{set}/{k}"));
                    judge(&mut local, root, tals, &crashed, &ctx, &name, reference, new_version, old_version,
                          allowed_point, allowed_status, &format!("s{j}-t{t}"), had_stored);
                }
                let _ = std::fs::remove_dir_all(&crashed);
                let _ = std::fs::remove_file(root.join(&out_killed));
                let _ = std::fs::remove_file(&slog);
                rep.lock().unwrap().absorb(local);
            });
        }
    });
}
