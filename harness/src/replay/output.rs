//! Replay of `Gen_Output` cases against `routinator::output` (C21) and the
//! status / metrics documents of the real HTTP server (C22).
//!
//! Input lines (see spec/Gen_Output.tla):
//!  * `universe`: the model's items, query prefixes and the 13 formats with
//!    the payload types each can list;
//!  * `case`: data set, selection, exclusions and the items the documented
//!    selection admits;
//!  * `string`: a label string as character classes plus the text the
//!    intended escaping writes.
//!
//! C21: every case is rendered in all 13 formats through `Output::write`
//! (selection built with the `Selection` API) and through
//! `Output::from_query` + `Output::stream` (the HTTP path), parsed with a
//! parser per format written here (serde_json, `rpki::slurm::SlurmFile`,
//! line grammars) and the listed items are compared, as a multiset, with
//! the expected ones.  A sample also goes through the real HTTP server.
//! Label strings are put into trust-anchor names and SLURM comments of
//! every item of the full data set and rendered in all formats.
//!
//! C22: label strings are put into a real `Metrics` value (TAL name, rsync /
//! RRDP / publication point log messages), installed into a real
//! `SharedHistory`, and `/api/v1/status` and `/metrics` are fetched from the
//! real HTTP server over loopback and parsed (serde_json; a Prometheus text
//! format parser written here).

use std::collections::{BTreeMap, BTreeSet, HashMap};
use std::io::{Read, Write};
use std::net::{IpAddr, Ipv4Addr, Ipv6Addr, SocketAddr, TcpListener, TcpStream};
use std::str::FromStr;
use std::sync::Arc;
use std::time::Duration;
use serde_json::{json, Value};
use routinator::config::Config;
use routinator::log::LogBookWriter;
use routinator::metrics::{
    Metrics, RepositoryMetrics, RrdpRepositoryMetrics, RsyncModuleMetrics, RtrServerMetrics, TalMetrics,
};
use routinator::output::{Output, OutputFormat, Selection};
use routinator::payload::{PayloadInfo, PayloadSnapshot, PublishInfo, SharedHistory, ValidationReport};
use routinator::slurm::{ExceptionInfo, LocalExceptions};
use rpki::crypto::keys::KeyIdentifier;
use rpki::repository::tal::TalInfo;
use rpki::repository::x509::{Time, Validity};
use rpki::resources::{Asn, MaxLenPrefix, Prefix};
use rpki::rtr::payload::{Aspa, RouteOrigin, RouterKey};
use rpki::rtr::pdu::{ProviderAsns, RouterKeyInfo};
use rpki::rtr::server::NotifySender;
use rpki::slurm::SlurmFile;
use rpki::uri;
use crate::common::{catch, read_behaviours, Args, Report, Rng};

//------------ Concretisation of the model's universe --------------------------

const ASN_BASE: u32 = 64500;

fn asn(n: u64) -> Asn { Asn::from_u32(ASN_BASE + n as u32) }

/// `{fam, bits}` -> the bits below 10.0.0.0/8 resp. 2001:db8::/32.
fn prefix(v: &Value) -> Prefix {
    let bits: Vec<u64> = v["bits"].as_array().unwrap().iter().map(|b| b.as_u64().unwrap()).collect();
    match v["fam"].as_u64().unwrap() {
        4 => {
            let mut a: u32 = 10 << 24;
            for (i, b) in bits.iter().enumerate() { a |= (*b as u32) << (23 - i); }
            Prefix::new(IpAddr::V4(Ipv4Addr::from(a)), 8 + bits.len() as u8).expect("v4 prefix")
        }
        6 => {
            let mut a: u128 = 0x2001_0db8u128 << 96;
            for (i, b) in bits.iter().enumerate() { a |= (*b as u128) << (95 - i); }
            Prefix::new(IpAddr::V6(Ipv6Addr::from(a)), 32 + bits.len() as u8).expect("v6 prefix")
        }
        f => panic!("family {f}"),
    }
}

fn pfx_str(p: Prefix) -> String { let (a, l) = p.addr_and_len(); format!("{a}/{l}") }

#[derive(Clone)]
enum Payload { Origin(RouteOrigin), Key(RouterKey), Aspa(Aspa) }

#[derive(Clone)]
struct UItem { id: u64, prov: String, payload: Payload }

#[derive(Clone)]
struct Fmt { name: String, lists: Vec<char>, format: OutputFormat }

struct Universe { items: BTreeMap<(char, u64), UItem>, formats: Vec<Fmt> }

fn router_key(id: u64, a: Asn) -> RouterKey {
    let ski = KeyIdentifier::from([0x10 + id as u8; 20]);
    let info = RouterKeyInfo::new(bytes::Bytes::from(vec![0xa0 + id as u8; 40])).expect("key info");
    RouterKey::new(ski, a, info)
}

fn universe(v: &Value) -> Universe {
    let mut items = BTreeMap::new();
    for it in v["items"].as_array().unwrap() {
        let t = it["t"].as_str().unwrap().chars().next().unwrap();
        let id = it["id"].as_u64().unwrap();
        let a = asn(it["asn"].as_u64().unwrap());
        let payload = match t {
            'o' => {
                let p = prefix(&it["pfx"]);
                let ml = it["ml"].as_i64().unwrap();
                let max = if ml < 0 { None } else { Some(p.addr_and_len().1 + ml as u8) };
                Payload::Origin(RouteOrigin::new(MaxLenPrefix::new(p, max).expect("maxlen"), a))
            }
            'k' => Payload::Key(router_key(id, a)),
            'a' => Payload::Aspa(Aspa::new(a, ProviderAsns::try_from_iter(
                [Asn::from_u32(ASN_BASE + 100 + id as u32), Asn::from_u32(ASN_BASE + 200)].into_iter()
            ).expect("providers"))),
            x => panic!("type {x}"),
        };
        items.insert((t, id), UItem { id, prov: it["prov"].as_str().unwrap().to_string(), payload });
    }
    let formats = v["formats"].as_array().unwrap().iter().map(|f| {
        let name = f["name"].as_str().unwrap().to_string();
        Fmt {
            format: OutputFormat::from_str(&name).unwrap_or_else(|_| panic!("format {name} unknown to the code")),
            lists: f["lists"].as_array().unwrap().iter().map(|x| x.as_str().unwrap().chars().next().unwrap()).collect(),
            name,
        }
    }).collect();
    Universe { items, formats }
}

//------------ Item identities -------------------------------------------------

fn id_origin(p: &str, max: Option<u8>, a: u32) -> String {
    match max { Some(m) => format!("o|{p}|{m}|{a}"), None => format!("o|{p}|*|{a}") }
}
fn id_key(a: u32, ski: &str, key: &str) -> String { format!("k|{a}|{ski}|{key}") }
fn id_aspa(c: u32, provs: &[u32]) -> String {
    let mut p = provs.to_vec(); p.sort();
    format!("a|{c}|{}", p.iter().map(|x| x.to_string()).collect::<Vec<_>>().join(","))
}

/// The identity of a universe item as `fmt` can express it (RPSL has no max length).
fn identity(it: &UItem, fmt: &str) -> String {
    match &it.payload {
        Payload::Origin(o) => id_origin(&pfx_str(o.prefix.prefix()),
            if fmt == "rpsl" { None } else { Some(o.prefix.resolved_max_len()) }, o.asn.into_u32()),
        Payload::Key(k) => id_key(k.asn.into_u32(), &k.key_identifier.to_string(), &k.key_info.to_string()),
        Payload::Aspa(a) => id_aspa(a.customer.into_u32(), &a.providers.iter().map(|x| x.into_u32()).collect::<Vec<_>>()),
    }
}

//------------ Character classes -----------------------------------------------

fn class_char(c: &str) -> &'static str {
    match c {
        "plain" => "a", "quote" => "\"", "bslash" => "\\", "nl" => "\n", "tab" => "\t",
        "ctl" => "\u{1}", "uni" => "\u{e9}",
        // letters after a backslash in the model's escaped text
        "n" => "n", "t" => "t", "u0001" => "u0001",
        x => panic!("class {x}"),
    }
}
fn concretise(classes: &[String]) -> String { classes.iter().map(|c| class_char(c)).collect() }
fn classes_of(v: &Value) -> Vec<String> { v.as_array().unwrap().iter().map(|c| c.as_str().unwrap().to_string()).collect() }

//------------ Building snapshots ----------------------------------------------

#[derive(Clone, Debug)]
enum Prov {
    Tal(String),
    Slurm(Option<String>),
    /// Published under two TALs and asserted locally as well (a chain of three sources).
    Chain(String, String),
    /// Asserted by several local exceptions (the same assertion in several files) and by `n_pub` published objects.
    Multi(usize, Vec<Option<String>>),
}

fn time(y: i32) -> Time { Time::utc(y, 1, 2, 3, 4, 5) }

fn publish_info(name: &str, n: usize) -> Arc<PublishInfo> {
    Arc::new(PublishInfo {
        tal: Arc::new(TalInfo::from_name(name.to_string())),
        uri: Some(uri::Rsync::from_str(&format!("rsync://repo.example.net/module/ca/obj{n}.roa")).expect("uri")),
        roa_validity: Validity::new(time(2024), time(2034)),
        chain_validity: Validity::new(time(2025), time(2033)),
        point_stale: time(2030),
    })
}

fn info(p: &Prov, n: usize) -> PayloadInfo {
    match p {
        Prov::Tal(name) => PayloadInfo::from(publish_info(name, n)),
        Prov::Slurm(comment) => PayloadInfo::from(Arc::new(ExceptionInfo { path: None, comment: comment.clone() })),
        Prov::Chain(name, comment) => {
            let mut res = PayloadInfo::from(publish_info(name, n));
            res.add_published(publish_info("other", n + 100));
            res.add_local(Arc::new(ExceptionInfo { path: None, comment: Some(comment.clone()) }));
            res
        }
        Prov::Multi(n_pub, comments) => {
            let exc = |c: &Option<String>| Arc::new(ExceptionInfo { path: None, comment: c.clone() });
            let mut res = if *n_pub > 0 { PayloadInfo::from(publish_info("multi", n)) } else { PayloadInfo::from(exc(&comments[0])) };
            for i in 1..*n_pub { res.add_published(publish_info("other", n + 100 * i)); }
            for c in comments.iter().skip(if *n_pub > 0 { 0 } else { 1 }) { res.add_local(exc(c)); }
            res
        }
    }
}

fn snapshot(items: &[(&UItem, Prov)], rev: bool) -> PayloadSnapshot {
    let mut o = Vec::new(); let mut k = Vec::new(); let mut a = Vec::new();
    for (n, (it, p)) in items.iter().enumerate() {
        match &it.payload {
            Payload::Origin(x) => o.push((*x, info(p, n))),
            Payload::Key(x) => k.push((x.clone(), info(p, n))),
            Payload::Aspa(x) => a.push((x.clone(), info(p, n))),
        }
    }
    if rev { o.reverse(); k.reverse(); a.reverse(); }
    PayloadSnapshot::new(o.into_iter(), k.into_iter(), a.into_iter(), None)
}

//------------ Selections --------------------------------------------------------

#[derive(Clone, Debug)]
struct SelSpec { asns: Vec<u64>, pfxs: Vec<Prefix>, more: bool, excl: Vec<char> }

impl SelSpec {
    fn from_case(c: &Value) -> Self {
        SelSpec {
            asns: c["asns"].as_array().unwrap().iter().map(|x| x.as_u64().unwrap()).collect(),
            pfxs: c["pfxs"].as_array().unwrap().iter().map(prefix).collect(),
            more: c["more"].as_bool().unwrap(),
            excl: c["excl"].as_array().unwrap().iter().map(|x| x.as_str().unwrap().chars().next().unwrap()).collect(),
        }
    }

    /// The way `vrps` builds it (operation.rs:602-625).
    fn output_api(&self, flip: bool) -> Output {
        let mut out = Output::new();
        if !self.asns.is_empty() || !self.pfxs.is_empty() {
            let mut s = Selection::new();
            if flip {
                for a in &self.asns { s.push_asn(asn(*a)) }
                for p in self.pfxs.iter().rev() { s.push_prefix(*p) }
            }
            else {
                for p in &self.pfxs { s.push_prefix(*p) }
                for a in &self.asns { s.push_asn(asn(*a)) }
            }
            s.set_more_specifics(self.more);
            out.set_selection(s);
        }
        for e in &self.excl {
            match e { 'o' => out.no_route_origins(), 'k' => out.no_router_keys(), 'a' => out.no_aspas(), _ => panic!() }
        }
        out
    }

    /// The query string of the HTTP interface (doc/routinator.1, HTTP SERVICE).
    fn query(&self, style: u64) -> Option<String> {
        let mut parts: Vec<String> = Vec::new();
        for a in &self.asns {
            let key = if style & 1 == 1 { "filter-asn" } else { "select-asn" };
            parts.push(if style & 2 == 2 { format!("{key}={}", ASN_BASE + *a as u32) } else { format!("{key}=AS{}", ASN_BASE + *a as u32) });
        }
        for p in &self.pfxs {
            let key = if style & 1 == 1 { "filter-prefix" } else { "select-prefix" };
            let s = pfx_str(*p);
            parts.push(if style & 4 == 4 { format!("{key}={}", s.replace('/', "%2F").replace(':', "%3A")) } else { format!("{key}={s}") });
        }
        if self.more { parts.push("include=more-specifics".into()) }
        let names: Vec<&str> = self.excl.iter().map(|e| match e { 'o' => "routeOrigins", 'k' => "routerKeys", 'a' => "aspas", _ => panic!() }).collect();
        if !names.is_empty() {
            if style & 8 == 8 { for n in &names { parts.push(format!("exclude={n}")) } }
            else { parts.push(format!("exclude={}", names.join(","))) }
        }
        if style & 16 == 16 { parts.reverse() }
        if parts.is_empty() { None } else { Some(parts.join("&")) }
    }

    fn to_json(&self) -> Value {
        json!({"select_asn": self.asns.iter().map(|a| format!("AS{}", ASN_BASE + *a as u32)).collect::<Vec<_>>(),
               "select_prefix": self.pfxs.iter().map(|p| pfx_str(*p)).collect::<Vec<_>>(),
               "more_specifics": self.more,
               "exclude": self.excl.iter().map(|c| c.to_string()).collect::<Vec<_>>()})
    }
}

//------------ Per-format parsers -----------------------------------------------

#[derive(Default, Debug)]
struct Parsed {
    items: Vec<String>,
    /// label values read back: (site, value)
    labels: Vec<(&'static str, String)>,
}

fn p_asn(s: &str) -> Result<u32, String> {
    s.strip_prefix("AS").and_then(|n| if !n.is_empty() && n.bytes().all(|b| b.is_ascii_digit()) { n.parse().ok() } else { None })
        .ok_or_else(|| format!("bad ASN {s:?}"))
}
fn p_num<T: FromStr>(s: &str) -> Result<T, String> {
    if s.is_empty() || !s.bytes().all(|b| b.is_ascii_digit()) { return Err(format!("bad number {s:?}")) }
    s.parse().map_err(|_| format!("bad number {s:?}"))
}
fn p_prefix(s: &str) -> Result<String, String> {
    Prefix::from_str(s).map(pfx_str).map_err(|_| format!("bad prefix {s:?}"))
}

/// Lines of a text that has to end with a newline.
fn lines(text: &str) -> Result<Vec<&str>, String> {
    if text.is_empty() { return Ok(vec![]) }
    let body = text.strip_suffix('\n').ok_or("last line is not terminated")?;
    Ok(body.split('\n').collect())
}

fn parse_csv(text: &str) -> Result<Parsed, String> {
    let ls = lines(text)?;
    if ls.first() != Some(&"ASN,IP Prefix,Max Length,Trust Anchor") { return Err("missing header row".into()) }
    let mut res = Parsed::default();
    for l in &ls[1..] {
        // an unquoted CSV dialect: the last column is the rest of the row
        let f: Vec<&str> = l.splitn(4, ',').collect();
        if f.len() != 4 { return Err(format!("row with {} columns: {l:?}", f.len())) }
        res.items.push(id_origin(&p_prefix(f[1])?, Some(p_num(f[2])?), p_asn(f[0])?));
        res.labels.push(("ta", f[3].to_string()));
    }
    Ok(res)
}

/// RFC 4180 records in which every field is quoted.
fn quoted_records(text: &str) -> Result<Vec<Vec<String>>, String> {
    let b: Vec<char> = text.chars().collect();
    let mut i = 0;
    let mut recs = Vec::new();
    while i < b.len() {
        let mut rec = Vec::new();
        loop {
            if b.get(i) != Some(&'"') { return Err(format!("field does not start with a quote in record {}", recs.len() + 1)) }
            i += 1;
            let mut f = String::new();
            loop {
                match b.get(i) {
                    None => return Err(format!("unterminated quoted field in record {}", recs.len() + 1)),
                    Some('"') if b.get(i + 1) == Some(&'"') => { f.push('"'); i += 2 }
                    Some('"') => { i += 1; break }
                    Some(c) => { f.push(*c); i += 1 }
                }
            }
            rec.push(f);
            match b.get(i) {
                Some(',') => i += 1,
                Some('\n') => { i += 1; break }
                other => return Err(format!("{other:?} after a closing quote in record {}", recs.len() + 1)),
            }
        }
        recs.push(rec);
    }
    Ok(recs)
}

fn parse_csvcompat(text: &str) -> Result<Parsed, String> {
    let recs = quoted_records(text)?;
    if recs.first().map(|r| r.iter().map(|s| s.as_str()).collect::<Vec<_>>())
        != Some(vec!["ASN", "IP Prefix", "Max Length", "Trust Anchor"]) { return Err("missing header row".into()) }
    let mut res = Parsed::default();
    for r in &recs[1..] {
        if r.len() != 4 { return Err(format!("row with {} columns", r.len())) }
        res.items.push(id_origin(&p_prefix(&r[1])?, Some(p_num(&r[2])?), p_asn(&r[0])?));
        res.labels.push(("ta", r[3].clone()));
    }
    Ok(res)
}

fn p_csv_time(s: &str) -> Result<(), String> {
    if s == "N/A" { return Ok(()) }
    chrono::NaiveDateTime::parse_from_str(s, "%Y-%m-%d %H:%M:%S").map(|_| ()).map_err(|_| format!("bad time {s:?}"))
}

fn parse_csvext(text: &str) -> Result<Parsed, String> {
    let ls = lines(text)?;
    if ls.first() != Some(&"URI,ASN,IP Prefix,Max Length,Not Before,Not After") { return Err("missing header row".into()) }
    let mut res = Parsed::default();
    for l in &ls[1..] {
        let f: Vec<&str> = l.split(',').collect();
        if f.len() != 6 { return Err(format!("row with {} columns: {l:?}", f.len())) }
        if f[0] != "N/A" { uri::Rsync::from_str(f[0]).map_err(|_| format!("bad URI {:?}", f[0]))?; }
        p_csv_time(f[4])?; p_csv_time(f[5])?;
        res.items.push(id_origin(&p_prefix(f[2])?, Some(p_num(f[3])?), p_asn(f[1])?));
    }
    Ok(res)
}

fn j_str<'a>(v: &'a Value, k: &str) -> Result<&'a str, String> {
    v.get(k).and_then(|x| x.as_str()).ok_or_else(|| format!("member {k:?} missing or not a string"))
}

fn parse_json(text: &str, ext: bool) -> Result<Parsed, String> {
    let v: Value = serde_json::from_str(text).map_err(|e| format!("invalid JSON: {e}"))?;
    let obj = v.as_object().ok_or("not a JSON object")?;
    let meta = obj.get("metadata").ok_or("no metadata member")?;
    if !meta["generated"].is_i64() { return Err("metadata.generated is not a number".into()) }
    j_str(meta, "generatedTime")?;
    let mut res = Parsed::default();
    let sources = |item: &Value, res: &mut Parsed| -> Result<(), String> {
        if ext {
            for s in item.get("source").and_then(|s| s.as_array()).ok_or("no source array")? {
                match j_str(s, "type")? {
                    "exception" => {
                        if let Some(c) = s.get("comment") { res.labels.push(("comment", c.as_str().ok_or("comment is not a string")?.to_string())) }
                    }
                    _ => res.labels.push(("tal", j_str(s, "tal")?.to_string())),
                }
            }
        }
        else {
            res.labels.push(("ta", j_str(item, "ta")?.to_string()));
        }
        Ok(())
    };
    for (k, val) in obj {
        let arr = || val.as_array().ok_or_else(|| format!("member {k:?} is not an array"));
        match k.as_str() {
            "metadata" => { }
            "roas" => for it in arr()? {
                let max = it.get("maxLength").and_then(|m| m.as_u64()).ok_or("maxLength missing")?;
                res.items.push(id_origin(&p_prefix(j_str(it, "prefix")?)?, Some(max as u8), p_asn(j_str(it, "asn")?)?));
                sources(it, &mut res)?;
            },
            "routerKeys" => for it in arr()? {
                res.items.push(id_key(p_asn(j_str(it, "asn")?)?, j_str(it, "SKI")?, j_str(it, "routerPublicKey")?));
                sources(it, &mut res)?;
            },
            "aspas" => for it in arr()? {
                let mut provs = Vec::new();
                for p in it.get("providers").and_then(|p| p.as_array()).ok_or("providers missing")? {
                    provs.push(p_asn(p.as_str().ok_or("provider is not a string")?)?);
                }
                res.items.push(id_aspa(p_asn(j_str(it, "customer")?)?, &provs));
                sources(it, &mut res)?;
            },
            other => return Err(format!("unexpected member {other:?}")),
        }
    }
    Ok(res)
}

fn parse_slurm(text: &str, version: u64) -> Result<Parsed, String> {
    let v: Value = serde_json::from_str(text).map_err(|e| format!("invalid JSON: {e}"))?;
    if v["slurmVersion"].as_u64() != Some(version) { return Err(format!("slurmVersion is not {version}")) }
    let f = SlurmFile::from_str(text).map_err(|e| format!("not a SLURM file: {e}"))?;
    if !f.filters.prefix.is_empty() || !f.filters.bgpsec.is_empty()
        || f.filters.aspa.as_ref().map(|a| !a.is_empty()).unwrap_or(false) {
        return Err("SLURM output carries filters".into())
    }
    let mut res = Parsed::default();
    for a in &f.assertions.prefix {
        res.items.push(id_origin(&pfx_str(a.prefix.prefix()), Some(a.prefix.resolved_max_len()), a.asn.into_u32()));
        if let Some(c) = &a.comment { res.labels.push(("comment", c.clone())) }
    }
    for a in &f.assertions.bgpsec {
        let info = RouterKeyInfo::new(bytes::Bytes::copy_from_slice(a.router_public_key.as_ref())).map_err(|_| "key info")?;
        res.items.push(id_key(a.asn.into_u32(), &a.ski.to_string(), &info.to_string()));
        if let Some(c) = &a.comment { res.labels.push(("comment", c.clone())) }
    }
    if let Some(aspas) = &f.assertions.aspa {
        if version == 1 { return Err("SLURM version 1 file with aspaAssertions".into()) }
        for a in aspas {
            res.items.push(id_aspa(a.customer_asn.into_u32(), &a.provider_asns.iter().map(|x| x.into_u32()).collect::<Vec<_>>()));
            if let Some(c) = &a.comment { res.labels.push(("comment", c.clone())) }
        }
    }
    Ok(res)
}

fn parse_openbgpd(text: &str) -> Result<Parsed, String> {
    let ls = lines(text)?;
    if ls.first() != Some(&"roa-set {") { return Err("missing `roa-set {`".into()) }
    if ls.len() < 2 || ls.last() != Some(&"}") { return Err("missing closing brace".into()) }
    let mut res = Parsed::default();
    for l in &ls[1..ls.len() - 1] {
        let w: Vec<&str> = l.split_whitespace().collect();
        let (p, max, a) = match w.as_slice() {
            [p, "source-as", a] => (*p, None, *a),
            [p, "maxlen", m, "source-as", a] => (*p, Some(p_num::<u8>(m)?), *a),
            _ => return Err(format!("bad roa-set entry {l:?}")),
        };
        let pp = Prefix::from_str(p).map_err(|_| format!("bad prefix {p:?}"))?;
        res.items.push(id_origin(&pfx_str(pp), Some(max.unwrap_or(pp.addr_and_len().1)), p_num(a)?));
    }
    Ok(res)
}

fn parse_bird(text: &str, word: &str) -> Result<Parsed, String> {
    let mut res = Parsed::default();
    for l in lines(text)? {
        let body = l.strip_suffix(';').ok_or_else(|| format!("statement without `;`: {l:?}"))?;
        let w: Vec<&str> = body.split(' ').collect();
        match w.as_slice() {
            [kw, p, "max", m, "as", a] if *kw == word =>
                res.items.push(id_origin(&p_prefix(p)?, Some(p_num(m)?), p_num(a)?)),
            _ => return Err(format!("bad statement {l:?}")),
        }
    }
    Ok(res)
}

fn parse_rpsl(text: &str) -> Result<Parsed, String> {
    let mut res = Parsed::default();
    let mut obj: Vec<(String, String)> = Vec::new();
    let finish = |obj: &mut Vec<(String, String)>, res: &mut Parsed| -> Result<(), String> {
        if obj.is_empty() { return Ok(()) }
        let keys: Vec<&str> = obj.iter().map(|(k, _)| k.as_str()).collect();
        let class = keys[0];
        if !(class == "route" || class == "route6")
            || keys[1..] != ["origin", "descr", "mnt-by", "created", "last-modified", "source"] {
            return Err(format!("RPSL object with attributes {keys:?}"))
        }
        let p = Prefix::from_str(&obj[0].1).map_err(|_| format!("bad prefix {:?}", obj[0].1))?;
        if p.addr_and_len().0.is_ipv4() != (class == "route") { return Err("route/route6 does not match the address family".into()) }
        for i in [4, 5] {
            chrono::NaiveDateTime::parse_from_str(&obj[i].1, "%Y-%m-%dT%H:%M:%SZ").map_err(|_| format!("bad time {:?}", obj[i].1))?;
        }
        let src = obj[6].1.strip_prefix("ROA-").and_then(|s| s.strip_suffix("-RPKI-ROOT"))
            .ok_or_else(|| format!("bad source attribute {:?}", obj[6].1))?;
        res.labels.push(("ta", src.to_string()));
        res.items.push(id_origin(&pfx_str(p), None, p_asn(&obj[1].1)?));
        obj.clear();
        Ok(())
    };
    for l in lines(text)? {
        if l.is_empty() { finish(&mut obj, &mut res)?; continue }
        let (k, v) = l.split_once(": ").ok_or_else(|| format!("line is not an attribute: {l:?}"))?;
        if k.is_empty() || !k.bytes().all(|b| b.is_ascii_lowercase() || b.is_ascii_digit() || b == b'-') {
            return Err(format!("bad attribute name in {l:?}"))
        }
        obj.push((k.to_string(), v.to_string()));
    }
    finish(&mut obj, &mut res)?;
    Ok(res)
}

fn parse_summary(text: &str, tals: usize) -> Result<Parsed, String> {
    let ls = lines(text)?;
    if !ls.first().map(|l| l.starts_with("Summary at ")).unwrap_or(false) { return Err("no `Summary at` line".into()) }
    if ls.len() != 1 + 6 * (tals + 1) { return Err(format!("{} lines for {} trust anchors", ls.len(), tals)) }
    if ls[ls.len() - 6] != "total: " { return Err("no total block".into()) }
    for block in ls[1..].chunks(6) {
        for (l, word) in block[1..].iter().zip(["ROAs:", "VRPs:", "router certs:", "router keys:", "ASPAs:"]) {
            if !l.trim_start().starts_with(word) || !l.ends_with(';') { return Err(format!("bad summary line {l:?}")) }
        }
    }
    Ok(Parsed::default())
}

fn parse(fmt: &str, text: &str, tals: usize) -> Result<Parsed, String> {
    match fmt {
        "csv" => parse_csv(text),
        "csvcompat" => parse_csvcompat(text),
        "csvext" => parse_csvext(text),
        "json" => parse_json(text, false),
        "jsonext" => parse_json(text, true),
        "slurm" => parse_slurm(text, 1),
        "slurm2" => parse_slurm(text, 2),
        "openbgpd" => parse_openbgpd(text),
        "bird1" => parse_bird(text, "roa"),
        "bird2" => parse_bird(text, "route"),
        "rpsl" => parse_rpsl(text),
        "summary" => parse_summary(text, tals),
        "none" => if text.is_empty() { Ok(Parsed::default()) } else { Err("format none produced output".into()) },
        x => panic!("no parser for {x}"),
    }
}

//------------ Rendering ---------------------------------------------------------

fn render_write(out: Output, snap: &Arc<PayloadSnapshot>, metrics: &Arc<Metrics>, f: OutputFormat) -> Result<Vec<u8>, String> {
    let (snap, metrics) = (snap.clone(), metrics.clone());
    catch(std::panic::AssertUnwindSafe(move || {
        let mut buf = Vec::new();
        out.write(snap, metrics, f, &mut buf).map(|_| buf).map_err(|e| format!("io error {e}"))
    })).map_err(|p| format!("panic: {p}"))?
}

fn render_stream(out: Output, snap: &Arc<PayloadSnapshot>, metrics: &Arc<Metrics>, f: OutputFormat) -> Result<Vec<u8>, String> {
    let (snap, metrics) = (snap.clone(), metrics.clone());
    catch(std::panic::AssertUnwindSafe(move || {
        let mut buf = Vec::new();
        for chunk in out.stream(snap, metrics, f) { buf.extend_from_slice(&chunk) }
        buf
    })).map_err(|p| format!("panic: {p}"))
}

/// Compares listed and expected items; `Err((sig suffix, detail))`.
fn compare(listed: &[String], expected: &[String]) -> Result<(), (String, String)> {
    let count = |xs: &[String]| { let mut m: BTreeMap<String, usize> = BTreeMap::new(); for x in xs { *m.entry(x.clone()).or_default() += 1 } m };
    let (l, e) = (count(listed), count(expected));
    let ty = |s: &str| match s.chars().next() { Some('o') => "origin", Some('k') => "router-key", _ => "aspa" };
    for (x, n) in &e {
        let have = l.get(x).copied().unwrap_or(0);
        if have < *n { return Err((format!("missing-{}", ty(x)), format!("admitted item {x} is listed {have} times, expected {n}"))) }
        if have > *n { return Err((format!("duplicate-{}", ty(x)), format!("admitted item {x} is listed {have} times, expected {n}"))) }
    }
    for (x, n) in &l {
        if !e.contains_key(x) { return Err((format!("extra-{}", ty(x)), format!("item {x} is listed {n} times but the selection does not admit it"))) }
    }
    Ok(())
}

fn excerpt(text: &str) -> String {
    let t: String = text.chars().take(1500).collect();
    t
}

//------------ C21 ---------------------------------------------------------------

/// Which label classes already proved fatal for (format, field) on their own.
type Fatal = HashMap<(String, &'static str), BTreeSet<String>>;

/// The formats that write the label of `field` at all.
fn label_reaches(fmt: &str, field: &str) -> bool {
    match field {
        "ta" => matches!(fmt, "csv" | "csvcompat" | "json" | "jsonext" | "slurm" | "slurm2" | "rpsl"),
        _ => fmt == "jsonext",
    }
}

fn label_sig(fatal: &Fatal, fmt: &str, field: &'static str, classes: &[String]) -> String {
    let special: Vec<&String> = classes.iter().filter(|c| *c != "plain" && *c != "uni").collect();
    // not the label's doing: it is harmless, is not written by this format, or the format is broken anyway
    if special.is_empty() || !label_reaches(fmt, field) || fatal.contains_key(&(fmt.to_string(), "*")) {
        return format!("{fmt}/malformed")
    }
    if let Some(set) = fatal.get(&(fmt.to_string(), field)) {
        if let Some(c) = special.iter().find(|c| set.contains(**c)) { return format!("{fmt}/{field}/{c}") }
    }
    let mut s: Vec<&str> = special.iter().map(|c| c.as_str()).collect();
    s.sort(); s.dedup();
    if s.len() == 1 { format!("{fmt}/{field}/{}", s[0]) } else { format!("{fmt}/{field}/combination:{}", s.join("+")) }
}

struct C21<'a> {
    uni: &'a Universe,
    metrics: Arc<Metrics>,
    benign: Vec<String>,
    rng: Rng,
}

impl C21<'_> {
    /// One (snapshot, selection, format) evaluation.  Returns false if a violation was recorded.
    #[allow(clippy::too_many_arguments)]
    fn check(
        &self, rep: &mut Report, fmt: &Fmt, via: &str, bytes: Result<Vec<u8>, String>, expected_ids: &BTreeMap<char, Vec<u64>>,
        tals: usize, behaviour: &Value,
        label: Option<(&'static str, &[String], &mut Fatal)>,
    ) -> bool {
        rep.eval("C21");
        let mut expected: Vec<String> = Vec::new();
        for t in &fmt.lists {
            for id in expected_ids.get(t).map(|v| v.as_slice()).unwrap_or(&[]) {
                expected.push(identity(&self.uni.items[&(*t, *id)], &fmt.name));
            }
        }
        let beh = || json!({"format": fmt.name, "via": via, "case": behaviour});
        let bytes = match bytes {
            Ok(b) => b,
            Err(e) => {
                rep.violation("C21", &format!("{}/crash", fmt.name), format!("format {} via {via}: {e}", fmt.name), beh(), json!({"error": e}));
                return false
            }
        };
        let text = match String::from_utf8(bytes) {
            Ok(t) => t,
            Err(_) => {
                rep.violation("C21", &format!("{}/not-utf8", fmt.name), "output is not UTF-8", beh(), json!({}));
                return false
            }
        };
        match parse(&fmt.name, &text, tals) {
            Err(why) => {
                let sig = match &label {
                    Some((field, classes, fatal)) => label_sig(fatal, &fmt.name, field, classes),
                    None => format!("{}/malformed", fmt.name),
                };
                if let Some((field, classes, fatal)) = label {
                    let special: Vec<&String> = classes.iter().filter(|c| *c != "plain" && *c != "uni").collect();
                    if special.is_empty() || !label_reaches(&fmt.name, field) {
                        fatal.entry((fmt.name.clone(), "*")).or_default().insert("broken".into());
                    }
                    else if special.iter().all(|c| *c == special[0]) {
                        fatal.entry((fmt.name.clone(), field)).or_default().insert(special[0].clone());
                    }
                }
                rep.violation("C21", &sig, format!("format {} via {via} is not well-formed: {why}", fmt.name),
                    beh(), json!({"reason": why, "output": excerpt(&text)}));
                false
            }
            Ok(parsed) => {
                if let Err((kind, detail)) = compare(&parsed.items, &expected) {
                    rep.violation("C21", &format!("{}/listing/{kind}", fmt.name), format!("format {} via {via}: {detail}", fmt.name),
                        beh(), json!({"listed": parsed.items, "expected": expected, "output": excerpt(&text)}));
                    return false
                }
                if let Some((field, classes, _)) = label {
                    // the model's round trip (stronger than the property): the label reads back unchanged
                    let want = concretise(classes);
                    let site = match (fmt.name.as_str(), field) {
                        ("rpsl", "ta") => None, // upper-cased by design
                        (_, "ta") => Some(if fmt.name == "jsonext" { "tal" } else if fmt.name.starts_with("slurm") { "comment" } else { "ta" }),
                        ("jsonext", "comment") => Some("comment"),
                        _ => None,
                    };
                    if let Some(site) = site {
                        for (s, v) in &parsed.labels {
                            if *s == site && *v != want {
                                rep.divergence("C21", format!("format {} parses but the {field} label {want:?} reads back as {v:?}", fmt.name));
                                break
                            }
                        }
                    }
                }
                true
            }
        }
    }

    fn case(&mut self, rep: &mut Report, c: &Value, idx: usize, http: Option<&Http>) {
        let ids = |v: &Value| -> BTreeMap<char, Vec<u64>> {
            ['o', 'k', 'a'].iter().map(|t| (*t, v[t.to_string()].as_array().unwrap().iter().map(|x| x.as_u64().unwrap()).collect())).collect()
        };
        let d = ids(&c["d"]);
        let exp = ids(&c["exp"]);
        let sel = SelSpec::from_case(c);
        // provenance as in the model's universe, labels benign (the nasty ones have their own cases)
        let lab = |n: usize| self.benign[(idx + n) % self.benign.len()].clone();
        let items: Vec<(&UItem, Prov)> = d.iter().flat_map(|(t, v)| v.iter().map(move |id| (*t, *id))).enumerate().map(|(n, key)| {
            let it = &self.uni.items[&key];
            // source chains of every shape: [E], [E,E], [E,E,E] (the same assertion in several exception files),
            // [P], [P,P,E], [P,E,E], [P,P]
            let p = if it.prov != "tal" {
                    match (idx + n) % 4 {
                        1 => Prov::Multi(0, vec![Some(lab(n)), Some(lab(n + 1))]),
                        2 => Prov::Multi(0, vec![Some(lab(n)), None, Some(lab(n + 2))]),
                        _ => Prov::Slurm(Some(lab(n))),
                    }
                }
                else if idx % 5 == 0 { Prov::Chain(format!("ta{}", lab(n)), lab(n + 1)) }
                else if idx % 5 == 1 && n % 2 == 0 { Prov::Multi(1, vec![Some(lab(n)), Some(lab(n + 1))]) }
                else if idx % 5 == 2 && n % 2 == 1 { Prov::Multi(2, vec![]) }
                else { Prov::Tal(format!("ta{}", lab(n))) };
            (it, p)
        }).collect();
        let snap = Arc::new(snapshot(&items, idx % 2 == 1));
        let beh = json!({"data_set": c["d"], "selection": sel.to_json(), "expected": c["exp"], "model_case": idx});
        let style = self.rng.below(32);
        let query = sel.query(style);
        let mut ok = true;
        for fmt in &self.uni.formats {
            let bytes = render_write(sel.output_api(idx % 3 == 0), &snap, &self.metrics, fmt.format);
            ok &= self.check(rep, fmt, "Output::write", bytes, &exp, 0, &beh, None);
            // the HTTP path: query string -> Output::from_query -> stream
            let bytes = match Output::from_query(query.as_deref()) {
                Ok(out) => render_stream(out, &snap, &self.metrics, fmt.format),
                Err(_) => Err(format!("query {query:?} rejected")),
            };
            let mut b2 = beh.clone();
            b2["query"] = json!(query);
            ok &= self.check(rep, fmt, "Output::from_query+stream", bytes, &exp, 0, &b2, None);
        }
        // over the real HTTP server: data installed as SLURM assertions (no ASPAs that way)
        if let Some(http) = http {
            if d[&'a'].is_empty() && !(d[&'o'].is_empty() && d[&'k'].is_empty()) {
                let items: Vec<(&UItem, Prov)> = items.iter().map(|(it, _)| (*it, Prov::Slurm(Some(lab(it.id as usize))))).collect();
                http.install(Metrics::new(), &slurm_of(&items));
                for fmt in &self.uni.formats {
                    let path = match &query { Some(q) => format!("/{}?{}", fmt.name, q), None => format!("/{}", fmt.name) };
                    let bytes = http.get(&path).and_then(|(status, body)| if status == 200 { Ok(body) } else { Err(format!("HTTP status {status} for {path}")) });
                    let mut b2 = beh.clone();
                    b2["http_path"] = json!(path);
                    ok &= self.check(rep, fmt, "GET over loopback", bytes, &exp, 0, &b2, None);
                }
                rep.add_note("C21", "cases_over_http", 1);
            }
        }
        rep.trace("C21");
        let selective = !sel.asns.is_empty() || !sel.pfxs.is_empty() || !sel.excl.is_empty();
        let nonempty = d.values().any(|v| !v.is_empty());
        if selective && nonempty {
            rep.nontrivial("C21", format!("{}|{}", c["d"], sel.to_json()));
        }
        if ok && selective && exp.values().any(|v| !v.is_empty()) && exp != d {
            rep.sample("C21", beh);
        }
    }

    /// A label string in every trust-anchor name / every SLURM comment of the full data set.
    fn label(&mut self, rep: &mut Report, classes: &[String], fatal: &mut Fatal) {
        let text = concretise(classes);
        let all: BTreeMap<char, Vec<u64>> = ['o', 'k', 'a'].iter().map(|t| {
            (*t, self.uni.items.keys().filter(|k| k.0 == *t).map(|k| k.1).collect())
        }).collect();
        for field in ["ta", "comment"] {
            let items: Vec<(&UItem, Prov)> = self.uni.items.values().map(|it| {
                (it, if field == "ta" { Prov::Tal(text.clone()) } else { Prov::Slurm(Some(text.clone())) })
            }).collect();
            let snap = Arc::new(snapshot(&items, false));
            let beh = json!({"label_field": field, "label_classes": classes, "label": text, "data_set": "all 7 items", "selection": "none"});
            for fmt in &self.uni.formats {
                let bytes = render_write(Output::new(), &snap, &self.metrics, fmt.format);
                self.check(rep, fmt, "Output::write", bytes, &all, 0, &beh, Some((field, classes, fatal)));
            }
            rep.trace("C21");
            if classes.iter().any(|c| c != "plain") {
                rep.nontrivial("C21", format!("label|{field}|{}", classes.join(",")));
            }
        }
    }
}

fn slurm_of(items: &[(&UItem, Prov)]) -> LocalExceptions {
    let mut prefix = Vec::new();
    let mut bgpsec = Vec::new();
    for (it, p) in items {
        let comment = match p { Prov::Slurm(c) => c.clone(), _ => None };
        match &it.payload {
            Payload::Origin(o) => {
                let mut v = json!({"asn": o.asn.into_u32(), "prefix": pfx_str(o.prefix.prefix())});
                if let Some(m) = o.prefix.max_len() { v["maxPrefixLength"] = json!(m) }
                if let Some(c) = comment { v["comment"] = json!(c) }
                prefix.push(v);
            }
            Payload::Key(k) => {
                let mut v = json!({"asn": k.asn.into_u32(),
                    "SKI": rpki::util::base64::Slurm.encode(k.key_identifier.as_slice()),
                    "routerPublicKey": k.key_info.to_string()});
                if let Some(c) = comment { v["comment"] = json!(c) }
                bgpsec.push(v);
            }
            Payload::Aspa(_) => panic!("ASPAs cannot be installed through local exceptions"),
        }
    }
    let doc = json!({"slurmVersion": 1,
        "validationOutputFilters": {"prefixFilters": [], "bgpsecFilters": []},
        "locallyAddedAssertions": {"prefixAssertions": prefix, "bgpsecAssertions": bgpsec}});
    LocalExceptions::from_json(&doc.to_string(), true).expect("slurm")
}

//------------ The real HTTP server ------------------------------------------------

struct Http {
    addr: SocketAddr,
    hist: SharedHistory,
    cfg: Config,
    _rt: tokio::runtime::Runtime,
}

impl Http {
    fn start() -> Result<Self, String> {
        let rt = tokio::runtime::Builder::new_multi_thread().worker_threads(2).enable_all().build().map_err(|e| e.to_string())?;
        for _ in 0..20 {
            // http_listener binds itself; find a free port first
            let port = TcpListener::bind("127.0.0.1:0").and_then(|l| l.local_addr()).map_err(|e| e.to_string())?.port();
            let addr = SocketAddr::from(([127, 0, 0, 1], port));
            let mut cfg = Config::default_with_paths("/nonexistent/routinator.conf".into(), "/nonexistent/cache".into());
            cfg.http_listen = vec![addr];
            cfg.enable_bgpsec = true;
            cfg.enable_aspa = true;
            let hist = SharedHistory::from_config(&cfg);
            let fut = {
                let _g = rt.enter();
                match routinator::http::http_listener(hist.clone(), Arc::new(RtrServerMetrics::new(false)), None, &cfg, NotifySender::new()) {
                    Ok(f) => f,
                    Err(_) => continue,
                }
            };
            rt.spawn(fut);
            for _ in 0..200 {
                if TcpStream::connect_timeout(&addr, Duration::from_millis(200)).is_ok() {
                    return Ok(Http { addr, hist, cfg, _rt: rt })
                }
                std::thread::sleep(Duration::from_millis(10));
            }
        }
        Err("could not start the HTTP server on loopback".into())
    }

    fn install(&self, metrics: Metrics, exceptions: &LocalExceptions) {
        self.hist.mark_update_start();
        self.hist.update(ValidationReport::new(&self.cfg), exceptions, metrics);
        self.hist.mark_update_done();
    }

    /// GET with `Connection: close`; returns (status, body).
    fn get(&self, path: &str) -> Result<(u16, Vec<u8>), String> {
        let mut s = TcpStream::connect_timeout(&self.addr, Duration::from_secs(5)).map_err(|e| format!("connect: {e}"))?;
        s.set_read_timeout(Some(Duration::from_secs(20))).ok();
        write!(s, "GET {path} HTTP/1.1\r\nHost: localhost\r\nConnection: close\r\n\r\n").map_err(|e| format!("send: {e}"))?;
        let mut raw = Vec::new();
        s.read_to_end(&mut raw).map_err(|e| format!("read: {e}"))?;
        let split = raw.windows(4).position(|w| w == b"\r\n\r\n").ok_or("no header end")?;
        let head = String::from_utf8_lossy(&raw[..split]).to_string();
        let mut body = raw[split + 4..].to_vec();
        let status: u16 = head.split(' ').nth(1).and_then(|s| s.parse().ok()).ok_or("no status")?;
        if head.to_ascii_lowercase().contains("transfer-encoding: chunked") {
            let mut out = Vec::new();
            let mut i = 0;
            loop {
                let e = body[i..].windows(2).position(|w| w == b"\r\n").ok_or("bad chunk header")? + i;
                let n = usize::from_str_radix(String::from_utf8_lossy(&body[i..e]).split(';').next().unwrap().trim(), 16).map_err(|_| "bad chunk size")?;
                if n == 0 { break }
                if e + 2 + n > body.len() { return Err("short chunk".into()) }
                out.extend_from_slice(&body[e + 2..e + 2 + n]);
                i = e + 2 + n + 2;
            }
            body = out;
        }
        Ok((status, body))
    }
}

//------------ Prometheus text format ---------------------------------------------

#[derive(Debug, Default)]
struct PromDoc { samples: Vec<(String, Vec<(String, String)>)> }

fn is_metric_name(s: &str) -> bool {
    let mut cs = s.chars();
    matches!(cs.next(), Some(c) if c.is_ascii_alphabetic() || c == '_' || c == ':')
        && cs.all(|c| c.is_ascii_alphanumeric() || c == '_' || c == ':')
}
fn is_label_name(s: &str) -> bool {
    let mut cs = s.chars();
    matches!(cs.next(), Some(c) if c.is_ascii_alphabetic() || c == '_') && cs.all(|c| c.is_ascii_alphanumeric() || c == '_')
}

/// Reads a label value after its opening quote; returns (value, rest after the closing quote).
fn prom_label_value(s: &str) -> Result<(String, &str), String> {
    let mut out = String::new();
    let mut it = s.char_indices();
    while let Some((i, c)) = it.next() {
        match c {
            '"' => return Ok((out, &s[i + 1..])),
            '\\' => match it.next() {
                Some((_, '\\')) => out.push('\\'),
                Some((_, '"')) => out.push('"'),
                Some((_, 'n')) => out.push('\n'),
                Some((_, x)) => return Err(format!("invalid escape sequence \\{x} in a label value")),
                None => return Err("label value ends inside an escape sequence".into()),
            },
            c => out.push(c),
        }
    }
    Err("label value is not terminated on its line".into())
}

fn prom_parse(text: &str) -> Result<PromDoc, String> {
    let mut doc = PromDoc::default();
    let mut typed: BTreeSet<String> = BTreeSet::new();
    let mut helped: BTreeSet<String> = BTreeSet::new();
    let body = if text.is_empty() { "" } else { text.strip_suffix('\n').ok_or("last line is not terminated")? };
    for (n, line) in body.split('\n').enumerate() {
        let err = |m: String| format!("line {}: {m}: {line:?}", n + 1);
        let l = line.trim_start_matches([' ', '\t']);
        if l.is_empty() { continue }
        if let Some(c) = l.strip_prefix('#') {
            let c = c.trim_start_matches([' ', '\t']);
            if let Some(rest) = c.strip_prefix("HELP ") {
                let name = rest.split([' ', '\t']).next().unwrap_or("");
                if !is_metric_name(name) { return Err(err("bad metric name in HELP".into())) }
                if !helped.insert(name.to_string()) { return Err(err("second HELP line for the metric".into())) }
            }
            else if let Some(rest) = c.strip_prefix("TYPE ") {
                let w: Vec<&str> = rest.split([' ', '\t']).filter(|x| !x.is_empty()).collect();
                if w.len() != 2 || !is_metric_name(w[0]) { return Err(err("bad TYPE line".into())) }
                if !["counter", "gauge", "histogram", "summary", "untyped"].contains(&w[1]) { return Err(err("unknown metric type".into())) }
                if !typed.insert(w[0].to_string()) { return Err(err("second TYPE line for the metric".into())) }
                if doc.samples.iter().any(|(m, _)| m == w[0]) { return Err(err("TYPE line after samples of the metric".into())) }
            }
            continue
        }
        let end = l.find(|c: char| c == '{' || c == ' ' || c == '\t').unwrap_or(l.len());
        let name = &l[..end];
        if !is_metric_name(name) { return Err(err("bad metric name".into())) }
        let mut rest = &l[end..];
        let mut labels = Vec::new();
        if let Some(r) = rest.strip_prefix('{') {
            rest = r;
            loop {
                rest = rest.trim_start_matches([' ', '\t']);
                if let Some(r) = rest.strip_prefix('}') { rest = r; break }
                let eq = rest.find('=').ok_or_else(|| err("label without `=`".into()))?;
                let lname = rest[..eq].trim_end_matches([' ', '\t']);
                if !is_label_name(lname) { return Err(err(format!("bad label name {lname:?}"))) }
                rest = rest[eq + 1..].trim_start_matches([' ', '\t']);
                rest = rest.strip_prefix('"').ok_or_else(|| err("label value does not start with a quote".into()))?;
                let (v, r) = prom_label_value(rest).map_err(&err)?;
                labels.push((lname.to_string(), v));
                rest = r.trim_start_matches([' ', '\t']);
                if let Some(r) = rest.strip_prefix(',') { rest = r; continue }
                if let Some(r) = rest.strip_prefix('}') { rest = r; break }
                return Err(err("expected `,` or `}` after a label value".into()))
            }
        }
        let w: Vec<&str> = rest.split([' ', '\t']).filter(|x| !x.is_empty()).collect();
        if w.is_empty() || w.len() > 2 { return Err(err("expected a value and an optional timestamp".into())) }
        let ok = matches!(w[0], "NaN" | "+Inf" | "-Inf" | "Inf") || w[0].parse::<f64>().is_ok();
        if !ok { return Err(err(format!("bad sample value {:?}", w[0]))) }
        if w.len() == 2 && w[1].parse::<i64>().is_err() { return Err(err("bad timestamp".into())) }
        doc.samples.push((name.to_string(), labels));
    }
    Ok(doc)
}

//------------ C22 -----------------------------------------------------------------

/// The strings of a metrics value that come from outside, with the character
/// classes that cannot reach them in the real program (those are not tested):
///  * TAL names are file names of TAL files or `tal-labels` values: anything;
///  * rsync log books hold the lines rsync prints (collector/rsync.rs:724): no
///    newline; rsync itself rewrites control characters other than the tab of
///    remote messages as `\#ooo`;
///  * RRDP and publication point log books hold fixed texts, URIs (restricted
///    character set, rpki::uri) and error descriptions: quotes and non-ASCII
///    are plausible, control characters are not (the "illegal file name"
///    message of engine.rs:826 is unreachable: rpki validates manifest file
///    names while decoding);
///  * repository URIs, rsync modules and rpkiNotify URIs cannot hold any of
///    the special classes (rpki::uri::check_uri_ascii) and are left plain.
const C22_FIELDS: [(&str, &[&str]); 4] = [
    ("tal-name", &[]),
    ("rsync-log", &["nl", "ctl"]),
    ("rrdp-log", &["nl", "tab", "ctl"]),
    ("pubpoint-log", &["nl", "tab", "ctl"]),
];

fn log_book(msg: &str) -> routinator::log::LogBook {
    // several messages per book: the documents carry them as arrays
    let mut w = LogBookWriter::new(None);
    w.warn(format_args!("{msg}"));
    w.warn(format_args!("a second message"));
    w.warn(format_args!("a third message"));
    w.into_book()
}

fn exit_status(code: i32) -> std::process::ExitStatus {
    use std::os::unix::process::ExitStatusExt;
    std::process::ExitStatus::from_raw(code << 8)
}

fn c22_metrics(field: &str, text: &str) -> Metrics {
    let pick = |f: &str, plain: &str| if f == field { text.to_string() } else { plain.to_string() };
    let mut m = Metrics::new();
    m.tals.push(TalMetrics::new(Arc::new(TalInfo::from_name(pick("tal-name", "ripe")))));
    m.tals.push(TalMetrics::new(Arc::new(TalInfo::from_name("apnic".into()))));
    m.repositories.push(RepositoryMetrics::new("https://rrdp.example.net/notification.xml".into()));
    m.repositories.push(RepositoryMetrics::new("rsync://repo.example.net/module/".into()));
    m.rsync.push(RsyncModuleMetrics {
        module: uri::Rsync::from_str("rsync://repo.example.net/module/").expect("uri"),
        status: Ok(exit_status(10)),
        duration: Ok(Duration::from_millis(1234)),
        log_book: Some(log_book(&pick("rsync-log", "rsync error: error in socket IO (code 10)"))),
    });
    let mut rrdp = RrdpRepositoryMetrics::new(uri::Https::from_str("https://rrdp.example.net/notification.xml").expect("uri"));
    rrdp.log_book = Some(log_book(&pick("rrdp-log", "error sending request for url")));
    m.rrdp.push(rrdp);
    m.pub_point_logs.push((
        uri::Rsync::from_str("rsync://repo.example.net/module/ca/ca.mft").expect("uri"),
        log_book(&pick("pubpoint-log", "manifest contains illegal file name")),
    ));
    m
}

fn c22(rep: &mut Report, http: &Http, strings: &[Vec<String>]) {
    // (document, field) -> classes that alone make the document unreadable
    let mut fatal: HashMap<(&str, &str), BTreeSet<String>> = HashMap::new();
    let sig_of = |fatal: &HashMap<(&str, &str), BTreeSet<String>>, doc: &'static str, field: &'static str, classes: &[String], need: &[&str]| -> String {
        let special: Vec<&String> = classes.iter().filter(|c| need.contains(&c.as_str())).collect();
        if fatal.contains_key(&(doc, "*")) { return format!("{doc}/malformed") }   // unreadable with plain strings too
        if special.is_empty() {
            let other: Vec<&String> = classes.iter().filter(|c| *c != "plain").collect();
            return if other.is_empty() { format!("{doc}/malformed") } else { format!("{doc}/{field}/{}", other[0]) }
        }
        if let Some(set) = fatal.get(&(doc, field)) {
            if let Some(c) = special.iter().find(|c| set.contains(**c)) { return format!("{doc}/{field}/{c}") }
        }
        let mut s: Vec<&str> = special.iter().map(|c| c.as_str()).collect();
        s.sort(); s.dedup();
        if s.len() == 1 { format!("{doc}/{field}/{}", s[0]) } else { format!("{doc}/{field}/combination:{}", s.join("+")) }
    };
    for classes in strings {
        let text = concretise(classes);
        for (field, unreachable) in C22_FIELDS {
            if classes.iter().any(|c| unreachable.contains(&c.as_str())) { continue }
            http.install(c22_metrics(field, &text), &LocalExceptions::empty());
            let beh = json!({"field": field, "string_classes": classes, "string": text});
            let single = |cs: &[String], need: &[&str]| -> Option<String> {
                let sp: BTreeSet<&String> = cs.iter().filter(|c| need.contains(&c.as_str())).collect();
                if sp.len() == 1 { Some((*sp.iter().next().unwrap()).clone()) } else { None }
            };
            // /api/v1/status
            rep.eval("C22");
            let json_need = ["quote", "bslash", "nl", "tab", "ctl"];
            match http.get("/api/v1/status") {
                Err(e) => rep.violation("C22", "status/no-response", e.clone(), beh.clone(), json!({"error": e})),
                Ok((status, body)) => {
                    let body = String::from_utf8_lossy(&body).to_string();
                    let parsed: Result<Value, _> = serde_json::from_str(&body);
                    match parsed {
                        _ if status != 200 => rep.violation("C22", "status/http-status", format!("status {status}"), beh.clone(), json!({"body": excerpt(&body)})),
                        Err(e) => {
                            let sig = sig_of(&fatal, "status", field, classes, &json_need);
                            if let Some(c) = single(classes, &json_need) { fatal.entry(("status", field)).or_default().insert(c); }
                            if classes.iter().all(|c| c == "plain") { fatal.entry(("status", "*")).or_default().insert("broken".into()); }
                            let frag = fragment(&body, e.line(), e.column());
                            rep.violation("C22", &sig, format!("/api/v1/status is not valid JSON with {field} = {text:?}: {e}"),
                                beh.clone(), json!({"error": e.to_string(), "fragment": frag}));
                        }
                        Ok(v) => {
                            let found = match field {
                                "tal-name" => v["tals"].get(&text).is_some(),
                                "rsync-log" => v["rsync"]["rsync://repo.example.net/module/"]["issues"][0]["messages"] == json!(text),
                                "rrdp-log" => v["rrdp"]["https://rrdp.example.net/notification.xml"]["issues"][0]["messages"] == json!(text),
                                _ => v["pubPointIssues"]["rsync://repo.example.net/module/ca/ca.mft"][0]["message"] == json!(text),
                            };
                            if !v["version"].is_string() || !v["tals"].is_object() || !v["rsync"].is_object() || !v["rrdp"].is_object() {
                                rep.violation("C22", "status/structure", "status document lacks its members", beh.clone(), json!({"body": excerpt(&body)}));
                            }
                            else if !found {
                                rep.divergence("C22", format!("/api/v1/status parses but {field} {text:?} does not read back unchanged"));
                            }
                        }
                    }
                }
            }
            // /metrics (only the TAL name reaches it; URIs cannot hold special characters)
            if field == "tal-name" {
                rep.eval("C22");
                let prom_need = ["quote", "bslash", "nl"];
                match http.get("/metrics") {
                    Err(e) => rep.violation("C22", "metrics/no-response", e.clone(), beh.clone(), json!({"error": e})),
                    Ok((status, body)) => {
                        let body = String::from_utf8_lossy(&body).to_string();
                        match prom_parse(&body) {
                            _ if status != 200 => rep.violation("C22", "metrics/http-status", format!("status {status}"), beh.clone(), json!({"body": excerpt(&body)})),
                            Err(e) => {
                                let sig = sig_of(&fatal, "metrics", field, classes, &prom_need);
                                if let Some(c) = single(classes, &prom_need) { fatal.entry(("metrics", field)).or_default().insert(c); }
                                if classes.iter().all(|c| c == "plain") { fatal.entry(("metrics", "*")).or_default().insert("broken".into()); }
                                rep.violation("C22", &sig, format!("/metrics does not parse as Prometheus text format with {field} = {text:?}: {e}"),
                                    beh.clone(), json!({"error": e}));
                            }
                            Ok(doc) => {
                                let n = doc.samples.iter().filter(|(_, ls)| ls.iter().any(|(k, v)| (k == "name" || k == "tal") && *v == text)).count();
                                if doc.samples.len() < 50 {
                                    rep.violation("C22", "metrics/structure", format!("only {} samples", doc.samples.len()), beh.clone(), json!({"body": excerpt(&body)}));
                                }
                                else if n == 0 {
                                    rep.divergence("C22", format!("/metrics parses but no sample carries the TAL name {text:?} unchanged"));
                                }
                            }
                        }
                    }
                }
            }
            rep.trace("C22");
            if classes.iter().any(|c| c != "plain") {
                rep.nontrivial("C22", format!("{field}|{}", classes.join(",")));
            }
            if classes.len() == 2 && classes[0] == "uni" && classes[1] == "plain" {
                rep.sample("C22", beh);
            }
        }
    }
}

/// The two documents at every state of the update cycle of a fresh server: nothing installed yet (the status
/// endpoint answers 503), the first data installed but the run not yet marked done (no duration of a last update
/// exists), the run marked done, a second run started, installed, marked done.
fn c22_states(rep: &mut Report) {
    let http = match Http::start() { Ok(h) => h, Err(e) => { rep.divergence("C22", format!("states: {e}")); return } };
    let tal = "ta-plain";
    let look = |rep: &mut Report, state: &str| {
        let beh = json!({"history_state": state});
        for path in ["/api/v1/status", "/metrics"] {
            rep.eval("C22");
            rep.nontrivial("C22", format!("state|{state}|{path}"));
            match http.get(path) {
                Err(e) => rep.violation("C22", &format!("state/{state}/no-response"), e.clone(), beh.clone(), json!({"error": e})),
                Ok((status, body)) => {
                    let body = String::from_utf8_lossy(&body).to_string();
                    if status == 503 || (status != 200 && state == "initial") { continue }       // "initial validation ongoing", plain text
                    let res = if path == "/metrics" { prom_parse(&body).map(|_| ()) }
                              else { serde_json::from_str::<Value>(&body).map(|_| ()).map_err(|e| format!("{e}: {}", fragment(&body, e.line(), e.column()))) };
                    if let Err(e) = res {
                        rep.violation("C22", &format!("state/{state}{}", path.replace("/api/v1", "")),
                            format!("{path} is not well-formed in the state '{state}' (status {status}): {e}"), beh.clone(), json!({"error": e, "body": excerpt(&body)}));
                    }
                }
            }
        }
    };
    look(rep, "initial");
    http.hist.mark_update_start();
    look(rep, "first-run-started");
    http.hist.update(ValidationReport::new(&http.cfg), &LocalExceptions::empty(), c22_metrics("tal-name", tal));
    look(rep, "first-run-installed-not-done");
    http.hist.mark_update_done();
    look(rep, "first-run-done");
    http.hist.mark_update_start();
    look(rep, "second-run-started");
    http.hist.update(ValidationReport::new(&http.cfg), &LocalExceptions::empty(), c22_metrics("tal-name", tal));
    look(rep, "second-run-installed-not-done");
    http.hist.mark_update_done();
    look(rep, "second-run-done");
}

/// The text around a serde_json error position.
fn fragment(body: &str, line: usize, col: usize) -> String {
    let ls: Vec<&str> = body.split('\n').collect();
    let lo = line.saturating_sub(2);
    let hi = (line + 1).min(ls.len());
    format!("line {line} column {col}: {:?}", ls[lo..hi].join("\n"))
}

//------------ main ------------------------------------------------------------------

pub fn main(args: &Args) -> i32 {
    let mut rep = Report::new("output");
    rep.touch("C21");
    rep.touch("C22");
    let behaviours = read_behaviours(args.input.as_deref().expect("--in"));
    let uni_line = match behaviours.iter().find(|b| b["kind"] == "universe") {
        Some(u) => u,
        None => { eprintln!("vh output: no universe line"); return 2 }
    };
    let uni = universe(uni_line);
    let mut strings: Vec<Vec<String>> = behaviours.iter().filter(|b| b["kind"] == "string").map(|b| classes_of(&b["s"])).collect();
    strings.sort_by_key(|s| (s.len(), s.clone()));

    // the model's escaping against real parsers: binds JsonEscape / PromLabelEscape to the grammars used below
    for b in behaviours.iter().filter(|b| b["kind"] == "string") {
        let s = concretise(&classes_of(&b["s"]));
        let j = concretise(&classes_of(&b["json"]));
        let p = concretise(&classes_of(&b["prom"]));
        let jr: Result<String, _> = serde_json::from_str(&format!("\"{j}\""));
        let pr = prom_label_value(&format!("{p}\"")).map(|(v, _)| v);
        if jr.as_deref().ok() != Some(s.as_str()) || pr.as_deref().ok() != Some(s.as_str()) {
            eprintln!("vh output: the model's escaping of {s:?} ({j:?} / {p:?}) does not read back with the real parsers: {jr:?} {pr:?}");
            return 2
        }
    }

    let _ = routinator::log::Logger::init();
    let http = match Http::start() {
        Ok(h) => Some(h),
        Err(e) => { eprintln!("vh output: {e}"); return 2 }
    };

    if args.wants("C21") {
        let benign: Vec<String> = strings.iter().filter(|s| s.iter().all(|c| c == "plain" || c == "uni")).map(|s| concretise(s)).collect();
        let mut c21 = C21 { uni: &uni, metrics: Arc::new(Metrics::new()), benign, rng: Rng::new(args.seed) };
        let cases: Vec<&Value> = behaviours.iter().filter(|b| b["kind"] == "case").collect();
        let http_every = args.opt_usize("http_every", 23);
        for (idx, c) in cases.iter().enumerate() {
            let via_http = if http_every > 0 && idx % http_every == 0 { http.as_ref() } else { None };
            c21.case(&mut rep, c, idx, via_http);
        }
        let mut fatal = Fatal::new();
        for s in &strings {
            c21.label(&mut rep, s, &mut fatal);
        }
        // summary with trust anchors in the metrics (plain names: the summary is free text)
        let mut m = Metrics::new();
        m.tals.push(TalMetrics::new(Arc::new(TalInfo::from_name("ripe".into()))));
        m.tals.push(TalMetrics::new(Arc::new(TalInfo::from_name("apnic".into()))));
        let snap = Arc::new(snapshot(&[], false));
        let f = uni.formats.iter().find(|f| f.name == "summary").expect("summary");
        let bytes = render_write(Output::new(), &snap, &Arc::new(m), f.format);
        c21.check(&mut rep, f, "Output::write", bytes, &BTreeMap::new(), 2, &json!({"summary": "two trust anchors"}), None);
        rep.note("C21", "cases", json!(cases.len()));
        rep.note("C21", "label_strings", json!(strings.len()));
    }
    if args.wants("C22") {
        c22(&mut rep, http.as_ref().unwrap(), &strings);
        rep.note("C22", "strings", json!(strings.len()));
        c22_states(&mut rep);
    }
    rep.write(args)
}
