//! Child-process side: the real decoders run here, so that an abort, a
//! refused allocation or a hang costs one child and is observed by the parent.
//!
//! stdin:  P <hex>                              set the base input
//!         D <id> <rec> <hex>                   decode these bytes as <rec>
//!         C <id> <rec> <cut> <at> <byhex>      decode the base with <by> written at <at>, cut to <cut> (-1: no cut)
//!         R <id> <op> <arghex> <path>          archive operation on the file at <path>
//!         X <id> <kind> <relhex> <cut> <at> <byhex>   (mode runs) restore the cache, damage one file, run
//! stdout: B <id>   then   E <id> <outcome> <consumed> <max single allocation> <detail hex>
//!         ("A <bytes>" in between is written by the allocator when it refuses a request)

use std::io::{BufRead, Write};
use std::path::{Path, PathBuf};
use std::sync::{Arc, Mutex};
use routinator::collector::{RrdpArchive, RrdpObjectMeta};
use routinator::slurm::LocalExceptions;
use routinator::utils::archive::Archive;
use crate::common::catch;
use crate::env::{run_once, RunError, TestBed};
use crate::gen::*;
use super::alloc;
use super::model::{hex, unhex};
use super::real;

/// Requests above this are refused in a child (reported, then null => abort).
pub const CHILD_CAP: usize = 6 << 30;
/// ... and above this during archive operations (the archives are ~100 kB).
pub const ARCHIVE_CAP: usize = 256 << 20;

static PANIC_INFO: Mutex<Option<String>> = Mutex::new(None);

/// No core files: an abort of a child is an expected observation here.
fn no_core_dumps() {
    let lim = libc::rlimit { rlim_cur: 0, rlim_max: 0 };
    unsafe { libc::setrlimit(libc::RLIMIT_CORE, &lim); }
}

fn install_panic_hook() {
    no_core_dumps();
    std::panic::set_hook(Box::new(|info| {
        let mut s = info.to_string();
        if std::env::var_os("VERIF_BT").is_some() {
            // where in the code under test: the frames of routinator / rpki / bcder
            let bt = std::backtrace::Backtrace::force_capture().to_string();
            for l in bt.lines().filter(|l| l.contains("routinator") || l.contains("rpki") || l.contains("bcder")).take(12) {
                s.push_str(" | "); s.push_str(l.trim());
            }
            if let Ok(mut g) = PANIC_INFO.lock() { if g.is_none() { *g = Some(s.chars().take(2000).collect()); } }
            return
        }
        // the first panic is the cause (a scope re-panics when joining a panicked thread)
        if let Ok(mut g) = PANIC_INFO.lock() { if g.is_none() { *g = Some(s.chars().take(300).collect()); } }
    }));
}

fn take_panic(msg: String) -> String { PANIC_INFO.lock().ok().and_then(|mut g| g.take()).unwrap_or(msg) }

fn say(line: &str) {
    let out = std::io::stdout();
    let mut l = out.lock();
    let _ = l.write_all(line.as_bytes());
    let _ = l.write_all(b"\n");
    let _ = l.flush();
}

fn finish(id: &str, outcome: &str, consumed: usize, detail: &str) {
    say(&format!("E {id} {outcome} {consumed} {} {}", alloc::max_request(), hex(detail.as_bytes())));
}

fn decode(id: &str, rec: &str, inp: Vec<u8>) {
    say(&format!("B {id}"));
    alloc::reset_max();
    let rec2 = rec.to_string();
    match catch(move || { let d = real::read(&rec2, &inp); (d.outcome, d.consumed, d.detail) }) {
        Ok((o, c, d)) => finish(id, o, c, &d),
        Err(msg) => finish(id, "panic", 0, &take_panic(msg)),
    }
}

fn archive_op(op: &str, arg: &[u8], path: &Path) -> (String, usize, String) {
    let p = Arc::new(path.to_path_buf());
    let rf = |e: routinator::error::RunFailed| (if e.is_fatal() { "fatal".to_string() } else { "retry".to_string() }, 0, String::new());
    // "publish:<n>": publish an object with n bytes of content
    let (op, content): (&str, Vec<u8>) = match op.strip_prefix("publish:") {
        Some(n) => ("publish", vec![b'c'; n.parse().unwrap_or(1)]),
        None => (op, b"new object content".to_vec()),
    };
    match op {
        "open" => match RrdpArchive::open(p) { Ok(_) => ("ok".into(), 0, String::new()), Err(e) => rf(e) },
        "verify" => match RrdpArchive::verify(path) {
            Ok(s) => ("ok".into(), s.object_count as usize, String::new()),
            Err(e) => ("error".into(), 0, e.to_string()),
        },
        "load_state" => match RrdpArchive::open(p) {
            Err(e) => rf(e),
            Ok(a) => match a.load_state() { Ok(_) => ("ok".into(), 1, String::new()), Err(e) => rf(e) },
        },
        "load_object" => match RrdpArchive::open(p) {
            Err(e) => rf(e),
            Ok(a) => match rpki::uri::Rsync::from_slice(arg) {
                Err(_) => ("ok".into(), 0, "bad uri".into()),
                Ok(u) => match a.load_object(&u) {
                    Ok(Some(b)) => ("ok".into(), b.len(), "found".into()),
                    Ok(None) => ("ok".into(), 0, "notfound".into()),
                    Err(e) => rf(e),
                },
            },
        },
        "objects" => match RrdpArchive::open(p) {
            Err(e) => rf(e),
            Ok(a) => {
                let res = match a.objects() {
                    Err(e) => rf(e),
                    Ok(it) => {
                        let mut n = 0usize;
                        let mut res = None;
                        for item in it {
                            match item { Ok(_) => n += 1, Err(e) => { res = Some(rf(e)); break } }
                        }
                        res.unwrap_or(("ok".into(), n, String::new()))
                    }
                };
                res
            }
        },
        "publish" => match RrdpArchive::try_open(p) {
            Err(e) => rf(e),
            Ok(None) => ("error".into(), 0, "not found".into()),
            Ok(Some(mut a)) => match rpki::uri::Rsync::from_slice(arg) {
                Err(_) => ("ok".into(), 0, "bad uri".into()),
                Ok(u) => match a.publish_object(&u, &content) {
                    Ok(()) => ("ok".into(), 1, String::new()),
                    Err(e) => ("error".into(), 0, format!("{e:?}").chars().take(80).collect()),
                },
            },
        },
        // an append through the handle first (the storage is re-mapped after a write), then the lookup on the same handle
        "append+load_object" => match RrdpArchive::try_open(p) {
            Err(e) => rf(e),
            Ok(None) => ("error".into(), 0, "not found".into()),
            Ok(Some(mut a)) => {
                let fresh = rpki::uri::Rsync::from_slice(b"rsync://arch.verif.test/m/fresh/appended-by-the-check.roa").expect("uri");
                let appended = a.publish_object(&fresh, &vec![b'a'; 5000]).is_ok();
                match rpki::uri::Rsync::from_slice(arg) {
                    Err(_) => ("ok".into(), 0, "bad uri".into()),
                    Ok(u) => match a.load_object(&u) {
                        Ok(Some(b)) => ("ok".into(), b.len(), format!("found (appended: {appended})")),
                        Ok(None) => ("ok".into(), 0, format!("notfound (appended: {appended})")),
                        Err(e) => rf(e),
                    },
                }
            }
        },
        // the generic archive, without RrdpArchive's error mapping (does not delete the file)
        "g_fetch" => match Archive::<RrdpObjectMeta>::open(path, false) {
            Err(e) => ("error".into(), 0, e.to_string()),
            Ok(a) => match a.fetch(arg) {
                Ok(d) => ("ok".into(), d.len(), "found".into()),
                Err(e) => ("error".into(), 0, format!("{e:?}").chars().take(80).collect()),
            },
        },
        "g_verify" => match Archive::<RrdpObjectMeta>::open(path, false) {
            Err(e) => ("error".into(), 0, e.to_string()),
            Ok(a) => match a.verify() { Ok(s) => ("ok".into(), s.object_count as usize, String::new()), Err(e) => ("error".into(), 0, e.to_string()) },
        },
        "g_objects" => match Archive::<RrdpObjectMeta>::open(path, false) {
            Err(e) => ("error".into(), 0, e.to_string()),
            Ok(a) => {
                let res = match a.objects() {
                    Err(e) => ("error".to_string(), 0, e.to_string()),
                    Ok(it) => {
                        let mut n = 0usize;
                        let mut res = None;
                        for item in it { match item { Ok(_) => n += 1, Err(e) => { res = Some(("error".to_string(), n, e.to_string())); break } } }
                        res.unwrap_or(("ok".into(), n, String::new()))
                    }
                };
                res
            }
        },
        _ => ("error".into(), 0, format!("unknown op {op}")),
    }
}

pub fn main_dec() -> i32 {
    alloc::set_cap(CHILD_CAP);
    alloc::set_report_from(64 << 20);
    install_panic_hook();
    crate::env::init_process();
    let stdin = std::io::stdin();
    let mut base: Vec<u8> = Vec::new();
    for line in stdin.lock().lines() {
        let line = match line { Ok(l) => l, Err(_) => break };
        let p: Vec<&str> = line.split(' ').collect();
        match p[0] {
            "P" => { base = unhex(p[1]); }
            "D" => decode(p[1], p[2], unhex(p[3])),
            "C" => {
                let mut inp = base.clone();
                let at: usize = p[4].parse().unwrap();
                for (i, b) in unhex(p[5]).into_iter().enumerate() { if at + i < inp.len() { inp[at + i] = b } }
                let cut: i64 = p[3].parse().unwrap();
                if cut >= 0 { inp.truncate(cut as usize) }
                decode(p[1], p[2], inp)
            }
            "R" => {
                let (id, op, arg, path) = (p[1], p[2].to_string(), unhex(p[3]), PathBuf::from(p[4]));
                say(&format!("B {id}"));
                alloc::reset_max();
                // a reader caught in a pointer cycle may grow a vector for ever: keep the machine alive
                alloc::set_cap(ARCHIVE_CAP);
                let r = catch(move || archive_op(&op, &arg, &path));
                alloc::set_cap(CHILD_CAP);
                match r {
                    Ok((o, n, d)) => finish(id, &o, n, &d),
                    Err(msg) => finish(id, "panic", 0, &take_panic(msg)),
                }
            }
            "Q" => break,
            _ => {}
        }
    }
    0
}

// ---------------------------------------------------------------------------
// whole validation runs over a damaged cache

const TA_REPO: &str = "rsync://r1.verif.test/repo/";
const CA_REPO: &str = "rsync://r2.verif.test/repo/";

fn small_world() -> World {
    let mut ta = Ca::new("ca1", None, 0, &format!("{TA_REPO}ca1/"));
    ta.prefixes = vec!["10.0.0.0/8".into()];
    ta.asns = vec![(64000, 65000)];
    ta.validity = (-24 * 10, 24 * 30);
    ta.mft = MftSpec { number: 1, this_update: -20, next_update: 24, ..Default::default() };
    ta.mft_validity = (-20, 24);
    ta.crl = (-20, 24);
    let mut ca = Ca::new("ca2", Some(0), 1, &format!("{CA_REPO}ca2/"));
    ca.prefixes = vec!["10.0.0.0/8".into()];
    ca.asns = vec![(64000, 65000)];
    ca.validity = (-24 * 10, 24 * 30);
    ca.mft = MftSpec { number: 3, this_update: -10, next_update: 24, ..Default::default() };
    ca.mft_validity = (-12, 24);
    ca.mft_serial = 101;
    ca.crl = (-12, 24);
    for f in 1..=2u32 {
        ca.objects.push(Obj {
            name: format!("r{f}.roa"),
            kind: ObjKind::Roa { asn: 64500 + f, prefixes: vec![(format!("10.{f}.0.0/16"), 16)] },
            serial: 10 + f as u64, validity: (-12, 48), fault: Fault::None,
        });
    }
    World {
        tals: vec![Tal { name: "tal1".into(), ca: 0, uris: vec![(format!("{TA_REPO}ta1.cer"), TaVariant::Good)] }],
        cas: vec![ta, ca],
    }
}

fn copy_tree(src: &Path, dst: &Path) {
    std::fs::create_dir_all(dst).unwrap();
    for e in std::fs::read_dir(src).unwrap().flatten() {
        let p = e.path();
        let d = dst.join(e.file_name());
        if p.is_dir() { copy_tree(&p, &d) } else { std::fs::copy(&p, &d).unwrap(); }
    }
}

pub fn main_runs() -> i32 {
    alloc::set_cap(CHILD_CAP);
    alloc::set_report_from(64 << 20);
    install_panic_hook();
    let bed = TestBed::new();
    // The world (keys, objects, the cache after the first run) is built once and kept in VERIF_RUNS_STATE, so that a
    // respawned child works on byte-identical files (the parent derives its corruptions from them).
    let state = std::env::var_os("VERIF_RUNS_STATE").map(PathBuf::from).unwrap_or_else(|| bed.dir.path().join("state"));
    let pristine = state.join("cache");
    let first;
    if pristine.is_dir() {
        copy_tree(&state.join("pub"), &bed.pubdir);
        copy_tree(&state.join("tals"), &bed.tals);
        first = std::fs::read_to_string(state.join("payload")).ok().and_then(|s| s.trim().parse().ok()).unwrap_or(0);
    }
    else {
        let factory = Factory::new();
        let published = small_world().build(&factory);
        bed.publish(&published);
        let cfg = bed.config();
        first = match run_once(&cfg, true, &LocalExceptions::empty()) {
            Ok(r) => r.payload.origins.len(),
            Err(e) => { say(&format!("FAILED first run: {e:?}")); return 2 }
        };
        copy_tree(&bed.cache, &pristine);
        copy_tree(&bed.pubdir, &state.join("pub"));
        copy_tree(&bed.tals, &state.join("tals"));
        std::fs::write(state.join("payload"), format!("{first}")).unwrap();
    }
    let _ = std::fs::remove_dir_all(&bed.cache);
    copy_tree(&pristine, &bed.cache);
    let stored = bed.cache.join("stored");
    for rel in crate::env::dir_listing(&stored) {
        let data = std::fs::read(stored.join(&rel)).unwrap_or_default();
        if data.len() < 200_000 { say(&format!("F {} {}", hex(rel.as_bytes()), hex(&data))); }
    }
    say(&format!("READY {first}"));
    let stdin = std::io::stdin();
    for line in stdin.lock().lines() {
        let line = match line { Ok(l) => l, Err(_) => break };
        let p: Vec<&str> = line.split(' ').collect();
        if p[0] == "Q" { break }
        if p[0] != "X" { continue }
        let (id, kind) = (p[1], p[2]);
        let rel = String::from_utf8(unhex(p[3])).unwrap();
        let cut: i64 = p[4].parse().unwrap();
        let at: usize = p[5].parse().unwrap();
        let by = unhex(p[6]);
        let _ = std::fs::remove_dir_all(&bed.cache);
        copy_tree(&pristine, &bed.cache);
        let path = stored.join(&rel);
        let mut data = std::fs::read(&path).unwrap_or_default();
        for (i, b) in by.into_iter().enumerate() { if at + i < data.len() { data[at + i] = b } }
        if cut >= 0 { data.truncate(cut as usize) }
        std::fs::write(&path, &data).unwrap();
        say(&format!("B {id}"));
        alloc::reset_max();
        let cfg2 = bed.config();
        let kind2 = kind.to_string();
        let res = catch(std::panic::AssertUnwindSafe(move || {
            if kind2 == "status" {
                return match routinator::store::Store::new(&cfg2) {
                    Err(_) => ("init".to_string(), 0usize),
                    Ok(s) => match s.status() { Ok(Some(_)) => ("ok".into(), 1), Ok(None) => ("ok".into(), 0), Err(_) => ("failed".into(), 0) },
                }
            }
            match run_once(&cfg2, kind2 == "run1", &LocalExceptions::empty()) {
                Ok(r) => ("ok".to_string(), r.payload.origins.len()),
                Err(RunError::Init(_)) => ("init".into(), 0),
                Err(RunError::Retry) => ("retry".into(), 0),
                Err(RunError::Fatal) => ("fatal".into(), 0),
            }
        }));
        match res {
            Ok((o, n)) => finish(id, &o, n, ""),
            Err(msg) => finish(id, "panic", 0, &take_panic(msg)),
        }
    }
    0
}
