//! Parent side of the child protocol: a worker = one child process of the
//! harness binary (`vh codec --opt child=<mode>`), respawned when it dies.

use std::io::{BufRead, BufReader, Write};
use std::process::{Child, ChildStdin, Command, Stdio};
use std::sync::mpsc::{channel, Receiver, RecvTimeoutError};
use std::time::{Duration, Instant};
use super::model::unhex;

/// What the parent observed for one job.
#[derive(Clone, Debug)]
pub struct Obs {
    /// the child's own report ("value", "eof", "ok", "panic", ...) or "abort" / "hang" / "exit"
    pub outcome: String,
    pub consumed: usize,
    /// largest single allocation request during the job (a refused request included)
    pub max_alloc: u64,
    pub detail: String,
    pub signal: Option<i32>,
    pub millis: u128,
    /// CPU time (user + system) the child spent on the job
    pub cpu_ms: u64,
}

/// CPU time of a process so far in milliseconds (also works for a zombie).
fn cpu_ms_of(pid: u32) -> Option<u64> {
    let s = std::fs::read_to_string(format!("/proc/{pid}/stat")).ok()?;
    let rest = &s[s.rfind(')')? + 2..];
    let f: Vec<&str> = rest.split(' ').collect();
    // fields after "pid (comm)": state=0, ..., utime=11, stime=12
    let ticks: u64 = f.get(11)?.parse::<u64>().ok()? + f.get(12)?.parse::<u64>().ok()?;
    let hz = unsafe { libc::sysconf(libc::_SC_CLK_TCK) }.max(1) as u64;
    Some(ticks * 1000 / hz)
}

pub struct Worker {
    mode: String,
    child: Option<Child>,
    stdin: Option<ChildStdin>,
    rx: Option<Receiver<String>>,
    pub respawns: usize,
    /// lines the child printed before its first READY (mode runs)
    pub preamble: Vec<String>,
    pub limit: Duration,
    /// extra environment of the child
    pub env: Vec<(String, String)>,
}

impl Worker {
    pub fn new(mode: &str) -> Self {
        Worker { mode: mode.into(), child: None, stdin: None, rx: None, respawns: 0, preamble: vec![], limit: Duration::from_secs(10), env: vec![] }
    }

    pub fn alive(&self) -> bool { self.child.is_some() }

    pub fn ensure(&mut self) -> bool {
        if self.child.is_some() { return false }
        let exe = std::env::current_exe().expect("current exe");
        let mut child = Command::new(exe).args(["codec", "--opt", &format!("child={}", self.mode)])
            .envs(self.env.iter().cloned())
            .stdin(Stdio::piped()).stdout(Stdio::piped()).stderr(Stdio::null())
            .spawn().expect("spawn child");
        let out = child.stdout.take().unwrap();
        let (tx, rx) = channel();
        std::thread::spawn(move || {
            for line in BufReader::new(out).lines() {
                match line { Ok(l) => { if tx.send(l).is_err() { return } } Err(_) => break }
            }
            let _ = tx.send("EOF".into());
        });
        self.stdin = child.stdin.take();
        self.child = Some(child);
        self.rx = Some(rx);
        self.respawns += 1;
        if self.mode == "runs" {
            // wait for READY (world building, first run)
            let deadline = Instant::now() + Duration::from_secs(300);
            self.preamble.clear();
            loop {
                let left = deadline.saturating_duration_since(Instant::now());
                match self.rx.as_ref().unwrap().recv_timeout(left) {
                    Ok(l) if l.starts_with("READY") => { self.preamble.push(l); break }
                    Ok(l) if l == "EOF" => { self.kill(); panic!("runs child died during set-up: {:?}", self.preamble.last()) }
                    Ok(l) => self.preamble.push(l),
                    Err(_) => { self.kill(); panic!("runs child set-up timed out") }
                }
            }
        }
        true
    }

    pub fn send(&mut self, line: &str) -> bool {
        match self.stdin.as_mut() {
            Some(s) => s.write_all(line.as_bytes()).and_then(|_| s.write_all(b"\n")).and_then(|_| s.flush()).is_ok(),
            None => false,
        }
    }

    fn kill(&mut self) -> Option<i32> {
        use std::os::unix::process::ExitStatusExt;
        self.stdin = None;
        self.rx = None;
        if let Some(mut c) = self.child.take() {
            let _ = c.kill();
            return c.wait().ok().and_then(|s| s.signal());
        }
        None
    }

    fn reap(&mut self) -> (Option<i32>, Option<i32>) {
        use std::os::unix::process::ExitStatusExt;
        self.stdin = None;
        self.rx = None;
        if let Some(mut c) = self.child.take() {
            if let Ok(s) = c.wait() { return (s.signal(), s.code()) }
        }
        (None, None)
    }

    /// Sends one job line and waits for its `E` line, the child's death or the time limit.
    ///
    /// "Hang" is decided on the child's CPU time, not on the wall clock (the machine may be overloaded): when the
    /// wall-clock limit passes, the child is given more time until it has really burnt `limit` of CPU; a child
    /// that neither finishes nor uses CPU is given up after 30 x limit.
    pub fn job(&mut self, id: &str, line: &str) -> Obs {
        let t0 = Instant::now();
        self.ensure();
        if !self.send(line) {
            self.reap();
            self.ensure();
            self.send(line);
        }
        let pid = self.child.as_ref().map(|c| c.id()).unwrap_or(0);
        let cpu0 = cpu_ms_of(pid).unwrap_or(0);
        let cpu = |pid: u32| cpu_ms_of(pid).unwrap_or(cpu0).saturating_sub(cpu0);
        let mut deadline = t0 + self.limit;
        let mut refused: u64 = 0;
        loop {
            let left = deadline.saturating_duration_since(Instant::now());
            let got = self.rx.as_ref().unwrap().recv_timeout(left);
            match got {
                Ok(l) => {
                    let p: Vec<&str> = l.split(' ').collect();
                    match p[0] {
                        "A" => { refused = refused.max(p.get(1).and_then(|x| x.parse().ok()).unwrap_or(0)); }
                        "E" if p.get(1) == Some(&id) => {
                            return Obs {
                                outcome: p[2].to_string(), consumed: p[3].parse().unwrap_or(0),
                                max_alloc: p[4].parse::<u64>().unwrap_or(0).max(refused),
                                detail: String::from_utf8_lossy(&unhex(p.get(5).copied().unwrap_or("-"))).into_owned(),
                                signal: None, millis: t0.elapsed().as_millis(), cpu_ms: cpu(pid),
                            }
                        }
                        "EOF" => {
                            let cpu_ms = cpu(pid);
                            let (sig, code) = self.reap();
                            return Obs {
                                outcome: if sig.is_some() || code == Some(86) { "abort".into() } else { "exit".into() }, consumed: 0, max_alloc: refused,
                                detail: if code == Some(86) { format!("allocation of {refused} bytes requested (refused by the harness; the shipped binary aborts or holds that much)") }
                                        else { format!("child died: signal {sig:?} exit code {code:?}") },
                                signal: sig, millis: t0.elapsed().as_millis(), cpu_ms,
                            }
                        }
                        _ => {}
                    }
                }
                Err(RecvTimeoutError::Timeout) => {
                    let used = cpu(pid);
                    if (used as u128) < self.limit.as_millis() * 8 / 10 && t0.elapsed() < self.limit * 30 {
                        deadline = Instant::now() + self.limit / 2;      // starved, not hanging: keep waiting
                        continue
                    }
                    self.kill();
                    return Obs { outcome: "hang".into(), consumed: 0, max_alloc: refused,
                                 detail: format!("no result after {} ms of CPU time ({} ms wall); child killed", used, t0.elapsed().as_millis()),
                                 signal: None, millis: t0.elapsed().as_millis(), cpu_ms: used }
                }
                Err(RecvTimeoutError::Disconnected) => {
                    let cpu_ms = cpu(pid);
                    let (sig, code) = self.reap();
                    return Obs { outcome: "abort".into(), consumed: 0, max_alloc: refused,
                                 detail: format!("child gone: signal {sig:?} exit code {code:?}"), signal: sig, millis: t0.elapsed().as_millis(), cpu_ms }
                }
            }
        }
    }

    pub fn quit(&mut self) {
        if self.child.is_some() { self.send("Q"); }
        self.kill();
    }
}

impl Drop for Worker {
    fn drop(&mut self) { self.kill(); }
}
