//! C27: damaged inputs through the real decoders in child processes.

use std::collections::VecDeque;
use std::sync::{Arc, Mutex};
use std::time::Duration;
use serde_json::{json, Value};
use crate::common::{Args, Report, Rng};
use super::model::*;
use super::pool::{Obs, Worker};
use super::{alloc_limit, archive, real, short_hex};

const PID: &str = "C27";

/// One damaged input for a child.
struct Job {
    id: String,
    /// protocol line (D / C / R / X)
    line: String,
    /// base input the C line refers to (its P line)
    base: Option<Arc<String>>,
    /// file to write before the job (archive jobs)
    file: Option<(std::path::PathBuf, Arc<Vec<u8>>)>,
    input_len: usize,
    /// signature prefix and what the intended decoder does on this input
    sig: String,
    pred: Option<Pred>,
    /// the model's bytes are the bytes of the real encoder for this case
    exact: bool,
    key: String,
    behaviour: Value,
}

/// Classifies an observation: None = the property held.
fn judge(o: &Obs, input_len: usize, archive: bool) -> Option<&'static str> {
    // a reader caught in a pointer cycle either just spins or grows a vector while spinning
    if archive && (o.outcome == "hang" || (o.max_alloc > alloc_limit(input_len) && o.cpu_ms >= 500)) { return Some("loop") }
    if o.max_alloc > alloc_limit(input_len) || (o.outcome == "panic" && o.detail.contains("capacity overflow")) { return Some("alloc") }
    match o.outcome.as_str() { "panic" => Some("panic"), "abort" | "exit" => Some("abort"), "hang" => Some("hang"), _ => None }
}

fn field_name(rec: &str, fi: usize) -> String {
    let g = grammar(rec);
    if fi >= 1 && fi <= g.len() { g[fi - 1].0.to_string() } else { "end".into() }
}

fn run_jobs(rep: &mut Report, mode: &str, jobs: Vec<Job>, nworkers: usize, limit: Duration, samples: bool) -> Vec<(String, Obs)> {
    let queue = Arc::new(Mutex::new(jobs.into_iter().collect::<VecDeque<_>>()));
    let results: Vec<(Report, Vec<(String, Obs)>)> = std::thread::scope(|scope| {
        let handles: Vec<_> = (0..nworkers).map(|_| {
            let queue = queue.clone();
            scope.spawn(move || {
                let mut local = Report::new("codec");
                let mut seen = Vec::new();
                let mut w = Worker::new(mode);
                w.limit = limit;
                let mut last_base: Option<Arc<String>> = None;
                loop {
                    let job = match queue.lock().unwrap().pop_front() { Some(j) => j, None => break };
                    if w.ensure() { last_base = None; }
                    if let Some(b) = &job.base {
                        if !last_base.as_ref().map(|l| Arc::ptr_eq(l, b)).unwrap_or(false) {
                            if !w.send(b) { w.quit(); w.ensure(); w.send(b); }
                            last_base = Some(b.clone());
                        }
                    }
                    if let Some((path, data)) = &job.file { std::fs::write(path, &data[..]).expect("write job file"); }
                    let obs = w.job(&job.id, &job.line);
                    if !w.alive() { last_base = None; }
                    if let Some((path, _)) = &job.file { let _ = std::fs::remove_file(path); }
                    evaluate(&mut local, &job, &obs, samples);
                    seen.push((job.id.clone(), obs));
                }
                w.quit();
                (local, seen)
            })
        }).collect();
        handles.into_iter().map(|h| h.join().expect("worker thread")).collect()
    });
    let mut all = Vec::new();
    for (r, s) in results { rep.absorb(r); all.extend(s); }
    all
}

fn evaluate(rep: &mut Report, job: &Job, obs: &Obs, samples: bool) {
    rep.eval(PID);
    rep.trace(PID);
    let observed = json!({"outcome": obs.outcome, "consumed": obs.consumed, "max_single_allocation": obs.max_alloc,
                          "allocation_limit": alloc_limit(job.input_len), "detail": obs.detail, "signal": obs.signal, "millis": obs.millis, "cpu_ms": obs.cpu_ms});
    match judge(obs, job.input_len, job.sig.starts_with("archive/")) {
        Some(effect) => {
            rep.nontrivial(PID, job.key.clone());
            rep.violation(PID, &format!("{}/{effect}", job.sig),
                format!("{}: {} (largest single allocation request {} bytes for an input of {} bytes): {}", job.id, obs.outcome, obs.max_alloc,
                        job.input_len, obs.detail.chars().take(200).collect::<String>()),
                job.behaviour.clone(), observed);
        }
        None => {
            if obs.outcome != "value" && obs.outcome != "ok" { rep.nontrivial(PID, job.key.clone()); }
            rep.add_note(PID, &format!("outcome_{}", obs.outcome), 1);
            if let Some(p) = &job.pred {
                let agrees = obs.outcome == p.outcome && (p.outcome != "value" || obs.consumed == p.pos);
                if !agrees {
                    rep.add_note(PID, if job.exact { "model_mismatches" } else { "model_mismatches_inexact" }, 1);
                    rep.divergence(PID, format!("{}: model {} (pos {}), code {} (consumed {}) {}", job.id, p.outcome, p.pos, obs.outcome, obs.consumed, obs.detail));
                }
            }
            if samples && obs.outcome == "format" { rep.sample(PID, json!({"case": job.behaviour, "observed": observed})); }
        }
    }
}

pub fn run(rep: &mut Report, lines: &[super::CLine], arch_lines: &[Value], args: &Args) {
    let nworkers = args.opt_usize("jobs", 6);
    let only = args.opt("only").unwrap_or("");
    if let Some(file) = args.opt("replay_file") { replay_one(rep, file); return }
    let t = std::time::Instant::now();
    if only.is_empty() || only == "records" { records(rep, lines, args, nworkers); }
    rep.note(PID, "seconds_records", json!(t.elapsed().as_secs()));
    let t = std::time::Instant::now();
    if only.is_empty() || only == "archive" { archives(rep, arch_lines, args, nworkers); }
    rep.note(PID, "seconds_archive", json!(t.elapsed().as_secs()));
    let t = std::time::Instant::now();
    if only.is_empty() || only == "runs" { runs(rep, args); }
    rep.note(PID, "seconds_runs", json!(t.elapsed().as_secs()));
}

// ---------------------------------------------------------------------------
// the five record types

fn records(rep: &mut Report, lines: &[super::CLine], args: &Args, nworkers: usize) {
    let mut jobs = Vec::new();
    let mut real_bytes_cache: std::collections::HashMap<String, bool> = Default::default();
    let mut mirror_bad = 0u64;
    for (n, l) in lines.iter().enumerate() {
        let rec = l.rec;
        let cls = l.cls.clone();
        let enc = &l.enc;
        let nrest = l.rest;
        let c = l.c.clone();
        let inp = c.apply(enc);
        // the Rust mirror of the intended decoder must agree with TLC on every line
        let pred = mirror_decode(rec, &inp);
        let same = pred.outcome == l.exp_outcome && pred.fi == l.exp_fi && (pred.outcome != "value" || pred.pos == l.exp_pos);
        if !same {
            mirror_bad += 1;
            rep.divergence(PID, format!("mirror decoder {:?} vs TLC ({}, fi {}, pos {}) on {rec} {cls:?} {}", pred, l.exp_outcome, l.exp_fi, l.exp_pos, c.label()));
        }
        if c.k == "none" { continue }
        let exact = *real_bytes_cache.entry(format!("{rec}|{cls:?}")).or_insert_with(|| {
            let vals = values_of(rec, &cls, false);
            let (enc_m, _) = encode(&vals);
            enc_m[..] == enc[..enc.len() - nrest]
                && real::build(rec, &vals).and_then(|v| real::write(&v)).map(|w| w == enc_m).unwrap_or(false)
        });
        let cls_sig = if pred.len_beyond { "len-huge".to_string() } else { c.k.clone() };
        jobs.push(Job {
            id: format!("m{n}"), line: format!("D m{n} {rec} {}", hex(&inp)), base: None, file: None, input_len: inp.len(),
            sig: format!("codec/{rec}.{}/{cls_sig}", field_name(rec, pred.fi)), pred: Some(pred), exact,
            key: format!("{rec}|{cls:?}|{}|{nrest}", c.label()),
            behaviour: json!({"rec": rec, "cls": cls, "corruption": l.corr_json(), "label": c.label(), "trailing": nrest, "input": short_hex(&inp)}),
        });
    }
    if mirror_bad > 0 { rep.add_note(PID, "mirror_mismatches", mirror_bad); }
    // large representatives: the harness' own instantiation of the corruption operators
    let mut done: std::collections::HashSet<String> = Default::default();
    let mut inflated_jobs = 0u64;
    for l in lines.iter().filter(|l| l.c.k == "none" && l.rest == 0) {
        let rec = l.rec;
        let cls = l.cls.clone();
        let g = grammar(rec);
        let infl: Vec<usize> = g.iter().zip(&cls).enumerate().filter(|(_, ((_, t), c))| inflatable(*t, c)).map(|(i, _)| i).collect();
        if infl.is_empty() { continue }
        if !done.insert(format!("{rec}|{infl:?}")) { continue }
        if !args.thorough() && infl.len() > 1 { continue }
        let vals = values_of(rec, &cls, true);
        let w = match real::build(rec, &vals).and_then(|v| real::write(&v)) { Ok(w) => w, Err(_) => continue };
        // layout of the real bytes (map order as really written)
        let (pvals, offs, end) = match parse_values(rec, &w) { Some(x) => x, None => continue };
        if end != w.len() { continue }
        let base = Arc::new(format!("P {}", hex(&w)));
        for (k, c) in corruptions_for(rec, &pvals, &w, &offs).into_iter().enumerate() {
            let inp = c.apply(&w);
            let pred = mirror_decode(rec, &inp);
            let cls_sig = if pred.len_beyond { "len-huge".to_string() } else { c.k.clone() };
            let id = format!("i{}_{k}", done.len());
            jobs.push(Job {
                line: format!("C {id} {rec} {} {} {}", c.cut, c.at, hex(&c.by)), id, base: Some(base.clone()), file: None, input_len: inp.len(),
                sig: format!("codec/{rec}.{}/{cls_sig}", field_name(rec, pred.fi)), pred: Some(pred), exact: false,
                key: format!("{rec}|{cls:?}|inflated|{}", c.label()),
                behaviour: json!({"rec": rec, "cls": cls, "inflated": true, "corruption": {"k": c.k, "f": c.f, "how": c.how, "at": c.at, "by": hex(&c.by), "cut": c.cut},
                                  "label": c.label(), "pristine_len": w.len()}),
            });
            inflated_jobs += 1;
        }
    }
    rep.add_note(PID, "record_cases_from_model", jobs.len() as u64 - inflated_jobs);
    rep.add_note(PID, "record_cases_large_values", inflated_jobs);
    run_jobs(rep, "dec", jobs, nworkers, Duration::from_secs(10), true);
}

// ---------------------------------------------------------------------------
// archive files

fn real_ops(a: &archive::Arch, op: &Value) -> Vec<(&'static str, Vec<u8>)> {
    match (op["k"].as_str().unwrap(), op["n"].as_str().unwrap()) {
        ("find", "A") => vec![("load_object", a.a.name.clone()), ("append+load_object", a.a.name.clone()), ("g_fetch", a.a.name.clone())],
        ("find", "B") => vec![("load_state", vec![]), ("g_fetch", b"state".to_vec())],
        ("find", "C") => vec![("load_object", a.c.name.clone()), ("append+load_object", a.c.name.clone())],
        ("find", _) => vec![("load_object", a.name_x.clone()), ("append+load_object", a.name_x.clone())],
        ("publish", _) => vec![("publish", a.name_x.clone())],
        ("verify", _) => vec![("verify", vec![]), ("g_verify", vec![])],
        _ => vec![("objects", vec![]), ("g_objects", vec![])],
    }
}

fn archives(rep: &mut Report, arch_lines: &[Value], args: &Args, nworkers: usize) {
    let base = if std::path::Path::new("/dev/shm").is_dir() { std::path::PathBuf::from("/dev/shm") } else { std::env::temp_dir() };
    let dir = tempfile::Builder::new().prefix("vh-arch-").tempdir_in(base).expect("tempdir");
    let arch = match archive::build(dir.path()) {
        Ok(a) => a,
        Err(e) => { rep.note(PID, "fidelity_error", json!(format!("cannot build the archive: {e}"))); return }
    };
    let limit = Duration::from_secs(if args.thorough() { 10 } else { 4 });
    let quick = !args.thorough();
    let mut jobs = Vec::new();
    let mut n = 0usize;
    let mut push = |jobs: &mut Vec<Job>, sig: String, key: String, op: &str, arg: &[u8], data: Arc<Vec<u8>>, beh: Value, exp: Option<&str>| {
        n += 1;
        let id = format!("a{n}");
        let path = dir.path().join(format!("{id}.arch"));
        jobs.push(Job {
            line: format!("R {id} {op} {} {}", hex(arg), path.display()), id, base: None, input_len: data.len(), file: Some((path, data)),
            sig, pred: None, exact: false, key,
            behaviour: json!({"archive": beh, "operation": op, "argument": String::from_utf8_lossy(arg), "model_expectation": exp}),
        });
    };
    // the undamaged archive must read fine (otherwise the layout assumptions are wrong)
    let pristine = Arc::new(arch.bytes.clone());
    let mut sanity = Vec::new();
    for op in [json!({"k": "find", "n": "A"}), json!({"k": "find", "n": "B"}), json!({"k": "find", "n": "C"}), json!({"k": "find", "n": "X"}), json!({"k": "publish", "n": "X"}),
               json!({"k": "verify", "n": ""}), json!({"k": "objects", "n": ""})] {
        for (rop, arg) in real_ops(&arch, &op) {
            push(&mut sanity, "archive/pristine".into(), format!("pristine|{rop}"), rop, &arg, pristine.clone(), json!("pristine"), Some("ok"));
        }
    }
    let mut probe = Report::new("codec");
    let res = run_jobs(&mut probe, "dec", sanity, 2, limit, false);
    let bad: Vec<String> = res.iter().filter(|(_, o)| o.outcome != "ok").map(|(id, o)| format!("{id}:{}:{}", o.outcome, o.detail)).collect();
    if !bad.is_empty() || probe.violations(PID) > 0 {
        rep.note(PID, "fidelity_error", json!(format!("operations on the undamaged archive fail: {bad:?}")));
        return
    }
    for l in arch_lines {
        let cor = &l["cor"];
        if cor["f"] == "none" { continue }
        let data = Arc::new(arch.damaged(cor));
        let exp = l["exp"].as_str().unwrap();
        let cls = if exp == "hang" { "cycle".to_string() } else { cor["to"].as_str().unwrap().to_string() };
        for (rop, arg) in real_ops(&arch, &l["op"]) {
            // quick: RrdpArchive only; thorough: also the generic Archive (same index code, no error mapping)
            if quick && rop.starts_with("g_") { continue }
            let sig = format!("archive/{}:{}", cor["f"].as_str().unwrap(), cls);
            push(&mut jobs, sig, format!("{cor}|{rop}|{}", l["op"]["n"]), rop, &arg, data.clone(), cor.clone(), Some(exp));
        }
    }
    let model_jobs = jobs.len();
    for (label, data) in arch.extras() {
        let data = Arc::new(data);
        for op in [json!({"k": "find", "n": "A"}), json!({"k": "find", "n": "B"}), json!({"k": "find", "n": "X"}), json!({"k": "publish", "n": "X"}),
                   json!({"k": "verify", "n": ""}), json!({"k": "objects", "n": ""})] {
            for (rop, arg) in real_ops(&arch, &op) {
                if quick && rop.starts_with("g_") { continue }
                let sig = format!("archive/extra:{label}");
                push(&mut jobs, sig, format!("extra|{label}|{rop}|{}", op["n"]), rop, &arg, data.clone(), json!(label), None);
            }
        }
        if label.starts_with("size.") {
            // an object that fits the empty block exactly as it was, and one a page smaller
            for len in [arch.fit_len(), arch.fit_len().saturating_sub(256)] {
                let rop: &'static str = Box::leak(format!("publish:{len}").into_boxed_str());
                push(&mut jobs, format!("archive/extra:{label}"), format!("extra|{label}|{rop}|X"), rop, &arch.name_x, data.clone(), json!(label), None);
            }
        }
    }
    rep.add_note(PID, "archive_cases_from_model", model_jobs as u64);
    rep.add_note(PID, "archive_cases_extra", (jobs.len() - model_jobs) as u64);
    rep.note(PID, "archive_layout", json!({"bytes": arch.bytes.len(), "objects": arch.objs.len(), "A": arch.a.pos, "B(state)": arch.b.pos,
                                           "C": arch.c.pos, "E(empty)": arch.e.pos, "slot_A": arch.slot_a, "slot_CB": arch.slot_cb}));
    // model conformance (coarse): hang / panic predicted by the as-shipped model
    let exps: std::collections::HashMap<String, String> = jobs.iter().map(|j| (j.id.clone(), j.behaviour["model_expectation"].as_str().unwrap_or("").to_string())).collect();
    let res = run_jobs(rep, "dec", jobs, nworkers, limit, false);
    for (id, o) in res {
        let exp = exps.get(&id).map(|s| s.as_str()).unwrap_or("");
        if exp.is_empty() { continue }
        let crashed = matches!(o.outcome.as_str(), "panic" | "hang" | "abort");
        if crashed != matches!(exp, "panic" | "hang") {
            rep.add_note(PID, "archive_model_mismatches", 1);
            rep.divergence(PID, format!("archive {id}: as-shipped model says {exp}, code {}", o.outcome));
        }
    }
}

// ---------------------------------------------------------------------------
// whole validation runs over a damaged cache

fn runs(rep: &mut Report, args: &Args) {
    let base = if std::path::Path::new("/dev/shm").is_dir() { std::path::PathBuf::from("/dev/shm") } else { std::env::temp_dir() };
    let state = tempfile::Builder::new().prefix("vh-runs-").tempdir_in(base).expect("tempdir");
    let mut w = Worker::new("runs");
    w.env.push(("VERIF_RUNS_STATE".into(), state.path().join("state").to_string_lossy().into_owned()));
    w.limit = Duration::from_secs(if args.thorough() { 20 } else { 10 });
    w.ensure();
    let pre = w.preamble.clone();
    let pristine_payload: usize = pre.last().and_then(|l| l.split(' ').nth(1)).and_then(|x| x.parse().ok()).unwrap_or(0);
    let files: Vec<(String, Vec<u8>)> = pre.iter().filter(|l| l.starts_with("F ")).map(|l| {
        let p: Vec<&str> = l.split(' ').collect();
        (String::from_utf8(unhex(p[1])).unwrap(), unhex(p[2]))
    }).collect();
    // (file, record type, offset of the record in the file, corruption relative to the record)
    let mut cases: Vec<(String, usize, String, usize, Vec<u8>, Corr)> = Vec::new();
    for (rel, data) in &files {
        let mut recs: Vec<(&str, usize)> = Vec::new();
        if rel == "status.bin" { recs.push(("StoredStatus", 0)); }
        else if rel.starts_with("rsync/") || rel.starts_with("rrdp/") {
            let mut pos = 0usize;
            for rec in ["StoredPointHeader", "StoredManifest"] {
                match parse_values(rec, &data[pos..]) { Some((_, _, end)) => { recs.push((rec, pos)); pos += end } None => break }
            }
            while pos < data.len() {
                match parse_values("StoredObject", &data[pos..]) { Some((_, _, end)) => { recs.push(("StoredObject", pos)); pos += end } None => break }
            }
        }
        for (rec, off) in recs {
            let (vals, offs, end) = parse_values(rec, &data[*&off..]).unwrap();
            let sub = data[off..off + end].to_vec();
            for c in corruptions_for(rec, &vals, &sub, &offs) { cases.push((rel.clone(), data.len(), rec.to_string(), off, sub.clone(), c)); }
        }
    }
    let total = cases.len();
    if !args.thorough() {
        // quick: every length-prefix and tag corruption, a seeded sample of the rest
        let mut rng = Rng::new(args.seed);
        let (keep, mut rest): (Vec<_>, Vec<_>) = cases.into_iter().partition(|c| c.5.k == "setlen" && matches!(c.5.how.as_str(), "rem+1" | "2^32-1" | "2^63" | "0"));
        rng.shuffle(&mut rest);
        rest.truncate(args.opt_usize("run_sample", 60));
        cases = keep.into_iter().chain(rest).collect();
    }
    rep.note(PID, "run_cases", json!({"files": files.iter().map(|(r, d)| json!([r, d.len()])).collect::<Vec<_>>(), "corruptions_total": total,
                                      "corruptions_run": cases.len(), "pristine_payload": pristine_payload}));
    let mut n = 0usize;
    for (rel, flen, rec, off, _sub, c) in cases {
        // what the intended decoder does with the whole damaged file
        let fdata = files.iter().find(|(r, _)| *r == rel).map(|(_, d)| d.clone()).unwrap();
        let mut damaged = fdata.clone();
        for (i, b) in c.by.iter().enumerate() { if off + c.at + i < damaged.len() { damaged[off + c.at + i] = *b } }
        if c.cut >= 0 { damaged.truncate(off + c.cut as usize) }
        let (srec, pred) = if rel == "status.bin" { ("StoredStatus", mirror_decode("StoredStatus", &damaged)) } else { mirror_file(&damaged) };
        let cls_sig = if pred.len_beyond { "len-huge".to_string() } else { c.k.clone() };
        let kinds: &[&str] = if rel == "status.bin" { &["status", "run1"] } else { &["run0", "run1"] };
        for kind in kinds {
            n += 1;
            let id = format!("r{n}");
            // file-level edit: overwrite at off + at; a cut of the record cuts the file there
            let cut = if c.cut >= 0 { off as i64 + c.cut } else { -1 };
            let line = format!("X {id} {kind} {} {cut} {} {}", hex(rel.as_bytes()), off + c.at, hex(&c.by));
            let job = Job {
                id: id.clone(), line, base: None, file: None, input_len: flen,
                // same call sites and input classes as the record-level cases: same signatures
                sig: format!("codec/{srec}.{}/{cls_sig}", field_name(srec, pred.fi)),
                pred: None, exact: false, key: format!("run|{rel}|{rec}|{}|{kind}", c.label()),
                behaviour: json!({"file": rel, "record": rec, "record_offset": off, "corruption": {"k": c.k, "f": c.f, "how": c.how, "at": c.at, "by": hex(&c.by), "cut": c.cut},
                                  "label": c.label(), "command": kind}),
            };
            let obs = w.job(&id, &job.line);
            if obs.outcome == "ok" && *kind != "status" && obs.consumed == pristine_payload { rep.add_note(PID, "runs_recovered_full_payload", 1); }
            evaluate(rep, &job, &obs, false);
        }
    }
    w.quit();
}

// ---------------------------------------------------------------------------
// `bin/check C27 --replay replays/C27-xxxx.json`: one record-level case again

fn replay_one(rep: &mut Report, file: &str) {
    let v: Value = match std::fs::read_to_string(file).ok().and_then(|t| serde_json::from_str(&t).ok()) {
        Some(v) => v,
        None => { rep.note(PID, "fidelity_error", json!(format!("cannot read {file}"))); return }
    };
    let b = &v["behaviour"];
    let (rec, input) = match (b["rec"].as_str(), b["input"].as_str()) {
        (Some(r), Some(i)) if !i.contains("..") && RECORDS.contains(&r) => (r, unhex(i)),
        _ => { rep.note(PID, "fidelity_error", json!("only record-level cases with a complete `input` can be replayed singly; re-run the tier")); return }
    };
    let rec = *RECORDS.iter().find(|r| **r == rec).unwrap();
    let pred = mirror_decode(rec, &input);
    let cls_sig = if pred.len_beyond { "len-huge".to_string() } else { b["corruption"]["k"].as_str().unwrap_or("raw").to_string() };
    let job = Job {
        id: "replay".into(), line: format!("D replay {rec} {}", hex(&input)), base: None, file: None, input_len: input.len(),
        sig: format!("codec/{rec}.{}/{cls_sig}", field_name(rec, pred.fi)), pred: Some(pred), exact: false, key: "replay".into(), behaviour: b.clone(),
    };
    run_jobs(rep, "dec", vec![job], 1, Duration::from_secs(10), true);
}
