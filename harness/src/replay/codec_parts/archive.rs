//! A real RRDP archive (SnapshotRrdpArchive + RrdpArchive) laid out like the
//! archive of spec/CodecArchive.tla, and the model's abstract damages turned
//! into byte edits of the real file.

use std::path::Path;
use std::sync::Arc;
use serde_json::Value;
use rpki::{rrdp, uri};
use routinator::collector::{RepositoryState, RrdpArchive, SnapshotRrdpArchive};
use super::model::{class_value, grammar, FV};
use super::real;

pub const INDEX_START: usize = 30;
pub const BUCKETS: usize = 1024;
pub const OBJ_START: usize = INDEX_START + (BUCKETS + 1) * 8;
const HDR: usize = 33;

#[derive(Clone, Debug)]
pub struct ObjInfo { pub pos: usize, pub size: u64, pub next: u64, pub is_empty: bool, pub name_len: usize, pub data_len: usize, pub name: Vec<u8> }

pub struct Arch {
    pub bytes: Vec<u8>,
    pub objs: Vec<ObjInfo>,
    /// index slot of A's bucket / of the bucket with the chain C -> B (B = "state")
    pub slot_a: usize,
    pub slot_cb: usize,
    pub a: ObjInfo, pub b: ObjInfo, pub c: ObjInfo, pub e: ObjInfo,
    /// a name that is not in the archive and hashes into the bucket of C -> B
    pub name_x: Vec<u8>,
    pub last: ObjInfo,
}

fn u64_at(b: &[u8], at: usize) -> u64 { u64::from_ne_bytes(b[at..at + 8].try_into().unwrap()) }

pub fn scan(bytes: &[u8]) -> Vec<ObjInfo> {
    let mut out = Vec::new();
    let mut pos = OBJ_START;
    while pos + HDR <= bytes.len() {
        let size = u64_at(bytes, pos);
        let name_len = u64_at(bytes, pos + 17) as usize;
        if size == 0 || pos + HDR + name_len > bytes.len() { break }
        out.push(ObjInfo { pos, size, next: u64_at(bytes, pos + 8), is_empty: bytes[pos + 16] == 1, name_len,
                           data_len: u64_at(bytes, pos + 25) as usize, name: bytes[pos + HDR..pos + HDR + name_len].to_vec() });
        pos += size as usize;
    }
    out
}

fn chain(bytes: &[u8], slot: usize) -> Vec<usize> {
    let mut out = Vec::new();
    let mut p = u64_at(bytes, INDEX_START + 8 * slot) as usize;
    while p != 0 && out.len() < 100 { out.push(p); p = u64_at(bytes, p + 8) as usize; }
    out
}

fn obj_name(i: usize) -> String { format!("rsync://arch.verif.test/m/d{}/o{i}.roa", i % 7) }
fn obj_data(i: usize) -> Vec<u8> { (0..(10 + (i * 37) % 600)).map(|k| ((k * 7 + i) % 256) as u8).collect() }

fn state() -> RepositoryState {
    let vals: Vec<FV> = grammar("RepositoryState").iter().map(|(_, t)| {
        let c = match format!("{t:?}").as_str() { "Map" => "m2", "OptBytes" => "s_etag", "OptI64" => "s_zero", "Uuid" => "mixed",
                                                  "U64" => "one", "I64" => "zero", "Https" => "min", _ => "v" };
        class_value(*t, c, false)
    }).collect();
    match real::build("RepositoryState", &vals).expect("state") { real::Real::State(s) => s, _ => unreachable!() }
}

fn try_build(path: &Path, n: usize) -> Result<Option<Arch>, String> {
    let _ = std::fs::remove_file(path);
    let file = std::fs::OpenOptions::new().read(true).write(true).create(true).truncate(true).open(path).map_err(|e| e.to_string())?;
    let apath = Arc::new(path.to_path_buf());
    let mut snap = SnapshotRrdpArchive::create_with_file(file, apath.clone()).map_err(|_| "create_with_file failed".to_string())?;
    snap.publish_state(&state()).map_err(|_| "publish_state failed".to_string())?;
    for i in 0..n {
        let u = uri::Rsync::from_string(obj_name(i)).unwrap();
        snap.publish_object(&u, &obj_data(i)).map_err(|e| format!("publish_object: {e:?}"))?;
    }
    snap.finalize().map_err(|_| "finalize failed".to_string())?;
    drop(snap);
    let bytes = std::fs::read(path).map_err(|e| e.to_string())?;
    let objs = scan(&bytes);
    if objs.len() != n + 1 { return Err(format!("scan found {} objects, expected {}", objs.len(), n + 1)) }
    let by_pos = |p: usize| objs.iter().find(|o| o.pos == p).cloned();
    // the bucket of "state" must be exactly C -> state
    let mut slot_cb = None;
    let mut singles = Vec::new();
    for s in 0..BUCKETS {
        let ch = chain(&bytes, s);
        if ch.len() == 2 && by_pos(ch[1]).map(|o| o.name == b"state").unwrap_or(false) { slot_cb = Some(s); }
        if ch.len() == 1 { singles.push((s, ch[0])); }
    }
    let slot_cb = match slot_cb { Some(s) => s, None => return Ok(None) };
    let ch = chain(&bytes, slot_cb);
    let (c, b) = (by_pos(ch[0]).unwrap(), by_pos(ch[1]).unwrap());
    let last_pos = objs.last().unwrap().pos;
    // A: alone in its bucket; D (to be deleted -> E): alone, not last, not A
    let mut it = singles.iter().filter(|(_, p)| *p != last_pos && *p != b.pos);
    let (slot_a, pos_a) = *it.next().ok_or("no single bucket")?;
    let (_, pos_d) = *it.next().ok_or("no second single bucket")?;
    let d = by_pos(pos_d).unwrap();
    {
        let mut arch = RrdpArchive::try_open(apath.clone()).map_err(|_| "try_open failed".to_string())?.ok_or("archive vanished")?;
        let idx: usize = objs.iter().position(|o| o.pos == pos_d).unwrap() - 1;
        let du = uri::Rsync::from_slice(&d.name).map_err(|e| e.to_string())?;
        arch.delete_object(&du, rrdp::Hash::from_data(&obj_data(idx))).map_err(|e| format!("delete_object: {e:?}"))?;
    }
    let bytes = std::fs::read(path).map_err(|e| e.to_string())?;
    let objs = scan(&bytes);
    let by_pos = |p: usize| objs.iter().find(|o| o.pos == p).cloned();
    let e = by_pos(pos_d).ok_or("empty object not found")?;
    if !e.is_empty { return Err("deleted object is not marked empty".into()) }
    if u64_at(&bytes, INDEX_START + 8 * BUCKETS) as usize != pos_d { return Ok(None) }
    let a = by_pos(pos_a).unwrap();
    // X: an absent name in the bucket of C -> B, found by publishing candidates into scratch copies
    let scratch = path.with_extension("scratch");
    let mut name_x = None;
    for k in 0..6000 {
        let cand = format!("rsync://arch.verif.test/m/absent/x{k}.cer");
        std::fs::write(&scratch, &bytes).map_err(|e| e.to_string())?;
        {
            let mut arch = RrdpArchive::try_open(Arc::new(scratch.clone())).map_err(|_| "scratch open".to_string())?.ok_or("scratch vanished")?;
            arch.publish_object(&uri::Rsync::from_string(cand.clone()).unwrap(), b"x").map_err(|e| format!("scratch publish: {e:?}"))?;
        }
        let nb = std::fs::read(&scratch).map_err(|e| e.to_string())?;
        if u64_at(&nb, INDEX_START + 8 * slot_cb) != u64_at(&bytes, INDEX_START + 8 * slot_cb) { name_x = Some(cand.into_bytes()); break }
    }
    let _ = std::fs::remove_file(&scratch);
    let name_x = match name_x { Some(x) => x, None => return Ok(None) };
    let last = objs.last().unwrap().clone();
    Ok(Some(Arch { bytes, objs: objs.clone(), slot_a, slot_cb, a, b, c, e, name_x, last }))
}

pub fn build(dir: &Path) -> Result<Arch, String> {
    let path = dir.join("pristine.arch");
    for attempt in 0..200 {
        if let Some(a) = try_build(&path, 100 + attempt % 50)? { let _ = std::fs::remove_file(&path); return Ok(a) }
    }
    Err("could not lay out an archive with the chain C -> state".into())
}

fn put(b: &mut [u8], at: usize, v: u64) { if at + 8 <= b.len() { b[at..at + 8].copy_from_slice(&v.to_ne_bytes()) } }

impl Arch {
    /// Content length that makes an object named X exactly as large as the empty block E was.
    pub fn fit_len(&self) -> usize {
        (u64_at(&self.bytes, self.e.pos) as usize).saturating_sub(HDR + self.name_x.len() + 32)
    }

    fn obj(&self, o: &str) -> &ObjInfo { match o { "A" => &self.a, "B" => &self.b, "C" => &self.c, _ => &self.e } }

    fn ptr(&self, p: &str) -> u64 {
        match p { "nil" => 0, "mid" => self.a.pos as u64 + 40, "eof" => self.bytes.len() as u64, "past" => self.bytes.len() as u64 + 1,
                  o => self.obj(o).pos as u64 }
    }

    /// The damaged file for an abstract corruption of CodecArchive.tla.
    pub fn damaged(&self, cor: &Value) -> Vec<u8> {
        let (f, t, to) = (cor["f"].as_str().unwrap(), cor["t"].as_str().unwrap(), cor["to"].as_str().unwrap());
        let mut b = self.bytes.clone();
        match f {
            "magic" => match to { "bad_magic" => b[0] = b'X', "bad_version" => b[4] = 2, _ => b[5] = b'A' },
            "trunc" => { let cut = match to { "magic" => 3, "meta" => 20, "index" => INDEX_START + 8, _ => self.last.pos + 40 }; b.truncate(cut) }
            "bc" => put(&mut b, 22, match to { "0" => 0, "1" => 1, "3" => BUCKETS as u64 + 1, _ => 1 << 61 }),
            "slot" => { let s = match t { "0" => self.slot_a, "1" => self.slot_cb, _ => BUCKETS }; put(&mut b, INDEX_START + 8 * s, self.ptr(to)) }
            "next" => put(&mut b, self.obj(t).pos + 8, self.ptr(to)),
            "flag" => b[self.obj(t).pos + 16] = 2,
            "nlen" => { let o = self.obj(t); put(&mut b, o.pos + 17, match to { "short" => (o.name_len as u64).wrapping_sub(1), "long" => o.name_len as u64 + 1, _ => 1 << 62 }) }
            "dlen" => { let o = self.obj(t); put(&mut b, o.pos + 25, match to { "long" => o.data_len as u64 + 1, _ => 1 << 62 }) }
            _ => {}
        }
        b
    }

    /// Damages beyond the model's classes (label, file).
    pub fn extras(&self) -> Vec<(String, Vec<u8>)> {
        let mut out = Vec::new();
        let mut add = |label: String, f: &dyn Fn(&mut Vec<u8>)| { let mut b = self.bytes.clone(); f(&mut b); out.push((label, b)); };
        for (l, v) in [("2", 2u64), ("1023", 1023), ("2^32", 1 << 32), ("2^63", 1 << 63), ("2^64-1", u64::MAX), ("2^61-1", (1 << 61) - 1)] {
            add(format!("bc={l}"), &|b| put(b, 22, v));
        }
        for (l, v) in [("1", 1u64), ("2^64-1", u64::MAX), ("index", INDEX_START as u64 + 8)] {
            add(format!("slot1->{l}"), &|b| put(b, INDEX_START + 8 * self.slot_cb, v));
            add(format!("next.C->{l}"), &|b| put(b, self.c.pos + 8, v));
            add(format!("slot2->{l}"), &|b| put(b, INDEX_START + 8 * BUCKETS, v));
        }
        for (l, v) in [("0", 0u64), ("1", 1), ("2^64-1", u64::MAX)] {
            add(format!("size.A={l}"), &|b| put(b, self.a.pos, v));
            add(format!("size.E={l}"), &|b| put(b, self.e.pos, v));
        }
        // the size of the empty block raised by less than a header: what is left after an object of the block's
        // original size has been put there cannot hold the header of the remainder
        let esize = u64_at(&self.bytes, self.e.pos);
        for k in [1u64, 2, 4, 8, 16, 32] {
            add(format!("size.E=+{k}"), &|b| put(b, self.e.pos, esize + k));
        }
        add("size.E=-1".into(), &|b| put(b, self.e.pos, esize - 1));
        add("size.A=+1".into(), &|b| put(b, self.a.pos, u64_at(&self.bytes, self.a.pos) + 1));
        add("nlen.C=2^64-1".into(), &|b| put(b, self.c.pos + 17, u64::MAX));
        add("dlen.B=2^64-1".into(), &|b| put(b, self.b.pos + 25, u64::MAX));
        add("hash_key".into(), &|b| b[7] ^= 0x55);
        add("empty-chain-2cycle".into(), &|b| { put(b, self.e.pos + 8, self.a.pos as u64); put(b, self.a.pos + 8, self.e.pos as u64) });
        add("all-zero-index".into(), &|b| for x in &mut b[INDEX_START..OBJ_START] { *x = 0 });
        add("empty-file".into(), &|b| b.clear());
        for cut in [6usize, 22, 29, 30, OBJ_START - 1, OBJ_START, OBJ_START + 16, OBJ_START + 33] { add(format!("trunc@{cut}"), &|b| b.truncate(cut)); }
        // the state record inside the archive damaged like a RepositoryState
        let data_at = self.b.pos + HDR + self.b.name_len + 32;
        add("state.version".into(), &|b| b[data_at] = 9);
        add("state.map-count=2^32-1".into(), &|b| { let at = data_at + self.b.data_len - 8 - 80; put(b, at, ((1u64 << 32) - 1).to_be()) });
        add("state.map-count=2^63".into(), &|b| { let at = data_at + self.b.data_len - 8 - 80; put(b, at, (1u64 << 63).to_be()) });
        add("state.uri-len=2^32-1".into(), &|b| for i in 0..4 { b[data_at + 1 + i] = 255 });
        out
    }
}
