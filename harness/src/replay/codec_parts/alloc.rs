//! Counting global allocator of the harness binary: records the largest
//! single allocation request and (in child processes) refuses requests above
//! a cap: the request is reported on stdout ("A <bytes>") and the child exits
//! with code 86 (where the real binary would abort or hold that much memory).

use std::alloc::{GlobalAlloc, Layout, System};
use std::sync::atomic::{AtomicUsize, Ordering::Relaxed};

pub struct Counting;

static MAX_REQ: AtomicUsize = AtomicUsize::new(0);
static CAP: AtomicUsize = AtomicUsize::new(usize::MAX);
/// Requests above this are reported on stdout even when they are served (so that the parent knows about them when it
/// has to kill the child).
static REPORT_FROM: AtomicUsize = AtomicUsize::new(usize::MAX);

pub fn reset_max() { MAX_REQ.store(0, Relaxed); }
pub fn max_request() -> usize { MAX_REQ.load(Relaxed) }
pub fn set_cap(cap: usize) { CAP.store(cap, Relaxed); }
pub fn set_report_from(n: usize) { REPORT_FROM.store(n, Relaxed); }

fn report(size: usize, refused: bool) {
    // no allocation, no locks: format by hand and write(2) to stdout
    let mut buf = [0u8; 40];
    let mut i = buf.len();
    i -= 1; buf[i] = b'\n';
    let mut n = size;
    loop {
        i -= 1; buf[i] = b'0' + (n % 10) as u8; n /= 10;
        if n == 0 { break }
    }
    i -= 1; buf[i] = b' ';
    i -= 1; buf[i] = b'A';
    i -= 1; buf[i] = b'\n';
    unsafe {
        libc::write(1, buf[i..].as_ptr() as *const libc::c_void, buf.len() - i);
        // Returning null would end in handle_alloc_error -> abort(); leave at once instead
        // (exit code 86 = "allocation refused", the parent reports it with the size above).
        if refused { libc::_exit(86); }
    }
}

#[inline]
fn note(size: usize) -> bool {
    if size > MAX_REQ.load(Relaxed) { MAX_REQ.fetch_max(size, Relaxed); }
    if size > CAP.load(Relaxed) { report(size, true); return false }
    if size > REPORT_FROM.load(Relaxed) { report(size, false); }
    true
}

unsafe impl GlobalAlloc for Counting {
    unsafe fn alloc(&self, l: Layout) -> *mut u8 {
        if !note(l.size()) { return std::ptr::null_mut() }
        System.alloc(l)
    }
    unsafe fn alloc_zeroed(&self, l: Layout) -> *mut u8 {
        if !note(l.size()) { return std::ptr::null_mut() }
        System.alloc_zeroed(l)
    }
    unsafe fn realloc(&self, p: *mut u8, l: Layout, new: usize) -> *mut u8 {
        if !note(new) { return std::ptr::null_mut() }
        System.realloc(p, l, new)
    }
    unsafe fn dealloc(&self, p: *mut u8, l: Layout) { System.dealloc(p, l) }
}
