//! Rust mirror of spec/Codec.tla: record grammars, value classes, the
//! generic encoder and the *intended* decoder (used to name the field at
//! which decoding stops and to cross-check the TLC export line by line).

use serde_json::Value;

#[derive(Clone, Copy, Debug, PartialEq)]
pub enum Ty { Ver(u8), Time, Serial, U64, I64, OptI64, Uuid, Rsync, Https, OptHttps, Bytes, OptBytes, OptHash, Status, Map }

pub const RECORDS: [&str; 5] = ["StoredStatus", "StoredPointHeader", "StoredManifest", "StoredObject", "RepositoryState"];

pub fn grammar(rec: &str) -> Vec<(&'static str, Ty)> {
    match rec {
        "StoredStatus" => vec![("version", Ty::Ver(0)), ("last_update", Ty::Time)],
        "StoredPointHeader" => vec![("version", Ty::Ver(2)), ("manifest_uri", Ty::Rsync), ("rpki_notify", Ty::OptHttps),
                                    ("update_status", Ty::Status)],
        "StoredManifest" => vec![("not_after", Ty::Time), ("manifest_number", Ty::Serial), ("this_update", Ty::Time),
                                 ("ca_repository", Ty::Rsync), ("manifest", Ty::Bytes), ("crl_uri", Ty::Rsync), ("crl", Ty::Bytes)],
        "StoredObject" => vec![("uri", Ty::Rsync), ("hash", Ty::OptHash), ("content", Ty::Bytes)],
        "RepositoryState" => vec![("version", Ty::Ver(1)), ("rpki_notify", Ty::Https), ("session", Ty::Uuid), ("serial", Ty::U64),
                                  ("updated_ts", Ty::I64), ("best_before_ts", Ty::I64), ("last_modified_ts", Ty::OptI64),
                                  ("etag", Ty::OptBytes), ("delta_state", Ty::Map)],
        _ => panic!("unknown record type {rec}"),
    }
}

pub fn prefix_w(t: Ty) -> usize {
    match t { Ty::Rsync | Ty::Https | Ty::OptHttps => 4, Ty::Bytes | Ty::OptBytes | Ty::Map => 8, _ => 0 }
}

/// A field value, independent of routinator's types.
#[derive(Clone, Debug, PartialEq)]
pub enum FV {
    Ver(u8), Time(i64, u32), Serial([u8; 20]), U64(u64), I64(i64), OptI64(Option<i64>), Uuid([u8; 16]),
    Uri(Vec<u8>), OptUri(Option<Vec<u8>>), Bytes(Vec<u8>), OptBytes(Option<Vec<u8>>), OptHash(Option<[u8; 32]>),
    Status(u8, i64, u32), Map(Vec<(u64, [u8; 32])>),
}

pub const TMAX: i64 = 8210266876799;
pub const TMIN: i64 = -8334601228800;
pub const T_SUB: i64 = 1790000000;

pub fn hash_a() -> [u8; 32] { let mut h = [0u8; 32]; for i in 1..=32usize { h[i - 1] = ((i * 7) % 256) as u8 } h }
pub fn hash_b() -> [u8; 32] { [255u8; 32] }
fn b_short() -> Vec<u8> { vec![255, 0, 1, 128, 10] }
fn b_long() -> Vec<u8> { (1..=40usize).map(|i| ((i * 13) % 256) as u8).collect() }

fn long_uri(scheme: &str, n: usize) -> Vec<u8> {
    let mut s = format!("{scheme}://long.example.net/module");
    let mut i = 0;
    while s.len() + 10 < n { s.push('/'); s.push_str(&format!("seg{i:05}~")); for _ in 0..180 { if s.len() + 10 < n { s.push('a') } } i += 1; }
    s.push_str("/file.roa");
    s.into_bytes()
}

fn time_class(c: &str) -> (i64, u32) {
    match c {
        "t_sub" => (T_SUB, 500_000_000), "epoch" => (0, 0), "one" => (1, 0), "neg1" => (-1, 0),
        "max" => (TMAX, 999_999_999), "min" => (TMIN, 0),
        _ => panic!("time class {c}"),
    }
}

fn https_class(c: &str, inflate: bool) -> Vec<u8> {
    match c {
        "min" => b"https://a/n.xml".to_vec(), "bare" => b"https://".to_vec(),
        "odd" => b"HTTPS://h.x:8443/~u/%7e;p=1/!$&'()*+,".to_vec(),
        "long" => if inflate { long_uri("https", 70_000) } else { b"https://rrdp.long.example.net/rrdp/notification.xml".to_vec() },
        _ => panic!("https class {c}"),
    }
}

/// The representative of a value class.  `inflate`: a large representative
/// for the classes that have one (long URIs, long contents, many map entries).
pub fn class_value(t: Ty, c: &str, inflate: bool) -> FV {
    match t {
        Ty::Ver(x) => FV::Ver(x),
        Ty::Time => { let (s, n) = time_class(c); FV::Time(s, n) }
        Ty::Serial => {
            let mut a = [0u8; 20];
            match c { "one" => a[19] = 1, "zero" => {}, "u64max" => for b in &mut a[12..] { *b = 255 },
                      "max" => { a = [255u8; 20]; a[0] = 127 }, _ => panic!("serial class {c}") }
            FV::Serial(a)
        }
        Ty::U64 => FV::U64(match c { "one" => 1, "zero" => 0, "max" => u64::MAX, _ => panic!("u64 class {c}") }),
        Ty::I64 => FV::I64(match c { "zero" => 0, "neg1" => -1, "min" => i64::MIN, "max" => i64::MAX, _ => panic!("i64 class {c}") }),
        Ty::OptI64 => FV::OptI64(match c { "none" => None, "s_zero" => Some(0), "s_neg1" => Some(-1), "s_min" => Some(i64::MIN),
                                           "s_max" => Some(i64::MAX), _ => panic!("opt_i64 class {c}") }),
        Ty::Uuid => FV::Uuid(match c { "nil" => [0; 16], "max" => [255; 16],
                                       "mixed" => { let mut u = [0u8; 16]; for i in 1..=16usize { u[i - 1] = (i * 15) as u8 } u }
                                       _ => panic!("uuid class {c}") }),
        Ty::Rsync => FV::Uri(match c {
            "min" => b"rsync://a/b/".to_vec(), "odd" => b"RsYnC://H.x:873/m_~!$/%41&'()*+,-.;=0/z".to_vec(),
            "long" => if inflate { long_uri("rsync", 70_000) } else { b"rsync://long.example.net/module/dir/file.roa".to_vec() },
            _ => panic!("rsync class {c}") }),
        Ty::Https => FV::Uri(https_class(c, inflate)),
        Ty::OptHttps => FV::OptUri(if c == "none" { None } else { Some(https_class(&c[2..], inflate)) }),
        Ty::Bytes => FV::Bytes(match c {
            "short" => b_short(), "empty" => vec![], "zero1" => vec![0],
            "long" => if inflate { (0..(1usize << 18)).map(|i| (i * 31 % 251) as u8).collect() } else { b_long() },
            _ => panic!("bytes class {c}") }),
        Ty::OptBytes => FV::OptBytes(match c {
            "none" => None, "s_etag" => Some(b"W/\"e-tag\"".to_vec()), "s_empty" => Some(vec![]),
            "s_bin" => Some(if inflate { (0..100_000usize).map(|i| (255 - i % 256) as u8).collect() } else { b_short() }),
            _ => panic!("opt_bytes class {c}") }),
        Ty::OptHash => FV::OptHash(match c { "none" => None, "some" => Some(hash_a()), _ => panic!("opt_hash class {c}") }),
        Ty::Status => {
            let (tag, tc) = c.split_once('_').expect("status class");
            let (s, n) = time_class(if tc == "sub" { "t_sub" } else { tc });
            FV::Status(if tag == "ok" { 0 } else { 1 }, s, n)
        }
        Ty::Map => FV::Map(match c {
            "m0" => vec![], "m1" => vec![(0, hash_a())],
            "m2" => if inflate { (0..1000u64).map(|i| (i.wrapping_mul(0x9E3779B97F4A7C15), { let mut h = hash_a(); h[0] = i as u8; h[1] = (i >> 8) as u8; h })).collect() }
                    else { vec![(1, hash_a()), (u64::MAX, hash_b())] },
            "m2r" => vec![(u64::MAX, hash_b()), (1, hash_a())],
            _ => panic!("map class {c}") }),
    }
}

/// Whether inflating changes the representative of this class.
pub fn inflatable(t: Ty, c: &str) -> bool {
    matches!((t, c), (Ty::Rsync, "long") | (Ty::Https, "long") | (Ty::OptHttps, "s_long") | (Ty::Bytes, "long")
                    | (Ty::OptBytes, "s_bin") | (Ty::Map, "m2"))
}

pub fn enc_field(v: &FV) -> Vec<u8> {
    let mut o = Vec::new();
    match v {
        FV::Ver(x) => o.push(*x),
        FV::Time(s, _) => o.extend_from_slice(&s.to_be_bytes()),
        FV::Serial(a) => o.extend_from_slice(a),
        FV::U64(x) => o.extend_from_slice(&x.to_be_bytes()),
        FV::I64(x) => o.extend_from_slice(&x.to_be_bytes()),
        FV::OptI64(None) => o.push(0),
        FV::OptI64(Some(x)) => { o.push(1); o.extend_from_slice(&x.to_be_bytes()) }
        FV::Uuid(u) => o.extend_from_slice(u),
        FV::Uri(u) | FV::OptUri(Some(u)) => { o.extend_from_slice(&(u.len() as u32).to_be_bytes()); o.extend_from_slice(u) }
        FV::OptUri(None) => o.extend_from_slice(&[0; 4]),
        FV::Bytes(b) | FV::OptBytes(Some(b)) => { o.extend_from_slice(&(b.len() as u64).to_be_bytes()); o.extend_from_slice(b) }
        FV::OptBytes(None) => o.extend_from_slice(&[255; 8]),
        FV::OptHash(None) => o.push(0),
        FV::OptHash(Some(h)) => { o.push(1); o.extend_from_slice(h) }
        FV::Status(t, s, _) => { o.push(*t); o.extend_from_slice(&s.to_be_bytes()) }
        FV::Map(m) => {
            o.extend_from_slice(&(m.len() as u64).to_be_bytes());
            for (k, h) in m { o.extend_from_slice(&k.to_be_bytes()); o.extend_from_slice(h) }
        }
    }
    o
}

pub fn encode(vals: &[FV]) -> (Vec<u8>, Vec<usize>) {
    let mut out = Vec::new();
    let mut offs = Vec::new();
    for v in vals { offs.push(out.len()); out.extend(enc_field(v)); }
    (out, offs)
}

pub fn values_of(rec: &str, cls: &[String], inflate: bool) -> Vec<FV> {
    grammar(rec).iter().zip(cls).map(|((_, t), c)| class_value(*t, c, inflate)).collect()
}

// ---------------------------------------------------------------------------
// the intended decoder (mirror of Step / ParseField of Codec.tla)

#[derive(Clone, Debug, PartialEq)]
pub struct Pred {
    /// "value" | "end" | "eof" | "format"
    pub outcome: &'static str,
    /// 1-based index of the field at which decoding stopped (n + 1 after a value)
    pub fi: usize,
    pub pos: usize,
    /// the decoder met a length / count prefix larger than what is left
    pub len_beyond: bool,
}

fn time_ok(s: i64) -> bool { use chrono::TimeZone; chrono::Utc.timestamp_opt(s, 0).single().is_some() }
fn rsync_ok(b: &[u8]) -> bool { rpki::uri::Rsync::from_slice(b).is_ok() }
fn https_ok(b: &[u8]) -> bool { rpki::uri::Https::from_slice(b).is_ok() }

pub fn mirror_decode(rec: &str, bs: &[u8]) -> Pred {
    let g = grammar(rec);
    let mut pos = 0usize;
    let n = g.len();
    macro_rules! stop { ($o:expr, $fi:expr, $lb:expr) => { return Pred { outcome: $o, fi: $fi, pos, len_beyond: $lb } } }
    for (i, (_, t)) in g.iter().enumerate() {
        let fi = i + 1;
        let eof = if rec == "StoredObject" && fi == 1 { "end" } else { "eof" };
        let has = |pos: usize, k: usize| pos + k <= bs.len();
        match *t {
            Ty::Ver(x) => { if !has(pos, 1) { stop!(eof, fi, false) } pos += 1; if bs[pos - 1] != x { stop!("format", fi, false) } }
            Ty::U64 | Ty::I64 => { if !has(pos, 8) { stop!(eof, fi, false) } pos += 8 }
            Ty::Uuid => { if !has(pos, 16) { stop!(eof, fi, false) } pos += 16 }
            Ty::Time => {
                if !has(pos, 8) { stop!(eof, fi, false) }
                let s = i64::from_be_bytes(bs[pos..pos + 8].try_into().unwrap()); pos += 8;
                if !time_ok(s) { stop!("format", fi, false) }
            }
            Ty::Serial => { if !has(pos, 20) { stop!(eof, fi, false) } pos += 20; if bs[pos - 20] >= 128 { stop!("format", fi, false) } }
            Ty::OptI64 => {
                if !has(pos, 1) { stop!(eof, fi, false) }
                let m = bs[pos]; pos += 1;
                if m == 1 { if !has(pos, 8) { stop!(eof, fi, false) } pos += 8 } else if m != 0 { stop!("format", fi, false) }
            }
            Ty::Rsync | Ty::Https | Ty::OptHttps => {
                if !has(pos, 4) { stop!(eof, fi, false) }
                let l = u32::from_be_bytes(bs[pos..pos + 4].try_into().unwrap()) as usize; pos += 4;
                if t == &Ty::OptHttps && l == 0 { continue }
                if l > bs.len() - pos { stop!(eof, fi, true) }
                let body = &bs[pos..pos + l]; pos += l;
                let ok = if *t == Ty::Rsync { rsync_ok(body) } else { https_ok(body) };
                if !ok { stop!("format", fi, false) }
            }
            Ty::Bytes | Ty::OptBytes => {
                if !has(pos, 8) { stop!(eof, fi, false) }
                let l = u64::from_be_bytes(bs[pos..pos + 8].try_into().unwrap()); pos += 8;
                if *t == Ty::OptBytes && l == u64::MAX { continue }
                if l > (bs.len() - pos) as u64 { stop!(eof, fi, true) }
                pos += l as usize;
            }
            Ty::OptHash => {
                if !has(pos, 1) { stop!(eof, fi, false) }
                let m = bs[pos]; pos += 1;
                if m == 1 { if !has(pos, 32) { stop!(eof, fi, false) } pos += 32 } else if m != 0 { stop!("format", fi, false) }
            }
            Ty::Status => {
                if !has(pos, 1) { stop!(eof, fi, false) }
                let m = bs[pos]; pos += 1;
                if m > 1 { stop!("format", fi, false) }
                if !has(pos, 8) { stop!(eof, fi, false) }
                let s = i64::from_be_bytes(bs[pos..pos + 8].try_into().unwrap()); pos += 8;
                if !time_ok(s) { stop!("format", fi, false) }
            }
            Ty::Map => {
                if !has(pos, 8) { stop!(eof, fi, false) }
                let cnt = u64::from_be_bytes(bs[pos..pos + 8].try_into().unwrap()); pos += 8;
                let beyond = cnt > ((bs.len() - pos) / 40) as u64;
                let mut keys = std::collections::HashSet::new();
                let mut k = 0u64;
                while k < cnt {
                    if !has(pos, 40) { stop!(eof, fi, beyond) }
                    let key = u64::from_be_bytes(bs[pos..pos + 8].try_into().unwrap()); pos += 40;
                    if !keys.insert(key) { stop!("format", fi, beyond) }
                    k += 1;
                }
            }
        }
    }
    Pred { outcome: "value", fi: n + 1, pos, len_beyond: false }
}

// ---------------------------------------------------------------------------
// corruptions

#[derive(Clone, Debug)]
pub struct Corr { pub k: String, pub f: usize, pub how: String, pub at: usize, pub by: Vec<u8>, pub cut: i64 }

impl Corr {
    pub fn none() -> Self { Corr { k: "none".into(), f: 0, how: String::new(), at: 0, by: vec![], cut: -1 } }
    pub fn from_json(v: &Value) -> Self {
        Corr {
            k: v["k"].as_str().unwrap().to_string(), f: v["f"].as_u64().unwrap() as usize,
            how: v["how"].as_str().unwrap().to_string(), at: v["at"].as_u64().unwrap() as usize,
            by: bytes_of(&v["by"]), cut: v["cut"].as_i64().unwrap(),
        }
    }
    pub fn apply(&self, enc: &[u8]) -> Vec<u8> {
        if self.k == "raw" { return self.by.clone() }
        let mut o = enc.to_vec();
        for (i, b) in self.by.iter().enumerate() { if self.at + i < o.len() { o[self.at + i] = *b } }
        if self.cut >= 0 { o.truncate(self.cut as usize) }
        o
    }
    pub fn label(&self) -> String {
        format!("{}{}{}", self.k, if self.how.is_empty() { String::new() } else { format!(":{}", self.how) },
                if self.f > 0 { format!("@f{}", self.f) } else if self.k == "raw" { String::new() } else { format!("@{}", if self.cut >= 0 && self.by.is_empty() { self.cut as usize } else { self.at }) })
    }
}

pub fn bytes_of(v: &Value) -> Vec<u8> {
    v.as_array().map(|a| a.iter().map(|x| x.as_u64().unwrap() as u8).collect()).unwrap_or_default()
}

/// The harness' own corruption set for an arbitrary (large) valid encoding:
/// the operators of Codec.tla instantiated on the real layout.
pub fn corruptions_for(rec: &str, vals: &[FV], enc: &[u8], offs: &[usize]) -> Vec<Corr> {
    let g = grammar(rec);
    let mut out = Vec::new();
    let total = enc.len();
    let mk = |k: &str, f: usize, how: &str, at: usize, by: Vec<u8>, cut: i64| Corr { k: k.into(), f, how: how.into(), at, by, cut };
    let mut cuts = std::collections::BTreeSet::new();
    for (i, (_, t)) in g.iter().enumerate() {
        let off = offs[i];
        let end = if i + 1 < offs.len() { offs[i + 1] } else { total };
        let w = prefix_w(*t);
        for c in [off, off + 1, off + w / 2, off + w, off + w + 1, (off + w + end) / 2, end.saturating_sub(1)] { if c < total { cuts.insert(c); } }
        if w > 0 {
            let len: u64 = match &vals[i] {
                FV::Uri(u) | FV::OptUri(Some(u)) => u.len() as u64, FV::Bytes(b) | FV::OptBytes(Some(b)) => b.len() as u64,
                FV::Map(m) => m.len() as u64, _ => 0 };
            let rem = (total - off - w) as u64;
            let be = |x: u64| -> Vec<u8> { if w == 4 { (x as u32).to_be_bytes().to_vec() } else { x.to_be_bytes().to_vec() } };
            let mut cl: Vec<(&str, u64)> = vec![("len+1", len + 1), ("rem+1", rem + 1), ("2^31", 1 << 31), ("2^32-1", (1u64 << 32) - 1)];
            if len > 0 { cl.push(("0", 0)); cl.push(("len-1", len - 1)); }
            if w == 8 { cl.extend([("2^40", 1u64 << 40), ("2^58", 1 << 58), ("2^63", 1 << 63), ("2^64-1", u64::MAX)]); }
            for (how, x) in cl { out.push(mk("setlen", i + 1, how, off, be(x), -1)); }
        }
        if matches!(t, Ty::Ver(_) | Ty::OptI64 | Ty::OptHash | Ty::Status) {
            for b in [0u8, 1, 2, 3, 255] { if enc[off] != b { out.push(mk("settag", i + 1, "", off, vec![b], -1)); } }
        }
        if matches!(t, Ty::Rsync | Ty::Https | Ty::OptHttps) && end - off > 4 {
            out.push(mk("content", i + 1, "uri-space", end - 1, vec![32], -1));
            out.push(mk("content", i + 1, "uri-8bit", (off + 4 + end) / 2, vec![200], -1));
            out.push(mk("content", i + 1, "uri-scheme", off + 4, vec![120], -1));
            if *t == Ty::Rsync { out.push(mk("content", i + 1, "uri-dotdot", end - 3, vec![47, 46, 46], -1)); }
        }
        if matches!(t, Ty::Time | Ty::Status) {
            let toff = if *t == Ty::Status { off + 1 } else { off };
            out.push(mk("content", i + 1, "time-i64min", toff, i64::MIN.to_be_bytes().to_vec(), -1));
            out.push(mk("content", i + 1, "time-max+1", toff, (TMAX + 1).to_be_bytes().to_vec(), -1));
        }
        if *t == Ty::Serial { out.push(mk("content", i + 1, "serial-negative", off, vec![128], -1)); }
    }
    for c in cuts { out.push(mk("trunc", 0, "", 0, vec![], c as i64)); }
    // bit flips in every prefix / tag byte and at a few places of the bodies
    for (i, (_, t)) in g.iter().enumerate() {
        let off = offs[i];
        let end = if i + 1 < offs.len() { offs[i + 1] } else { total };
        let w = prefix_w(*t).max(1);
        for at in (off..(off + w).min(end)).chain([(off + end) / 2, end - 1]) {
            if at < total { for bit in [0u8, 7] { out.push(mk("flip", 0, "", at, vec![enc[at] ^ (1 << bit)], -1)); } }
        }
    }
    out
}

pub fn hex(b: &[u8]) -> String {
    const H: &[u8; 16] = b"0123456789abcdef";
    let mut s = String::with_capacity(b.len() * 2 + 1);
    if b.is_empty() { s.push('-'); return s }
    for x in b { s.push(H[(x >> 4) as usize] as char); s.push(H[(x & 15) as usize] as char); }
    s
}

pub fn unhex(s: &str) -> Vec<u8> {
    if s == "-" { return vec![] }
    let b = s.as_bytes();
    let d = |c: u8| -> u8 { if c <= b'9' { c - b'0' } else { c - b'a' + 10 } };
    (0..b.len() / 2).map(|i| (d(b[2 * i]) << 4) | d(b[2 * i + 1])).collect()
}

/// Parses a *valid* encoding generically: field values, field offsets, end.
pub fn parse_values(rec: &str, bs: &[u8]) -> Option<(Vec<FV>, Vec<usize>, usize)> {
    let g = grammar(rec);
    let mut pos = 0usize;
    let mut vals = Vec::new();
    let mut offs = Vec::new();
    let take = |pos: &mut usize, n: usize| -> Option<&[u8]> { if *pos + n > bs.len() { return None } let s = &bs[*pos..*pos + n]; *pos += n; Some(s) };
    for (_, t) in g.iter() {
        offs.push(pos);
        let v = match *t {
            Ty::Ver(_) => FV::Ver(take(&mut pos, 1)?[0]),
            Ty::U64 => FV::U64(u64::from_be_bytes(take(&mut pos, 8)?.try_into().ok()?)),
            Ty::I64 => FV::I64(i64::from_be_bytes(take(&mut pos, 8)?.try_into().ok()?)),
            Ty::Time => FV::Time(i64::from_be_bytes(take(&mut pos, 8)?.try_into().ok()?), 0),
            Ty::Uuid => FV::Uuid(take(&mut pos, 16)?.try_into().ok()?),
            Ty::Serial => FV::Serial(take(&mut pos, 20)?.try_into().ok()?),
            Ty::OptI64 => { let m = take(&mut pos, 1)?[0]; if m == 0 { FV::OptI64(None) } else { FV::OptI64(Some(i64::from_be_bytes(take(&mut pos, 8)?.try_into().ok()?))) } }
            Ty::Rsync | Ty::Https => { let l = u32::from_be_bytes(take(&mut pos, 4)?.try_into().ok()?) as usize; FV::Uri(take(&mut pos, l)?.to_vec()) }
            Ty::OptHttps => { let l = u32::from_be_bytes(take(&mut pos, 4)?.try_into().ok()?) as usize; if l == 0 { FV::OptUri(None) } else { FV::OptUri(Some(take(&mut pos, l)?.to_vec())) } }
            Ty::Bytes => { let l = u64::from_be_bytes(take(&mut pos, 8)?.try_into().ok()?) as usize; FV::Bytes(take(&mut pos, l)?.to_vec()) }
            Ty::OptBytes => { let l = u64::from_be_bytes(take(&mut pos, 8)?.try_into().ok()?); if l == u64::MAX { FV::OptBytes(None) } else { FV::OptBytes(Some(take(&mut pos, l as usize)?.to_vec())) } }
            Ty::OptHash => { let m = take(&mut pos, 1)?[0]; if m == 0 { FV::OptHash(None) } else { FV::OptHash(Some(take(&mut pos, 32)?.try_into().ok()?)) } }
            Ty::Status => { let m = take(&mut pos, 1)?[0]; FV::Status(m, i64::from_be_bytes(take(&mut pos, 8)?.try_into().ok()?), 0) }
            Ty::Map => {
                let n = u64::from_be_bytes(take(&mut pos, 8)?.try_into().ok()?);
                let mut m = Vec::new();
                for _ in 0..n { let k = u64::from_be_bytes(take(&mut pos, 8)?.try_into().ok()?); m.push((k, take(&mut pos, 32)?.try_into().ok()?)); }
                FV::Map(m)
            }
        };
        vals.push(v);
    }
    Some((vals, offs, pos))
}

/// The intended decoder over a stored publication point file (header,
/// manifest if the header says "success", objects until the end): the record
/// at which reading stops and how.
pub fn mirror_file(data: &[u8]) -> (&'static str, Pred) {
    let h = mirror_decode("StoredPointHeader", data);
    if h.outcome != "value" { return ("StoredPointHeader", h) }
    let mut pos = h.pos;
    // update status tag: 9 bytes before the end of the header
    if data[pos - 9] == 1 { return ("StoredPointHeader", h) }
    let m = mirror_decode("StoredManifest", &data[pos..]);
    if m.outcome != "value" { return ("StoredManifest", m) }
    pos += m.pos;
    loop {
        let o = mirror_decode("StoredObject", &data[pos..]);
        if o.outcome != "value" { return ("StoredObject", o) }
        pos += o.pos;
    }
}
