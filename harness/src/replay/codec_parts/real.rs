//! Binding of the model's field values to routinator's real record types:
//! construction, the real `write` / `read`, and field-by-field comparison.

use std::collections::HashMap;
use bytes::Bytes;
use chrono::{TimeZone, Utc};
use rpki::crypto::DigestAlgorithm;
use rpki::repository::manifest::ManifestHash;
use rpki::repository::x509::{Serial, Time};
use rpki::{rrdp, uri};
use routinator::collector::RepositoryState;
use routinator::store::{StoredManifest, StoredObject, StoredPointHeader, StoredStatus};
use uuid::Uuid;
use super::model::{encode, FV};

#[derive(Clone, Debug)]
pub enum Real {
    Status(StoredStatus),
    Header(StoredPointHeader),
    Manifest(StoredManifest),
    Object(StoredObject),
    State(RepositoryState),
}

fn time(s: i64, n: u32) -> Result<Time, String> {
    Utc.timestamp_opt(s, n).single().map(Time::new).ok_or_else(|| format!("time {s}.{n} not representable"))
}
fn rsync(b: &[u8]) -> Result<uri::Rsync, String> { uri::Rsync::from_slice(b).map_err(|e| format!("rsync uri: {e}")) }
fn https(b: &[u8]) -> Result<uri::Https, String> { uri::Https::from_slice(b).map_err(|e| format!("https uri: {e}")) }

/// Builds the real value from field values (public constructors / fields).
/// The stored point header has private fields and only `new` (status
/// "last attempt now"): it is obtained by reading the generic encoding.
pub fn build(rec: &str, v: &[FV]) -> Result<Real, String> {
    Ok(match (rec, v) {
        ("StoredStatus", [_, FV::Time(s, n)]) => Real::Status(StoredStatus::new(time(*s, *n)?)),
        ("StoredPointHeader", _) => {
            let (bytes, _) = encode(v);
            let mut r: &[u8] = &bytes;
            let h = StoredPointHeader::read(&mut r).map_err(|e| format!("header from generic encoding: {e}"))?;
            if !r.is_empty() { return Err("header from generic encoding: bytes left".into()) }
            Real::Header(h)
        }
        ("StoredManifest", [FV::Time(s1, n1), FV::Serial(ser), FV::Time(s2, n2), FV::Uri(ca), FV::Bytes(m), FV::Uri(cu), FV::Bytes(crl)]) =>
            Real::Manifest(StoredManifest {
                not_after: time(*s1, *n1)?, manifest_number: Serial::from_array(*ser).map_err(|e| e.to_string())?,
                this_update: time(*s2, *n2)?, ca_repository: rsync(ca)?, manifest: Bytes::copy_from_slice(m),
                crl_uri: rsync(cu)?, crl: Bytes::copy_from_slice(crl),
            }),
        ("StoredObject", [FV::Uri(u), FV::OptHash(h), FV::Bytes(c)]) =>
            Real::Object(StoredObject::new(rsync(u)?, Bytes::copy_from_slice(c),
                h.map(|h| ManifestHash::new(Bytes::copy_from_slice(&h), DigestAlgorithm::sha256())))),
        ("RepositoryState", [_, FV::Uri(u), FV::Uuid(id), FV::U64(ser), FV::I64(up), FV::I64(bb), FV::OptI64(lm), FV::OptBytes(et), FV::Map(m)]) =>
            Real::State(RepositoryState {
                rpki_notify: https(u)?, session: Uuid::from_bytes(*id), serial: *ser, updated_ts: *up, best_before_ts: *bb,
                last_modified_ts: *lm, etag: et.as_ref().map(|e| Bytes::copy_from_slice(e)),
                delta_state: m.iter().map(|(k, h)| (*k, rrdp::Hash::from(*h))).collect::<HashMap<_, _>>(),
            }),
        _ => return Err(format!("field values do not fit record type {rec}")),
    })
}

/// The real encoder.
pub fn write(v: &Real) -> Result<Vec<u8>, String> {
    let mut out = Vec::new();
    match v {
        Real::Status(x) => x.write(&mut out),
        Real::Header(x) => x.write(&mut out),
        Real::Manifest(x) => x.write(&mut out),
        Real::Object(x) => x.write(&mut out),
        Real::State(x) => x.verif_compose(&mut out),
    }.map_err(|e| format!("write failed: {e}"))?;
    Ok(out)
}

/// Outcome of the real decoder on some bytes.
pub struct Decoded {
    /// "value" | "end" | "eof" | "format" | "fatal"
    pub outcome: &'static str,
    pub consumed: usize,
    pub value: Option<Real>,
    pub detail: String,
}

fn perr(e: routinator::utils::binio::ParseError) -> (&'static str, String) {
    (if e.is_eof() { "eof" } else if e.is_fatal() { "fatal" } else { "format" }, e.to_string())
}

/// The real decoder.
/// A reader that hands out the bytes in pieces (`Read::read` may return less than asked for: a `BufReader` at the end of
/// its buffer, a pipe): the piece sizes cycle through `pieces`.
pub struct Pieces<'a> { data: &'a [u8], pos: usize, pieces: &'a [usize], turn: usize }

impl<'a> Pieces<'a> {
    pub fn new(data: &'a [u8], pieces: &'a [usize]) -> Self { Pieces { data, pos: 0, pieces, turn: 0 } }
}

impl std::io::Read for Pieces<'_> {
    fn read(&mut self, buf: &mut [u8]) -> std::io::Result<usize> {
        let n = self.pieces[self.turn % self.pieces.len()].min(buf.len()).min(self.data.len() - self.pos);
        self.turn += 1;
        buf[..n].copy_from_slice(&self.data[self.pos..self.pos + n]);
        self.pos += n;
        Ok(n)
    }
}

/// `read` through a reader handing out the input in pieces.
pub fn read_in_pieces(rec: &str, inp: &[u8], pieces: &[usize]) -> Decoded {
    let mut r = Pieces::new(inp, pieces);
    let res: Result<Option<Real>, (&'static str, String)> = match rec {
        "StoredStatus" => StoredStatus::read(&mut r).map(|x| Some(Real::Status(x))).map_err(perr),
        "StoredPointHeader" => StoredPointHeader::read(&mut r).map(|x| Some(Real::Header(x))).map_err(perr),
        "StoredManifest" => StoredManifest::read(&mut r).map(|x| Some(Real::Manifest(x))).map_err(perr),
        "StoredObject" => StoredObject::read(&mut r).map(|x| x.map(Real::Object)).map_err(perr),
        "RepositoryState" => RepositoryState::verif_parse(&mut r).map(|x| Some(Real::State(x))).map_err(|e| {
            (if e.kind() == std::io::ErrorKind::UnexpectedEof { "eof" } else { "format" }, e.to_string())
        }),
        _ => panic!("unknown record type {rec}"),
    };
    let consumed = r.pos;
    match res {
        Ok(Some(v)) => Decoded { outcome: "value", consumed, value: Some(v), detail: String::new() },
        Ok(None) => Decoded { outcome: "end", consumed, value: None, detail: String::new() },
        Err((o, d)) => Decoded { outcome: o, consumed, value: None, detail: d },
    }
}

pub fn read(rec: &str, inp: &[u8]) -> Decoded {
    let mut r: &[u8] = inp;
    let res: Result<Option<Real>, (&'static str, String)> = match rec {
        "StoredStatus" => StoredStatus::read(&mut r).map(|x| Some(Real::Status(x))).map_err(perr),
        "StoredPointHeader" => StoredPointHeader::read(&mut r).map(|x| Some(Real::Header(x))).map_err(perr),
        "StoredManifest" => StoredManifest::read(&mut r).map(|x| Some(Real::Manifest(x))).map_err(perr),
        "StoredObject" => StoredObject::read(&mut r).map(|x| x.map(Real::Object)).map_err(perr),
        "RepositoryState" => RepositoryState::verif_parse(&mut r).map(|x| Some(Real::State(x))).map_err(|e| {
            (if e.kind() == std::io::ErrorKind::UnexpectedEof { "eof" } else { "format" }, e.to_string())
        }),
        _ => panic!("unknown record type {rec}"),
    };
    let consumed = inp.len() - r.len();
    match res {
        Ok(Some(v)) => Decoded { outcome: "value", consumed, value: Some(v), detail: String::new() },
        Ok(None) => Decoded { outcome: "end", consumed, value: None, detail: String::new() },
        Err((o, d)) => Decoded { outcome: o, consumed, value: None, detail: d },
    }
}

/// Field-by-field comparison "reads back as written".  Times are compared at
/// the format's resolution of one second; everything else must be identical.
/// Ok(exact): equal; exact = also equal under the type's own `==` (false
/// only when a sub-second part was dropped).
pub fn same(a: &Real, b: &Real) -> Result<bool, String> {
    fn t(name: &str, x: Time, y: Time) -> Result<bool, String> {
        if x.timestamp() != y.timestamp() { return Err(format!("{name}: {} != {}", x.timestamp(), y.timestamp())) }
        Ok(x == y)
    }
    fn f<T: PartialEq + std::fmt::Debug>(name: &str, x: &T, y: &T) -> Result<(), String> {
        if x != y { Err(format!("{name}: written {:.200?}, read back {:.200?}", format!("{x:?}"), format!("{y:?}"))) } else { Ok(()) }
    }
    match (a, b) {
        (Real::Status(x), Real::Status(y)) => t("last_update", x.last_update, y.last_update),
        (Real::Header(x), Real::Header(y)) => {
            if x == y { return Ok(true) }
            // no field access: equal at the format's resolution iff both encode alike
            let (wx, wy) = (write(a)?, write(b)?);
            if wx != wy { return Err(format!("header: written {x:?}, read back {y:?}")) }
            Ok(false)
        }
        (Real::Manifest(x), Real::Manifest(y)) => {
            let e1 = t("not_after", x.not_after, y.not_after)?;
            f("manifest_number", &x.manifest_number, &y.manifest_number)?;
            let e2 = t("this_update", x.this_update, y.this_update)?;
            f("ca_repository", &x.ca_repository.as_slice(), &y.ca_repository.as_slice())?;
            f("ca_repository(eq)", &x.ca_repository, &y.ca_repository)?;
            f("manifest", &x.manifest, &y.manifest)?;
            f("crl_uri", &x.crl_uri.as_slice(), &y.crl_uri.as_slice())?;
            f("crl", &x.crl, &y.crl)?;
            Ok(e1 && e2)
        }
        (Real::Object(x), Real::Object(y)) => {
            f("uri", &x.uri.as_slice(), &y.uri.as_slice())?;
            f("uri(eq)", &x.uri, &y.uri)?;
            f("hash", &x.hash, &y.hash)?;
            f("content", &x.content, &y.content)?;
            Ok(true)
        }
        (Real::State(x), Real::State(y)) => {
            f("rpki_notify", &x.rpki_notify.as_slice(), &y.rpki_notify.as_slice())?;
            f("session", &x.session, &y.session)?;
            f("serial", &x.serial, &y.serial)?;
            f("updated_ts", &x.updated_ts, &y.updated_ts)?;
            f("best_before_ts", &x.best_before_ts, &y.best_before_ts)?;
            f("last_modified_ts", &x.last_modified_ts, &y.last_modified_ts)?;
            f("etag", &x.etag, &y.etag)?;
            f("delta_state", &x.delta_state, &y.delta_state)?;
            f("whole", x, y)?;
            Ok(true)
        }
        _ => Err("record types differ".into()),
    }
}
