//! Replay of `Gen_Archive` behaviours against `routinator::utils::archive::Archive<Meta>`
//! (property C26).
//!
//! A behaviour is a sequence of operations (publish / update / delete / fetch /
//! fetch_if / reopen) on a freshly created archive in a temp file, with, per
//! step, the result a map gives, the abstract map afterwards and the block
//! layout the specification expects.
//!
//! Concretisation:
//! * model names -> real names that hash (SipHash-2-4 with the archive's own
//!   random key, read from the file) into one real bucket iff the model puts
//!   them into one bucket;
//! * model lengths (units, page = `c.page` units) -> byte counts with the same
//!   number of 256-byte pages and the same fill class: exactly full, one byte
//!   short, one byte over ("tight" dictionary) or somewhere inside / empty
//!   data ("loose" dictionary);
//! * data bytes are fresh for every write (derived from the seed, behaviour
//!   and step number), so stale content is visible.
//!
//! Oracle (property level, independent of the model's layout): every result
//! equals what a map from names to (meta, data) gives; after every step
//! `verify()` succeeds, the file read front to back is a gap-free sequence of
//! blocks from the end of the index to the end of the file, the blocks reached
//! by `verify()` are exactly those blocks, the stored objects (`objects()`,
//! `fetch`, `fetch_if`) are exactly the map, duplicate publishes / operations
//! on missing names / rejecting checks are reported as such and change
//! nothing.  Differences to the model's layout or statistics are divergences.

use std::cell::Cell;
use std::collections::BTreeMap;
use std::path::{Path, PathBuf};
use serde_json::{json, Value};
use routinator::utils::archive::{
    AccessError, Archive, ArchiveError, FetchError, ObjectMeta, PublishError, StorageRead, StorageWrite,
};
use crate::common::{catch, read_behaviours, Args, Report, Rng};

const PID: &str = "C26";

/// Real layout constants of archive.rs (pinned tree): page size, object
/// header size, end of magic + archive meta + index.
const REAL_PAGE: u64 = 256;
const REAL_HEADER: u64 = 33;
const REAL_BUCKETS: u64 = 1024;
const REAL_INDEX_END: u64 = 6 + 24 + (REAL_BUCKETS + 1) * 8;
const META_BASE: u32 = 0xA5C3_0000;

//------------ Meta -----------------------------------------------------------

#[derive(Clone, Copy, Debug, PartialEq, Eq)]
pub struct Meta(pub u32);

impl ObjectMeta for Meta {
    const SIZE: usize = 4;
    type ConsistencyError = u32;

    fn write(&self, write: &mut StorageWrite) -> Result<(), ArchiveError> {
        write.write(&self.0.to_ne_bytes())
    }

    fn read(read: &mut StorageRead) -> Result<Self, ArchiveError> {
        Ok(Meta(u32::from_ne_bytes(read.read_array()?)))
    }
}

//------------ SipHash-2-4 ----------------------------------------------------

/// SipHash-2-4 as used by `ArchiveMeta::hash_name` (`SipHasher24::new_with_key`).
pub fn siphash24(key: &[u8; 16], data: &[u8]) -> u64 {
    let k0 = u64::from_le_bytes(key[0..8].try_into().unwrap());
    let k1 = u64::from_le_bytes(key[8..16].try_into().unwrap());
    let mut v0 = k0 ^ 0x736f6d6570736575;
    let mut v1 = k1 ^ 0x646f72616e646f6d;
    let mut v2 = k0 ^ 0x6c7967656e657261;
    let mut v3 = k1 ^ 0x7465646279746573;
    macro_rules! round { () => {{
        v0 = v0.wrapping_add(v1); v1 = v1.rotate_left(13); v1 ^= v0; v0 = v0.rotate_left(32);
        v2 = v2.wrapping_add(v3); v3 = v3.rotate_left(16); v3 ^= v2;
        v0 = v0.wrapping_add(v3); v3 = v3.rotate_left(21); v3 ^= v0;
        v2 = v2.wrapping_add(v1); v1 = v1.rotate_left(17); v1 ^= v2; v2 = v2.rotate_left(32);
    }} }
    let mut chunks = data.chunks_exact(8);
    for c in &mut chunks {
        let m = u64::from_le_bytes(c.try_into().unwrap());
        v3 ^= m; round!(); round!(); v0 ^= m;
    }
    let rem = chunks.remainder();
    let mut last = [0u8; 8];
    last[..rem.len()].copy_from_slice(rem);
    last[7] = data.len() as u8;
    let m = u64::from_le_bytes(last);
    v3 ^= m; round!(); round!(); v0 ^= m;
    v2 ^= 0xff;
    round!(); round!(); round!(); round!();
    v0 ^ v1 ^ v2 ^ v3
}

fn real_bucket(key: &[u8; 16], name: &[u8]) -> u64 { siphash24(key, name) % REAL_BUCKETS }

//------------ Model constants of a behaviour ----------------------------------

#[derive(Clone, Debug)]
struct ModelCfg {
    page: i64,
    header: i64,
    namemeta: i64,
    index_end: i64,
    buckets: BTreeMap<String, i64>,
    /// Names the specification calls long (Archive.tla, LongNames): they get more bytes.
    long: BTreeMap<String, bool>,
}

impl ModelCfg {
    fn from_json(v: &Value) -> Self {
        let c = &v["c"];
        ModelCfg {
            page: c["page"].as_i64().expect("c.page"),
            header: c["header"].as_i64().expect("c.header"),
            namemeta: c["namemeta"].as_i64().expect("c.namemeta"),
            index_end: c["indexend"].as_i64().expect("c.indexend"),
            buckets: c["buckets"].as_object().expect("c.buckets").iter()
                .map(|(k, v)| (k.clone(), v.as_i64().unwrap())).collect(),
            long: c["long"].as_object().map(|m| m.iter().map(|(k, v)| (k.clone(), v.as_bool().unwrap_or(false))).collect())
                .unwrap_or_default(),
        }
    }

    fn pages(&self, len: i64) -> i64 {
        let t = self.header + self.namemeta + len;
        (t + self.page - 1) / self.page
    }
}

/// Byte count for a model length: same page count, same fill class.
fn concrete_len(c: &ModelCfg, len: i64, name_len: usize, loose: bool, rng: &mut Rng) -> usize {
    let overhead = REAL_HEADER + name_len as u64 + Meta::SIZE as u64;
    let t = c.header + c.namemeta + len;
    let p = c.pages(len) as u64;
    let fill = t - c.page * (p as i64 - 1);            // 1..=page
    let lo = REAL_PAGE * (p - 1) + 1;                  // smallest total with p pages
    let hi = REAL_PAGE * p;                            // largest
    let min_total = if p == 1 { overhead } else { lo };
    let total = if fill == c.page {
        hi
    } else if loose {
        // anywhere strictly inside the page range; empty data now and then
        if p == 1 && rng.below(3) == 0 { overhead }
        else { min_total.max(lo + 1) + rng.below(hi - 1 - min_total.max(lo + 1)) }
    } else if fill == c.page - 1 {
        hi - 1
    } else if fill == 1 {
        lo
    } else {
        lo + REAL_PAGE / 2 - 1
    };
    (total.max(min_total) - overhead) as usize
}

//------------ Reading the file front to back ----------------------------------

#[derive(Clone, Debug, PartialEq)]
struct RawBlock {
    start: u64,
    size: u64,
    empty: bool,
    name: Vec<u8>,
    data_len: u64,
}

fn raw_walk(bytes: &[u8]) -> Result<Vec<RawBlock>, String> {
    let len = bytes.len() as u64;
    if len < REAL_INDEX_END { return Err(format!("file of {len} bytes is shorter than header and index")) }
    let u64_at = |p: u64| u64::from_ne_bytes(bytes[p as usize..p as usize + 8].try_into().unwrap());
    let mut pos = REAL_INDEX_END;
    let mut res = Vec::new();
    while pos < len {
        if pos + REAL_HEADER > len {
            return Err(format!("block header at {pos} crosses the end of the file ({len})"))
        }
        let size = u64_at(pos);
        let flag = bytes[pos as usize + 16];
        let name_len = u64_at(pos + 17);
        let data_len = u64_at(pos + 25);
        if flag > 1 { return Err(format!("block at {pos}: empty flag {flag}")) }
        if size < REAL_HEADER || pos.checked_add(size).map(|e| e > len).unwrap_or(true) {
            return Err(format!("block at {pos} has size {size}, file ends at {len}"))
        }
        let empty = flag == 1;
        let mut name = Vec::new();
        if !empty {
            let need = REAL_HEADER.saturating_add(name_len).saturating_add(Meta::SIZE as u64).saturating_add(data_len);
            if need > size {
                return Err(format!("object at {pos} needs {need} bytes but its block has {size}"))
            }
            name = bytes[(pos + REAL_HEADER) as usize..(pos + REAL_HEADER + name_len) as usize].to_vec();
        }
        res.push(RawBlock { start: pos, size, empty, name, data_len: if empty { 0 } else { data_len } });
        pos += size;
    }
    Ok(res)
}

//------------ Results ----------------------------------------------------------

#[derive(Clone, Debug, PartialEq)]
enum Res {
    Ok,
    Exists,
    NotFound,
    Inconsistent,
    Data(Vec<u8>),
    Reopened,
    Failed(String),
    Panic(String),
}

impl Res {
    fn tag(&self) -> String {
        match self {
            Res::Ok => "ok".into(),
            Res::Exists => "exists".into(),
            Res::NotFound => "notfound".into(),
            Res::Inconsistent => "inconsistent".into(),
            Res::Data(_) => "data".into(),
            Res::Reopened => "reopened".into(),
            Res::Failed(m) => format!("error({})", m.split(':').next().unwrap_or("")),
            Res::Panic(_) => "panic".into(),
        }
    }

    fn show(&self) -> Value {
        match self {
            Res::Data(d) => json!({"data_len": d.len(), "data_head": hex(&d[..d.len().min(8)])}),
            Res::Failed(m) => json!({"error": m}),
            Res::Panic(m) => json!({"panic": m}),
            x => json!(x.tag()),
        }
    }
}

fn hex(b: &[u8]) -> String { b.iter().map(|x| format!("{x:02x}")).collect() }

fn arch_err(e: ArchiveError) -> Res { Res::Failed(format!("{e}")) }

fn flat<T>(r: Result<T, String>, f: impl FnOnce(T) -> Res) -> Res {
    match r { Ok(v) => f(v), Err(msg) => Res::Panic(msg) }
}

/// A check closure: 0 accepts anything, m accepts exactly the stored value m.
/// The value it was shown is recorded in `seen`.
fn checker(chk: i64, seen: &Cell<Option<u32>>) -> impl FnOnce(&Meta) -> Result<(), u32> + '_ {
    move |m: &Meta| {
        seen.set(Some(m.0));
        if chk == 0 || m.0 == META_BASE + chk as u32 { Ok(()) } else { Err(m.0) }
    }
}

//------------ Events (collected per thread, applied in order) ------------------

enum Ev {
    Evals(u64),
    Trace,
    Nontrivial(String),
    Sample(Value),
    Divergence(String),
    Note(&'static str, u64),
    Violation { sig: String, detail: String, behaviour: Value, observed: Value },
    ToolError(String),
}

//------------ The abstract map kept by the replayer ----------------------------

#[derive(Clone, Debug)]
struct Obj {
    meta: i64,
    len: i64,
    tag: i64,
    data: Vec<u8>,
}

enum Effect { Put(Obj), Remove, Nothing }

struct Run<'a> {
    cfg: &'a ModelCfg,
    beh: &'a Value,
    bi: usize,
    loose: bool,
    reopen_always: bool,
    path: PathBuf,
    archive: Option<Archive<Meta>>,
    names: BTreeMap<String, Vec<u8>>,
    shadow: BTreeMap<String, Obj>,
    concrete: Vec<Value>,
    evs: &'a mut Vec<Ev>,
    evals: u64,
    dead: bool,
}

impl<'a> Run<'a> {
    fn violation(&mut self, si: usize, sig: String, detail: String, observed: Value) {
        self.evs.push(Ev::Violation {
            sig, detail,
            behaviour: json!({
                "behaviour": self.beh, "upto_step": si, "dict": if self.loose { "loose" } else { "tight" },
                "reopen_after_every_step": self.reopen_always, "index": self.bi,
                "concrete_ops": self.concrete,
            }),
            observed,
        });
        self.dead = true;
    }

    fn real_name(&self, n: &str) -> Vec<u8> { self.names[n].clone() }

    fn model_name(&self, real: &[u8]) -> Option<String> {
        self.names.iter().find(|(_, v)| v.as_slice() == real).map(|(k, _)| k.clone())
    }

    fn ar(&mut self) -> &mut Archive<Meta> { self.archive.as_mut().expect("archive open") }

    //--- the real operations

    fn do_publish(&mut self, n: &str, meta: i64, data: &[u8]) -> Res {
        let name = self.real_name(n);
        let m = Meta(META_BASE + meta as u32);
        let ar = self.ar();
        flat(catch(std::panic::AssertUnwindSafe(|| ar.publish(&name, &m, data))), |r| match r {
            Ok(()) => Res::Ok,
            Err(PublishError::AlreadyExists) => Res::Exists,
            Err(PublishError::Archive(e)) => arch_err(e),
        })
    }

    fn access<T>(r: Result<T, AccessError<u32>>, f: impl FnOnce(T) -> Res) -> Res {
        match r {
            Ok(v) => f(v),
            Err(AccessError::NotFound) => Res::NotFound,
            Err(AccessError::Inconsistent(_)) => Res::Inconsistent,
            Err(AccessError::Archive(e)) => arch_err(e),
        }
    }

    fn do_update(&mut self, n: &str, meta: i64, data: &[u8], chk: i64, seen: &Cell<Option<u32>>) -> Res {
        let name = self.real_name(n);
        let m = Meta(META_BASE + meta as u32);
        let ar = self.ar();
        flat(catch(std::panic::AssertUnwindSafe(|| ar.update(&name, &m, data, checker(chk, seen)))),
             |r| Self::access(r, |()| Res::Ok))
    }

    fn do_delete(&mut self, n: &str, chk: i64, seen: &Cell<Option<u32>>) -> Res {
        let name = self.real_name(n);
        let ar = self.ar();
        flat(catch(std::panic::AssertUnwindSafe(|| ar.delete(&name, checker(chk, seen)))),
             |r| Self::access(r, |()| Res::Ok))
    }

    fn do_fetch(&mut self, n: &str) -> Res {
        let name = self.real_name(n);
        let ar = self.ar();
        flat(catch(std::panic::AssertUnwindSafe(|| ar.fetch(&name).map(|c| c.into_owned()))), |r| match r {
            Ok(d) => Res::Data(d),
            Err(FetchError::NotFound) => Res::NotFound,
            Err(FetchError::Archive(e)) => arch_err(e),
        })
    }

    fn do_fetch_bytes(&mut self, n: &str) -> Res {
        let name = self.real_name(n);
        let ar = self.ar();
        flat(catch(std::panic::AssertUnwindSafe(|| ar.fetch_bytes(&name).map(|c| c.to_vec()))), |r| match r {
            Ok(d) => Res::Data(d),
            Err(FetchError::NotFound) => Res::NotFound,
            Err(FetchError::Archive(e)) => arch_err(e),
        })
    }

    fn do_fetch_if(&mut self, n: &str, chk: i64, seen: &Cell<Option<u32>>) -> Res {
        let name = self.real_name(n);
        let ar = self.ar();
        flat(catch(std::panic::AssertUnwindSafe(|| ar.fetch_if(&name, checker(chk, seen)).map(|c| c.into_owned()))),
             |r| Self::access(r, Res::Data))
    }

    fn do_reopen(&mut self) -> Res {
        self.archive = None;
        let path = self.path.clone();
        match catch(move || Archive::<Meta>::open(&path, true)) {
            Ok(Ok(a)) => { self.archive = Some(a); Res::Reopened }
            Ok(Err(e)) => Res::Failed(format!("open: {e}")),
            Err(msg) => Res::Panic(msg),
        }
    }

    //--- what a map gives

    fn map_access(&self, n: &str, chk: i64) -> Res {
        match self.shadow.get(n) {
            None => Res::NotFound,
            Some(o) if chk != 0 && chk != o.meta => Res::Inconsistent,
            Some(_) => Res::Ok,
        }
    }

    fn map_fetch(&self, n: &str, chk: i64) -> Res {
        match self.map_access(n, chk) {
            Res::Ok => Res::Data(self.shadow[n].data.clone()),
            x => x,
        }
    }

    /// Compares a result with the map's; also that a check closure, if it ran, saw the stored meta.
    fn judge(&mut self, si: usize, what: &str, n: &str, got: Res, want: Res, seen: Option<&Cell<Option<u32>>>) -> bool {
        self.evals += 1;
        if got != want {
            let sig = format!("result/{}/want-{}/got-{}", what, want.tag(), got.tag());
            let detail = format!("{what}({n}) returned {} where a map gives {} (step {si})", got.show(), want.show());
            self.violation(si, sig, detail, json!({"op": what, "name": n, "got": got.show(), "want": want.show()}));
            return false
        }
        if let (Some(seen), Some(o)) = (seen, self.shadow.get(n)) {
            if let Some(v) = seen.get() {
                self.evals += 1;
                if v != META_BASE + o.meta as u32 {
                    self.violation(si, format!("check-saw-wrong-meta/{what}"),
                        format!("the check closure of {what}({n}) was shown meta {v:#x}, stored is {:#x}", META_BASE + o.meta as u32),
                        json!({"seen": v}));
                    return false
                }
            }
        }
        true
    }

    //--- everything that must hold between operations

    fn audit(&mut self, si: usize, step: &Value, rng: &mut Rng) {
        let universe: Vec<String> = self.names.keys().cloned().collect();
        // 1. operations that must fail and must not change anything
        for n in &universe {
            let seen = Cell::new(None);
            match self.shadow.get(n).cloned() {
                Some(o) => {
                    let junk = vec![0x5a; 1 + rng.below(600) as usize];
                    let got = self.do_publish(n, 3 - o.meta, &junk);
                    if !self.judge(si, "publish-duplicate", n, got, Res::Exists, None) { return }
                    let wrong = 3 - o.meta;
                    let got = self.do_update(n, wrong, &junk, wrong, &seen);
                    if !self.judge(si, "update-rejecting-check", n, got, Res::Inconsistent, Some(&seen)) { return }
                    let got = self.do_delete(n, wrong, &seen);
                    if !self.judge(si, "delete-rejecting-check", n, got, Res::Inconsistent, Some(&seen)) { return }
                }
                None => {
                    let got = self.do_update(n, 1, b"junk", 0, &seen);
                    if !self.judge(si, "update-missing", n, got, Res::NotFound, None) { return }
                    let got = self.do_delete(n, 0, &seen);
                    if !self.judge(si, "delete-missing", n, got, Res::NotFound, None) { return }
                }
            }
        }
        // 2. verify()
        self.evals += 1;
        let stats = {
            let ar = self.archive.as_ref().expect("archive open");
            match catch(std::panic::AssertUnwindSafe(|| ar.verify())) {
                Ok(Ok(s)) => s,
                Ok(Err(e)) => {
                    let msg = format!("{e}");
                    self.violation(si, format!("verify/{}", msg.replace(' ', "-")),
                        format!("verify() failed after step {si}: {msg}"), json!({"verify": msg}));
                    return
                }
                Err(msg) => {
                    self.violation(si, "verify/panic".into(), format!("verify() panicked after step {si}: {msg}"),
                        json!({"panic": msg}));
                    return
                }
            }
        };
        self.evals += 1;
        if stats.object_count != self.shadow.len() as u64 {
            self.violation(si, "verify/object-count".into(),
                format!("verify() counts {} objects, the map has {}", stats.object_count, self.shadow.len()),
                json!({"object_count": stats.object_count}));
            return
        }
        // 3. the file, front to back
        self.evals += 1;
        let bytes = std::fs::read(&self.path).expect("read archive file");
        let blocks = match raw_walk(&bytes) {
            Ok(b) => b,
            Err(why) => {
                self.violation(si, "tiling/broken".into(),
                    format!("blocks do not tile the file after step {si}: {why}"), json!({"walk": why, "file_len": bytes.len()}));
                return
            }
        };
        let (oc, os) = blocks.iter().filter(|b| !b.empty).fold((0u64, 0u64), |a, b| (a.0 + 1, a.1 + b.size));
        let (ec, es) = blocks.iter().filter(|b| b.empty).fold((0u64, 0u64), |a, b| (a.0 + 1, a.1 + b.size));
        self.evals += 1;
        if (oc, os, ec, es) != (stats.object_count, stats.object_size, stats.empty_count, stats.empty_size) {
            self.violation(si, "accounting/index-vs-file".into(),
                format!("the file holds {oc} objects ({os} bytes) and {ec} empty blocks ({es} bytes) but the index reaches \
                         {} objects ({} bytes) and {} empty blocks ({} bytes)",
                        stats.object_count, stats.object_size, stats.empty_count, stats.empty_size),
                json!({"file": [oc, os, ec, es],
                       "index": [stats.object_count, stats.object_size, stats.empty_count, stats.empty_size]}));
            return
        }
        for b in blocks.iter().filter(|b| !b.empty) {
            self.evals += 1;
            let ok = self.model_name(&b.name).and_then(|n| self.shadow.get(&n).map(|o| o.data.len() as u64 == b.data_len));
            if ok != Some(true) {
                self.violation(si, "tiling/ghost-object".into(),
                    format!("block at {} holds object {:?} ({} bytes) which the map does not have", b.start,
                            String::from_utf8_lossy(&b.name), b.data_len),
                    json!({"block": format!("{b:?}")}));
                return
            }
        }
        // 4. lookups
        for n in &universe {
            let want = self.map_fetch(n, 0);
            let got = if rng.below(2) == 0 { self.do_fetch(n) } else { self.do_fetch_bytes(n) };
            if !self.judge(si, "fetch", n, got, want, None) { return }
            for chk in [1i64, 2, 0] {
                let seen = Cell::new(None);
                let want = self.map_fetch(n, chk);
                let got = self.do_fetch_if(n, chk, &seen);
                if !self.judge(si, "fetch_if", n, got, want, Some(&seen)) { return }
            }
        }
        // 5. objects() is exactly the map
        self.evals += 1;
        let listed: Result<Result<Vec<(Vec<u8>, u32, Vec<u8>)>, ArchiveError>, String> = {
            let ar = self.archive.as_ref().expect("archive open");
            catch(std::panic::AssertUnwindSafe(|| {
                let mut v = Vec::new();
                for item in ar.objects()? {
                    let (n, m, d) = item?;
                    v.push((n.into_owned(), m.0, d.into_owned()));
                }
                Ok(v)
            }))
        };
        let mut listed = match listed {
            Ok(Ok(v)) => v,
            Ok(Err(e)) => { self.violation(si, "objects/error".into(), format!("objects() failed: {e}"), json!({})); return }
            Err(msg) => { self.violation(si, "objects/panic".into(), format!("objects() panicked: {msg}"), json!({})); return }
        };
        listed.sort();
        let mut want: Vec<(Vec<u8>, u32, Vec<u8>)> = self.shadow.iter()
            .map(|(n, o)| (self.names[n].clone(), META_BASE + o.meta as u32, o.data.clone())).collect();
        want.sort();
        if listed != want {
            let show = |v: &Vec<(Vec<u8>, u32, Vec<u8>)>| v.iter()
                .map(|(n, m, d)| json!([String::from_utf8_lossy(n), m, d.len(), hex(&d[..d.len().min(8)])])).collect::<Vec<_>>();
            self.violation(si, "objects/not-the-map".into(),
                format!("objects() does not list exactly the map after step {si}"),
                json!({"listed": show(&listed), "map": show(&want)}));
            return
        }
        // 6. the model's layout and statistics (divergence only)
        let scale = |real: u64| -> i64 { (real / REAL_PAGE) as i64 * self.cfg.page };
        let got_layout: Vec<Value> = blocks.iter().map(|b| {
            let (name, len) = if b.empty { ("-".to_string(), 0) } else {
                let n = self.model_name(&b.name).unwrap_or_else(|| "?".into());
                let l = self.shadow.get(&n).map(|o| o.len).unwrap_or(-1);
                (n, l)
            };
            json!([self.cfg.index_end + scale(b.start - REAL_INDEX_END), scale(b.size), if b.empty { 1 } else { 0 }, name, len])
        }).collect();
        self.evals += 1;
        if Value::Array(got_layout.clone()) != step["lay"]
            || self.cfg.index_end + scale(bytes.len() as u64 - REAL_INDEX_END) != step["fs"].as_i64().unwrap_or(-1)
        {
            self.evs.push(Ev::Note("layout_divergences", 1));
            self.evs.push(Ev::Divergence(format!(
                "layout after step {si} of behaviour {} differs: code {} model {} (ops {})",
                self.bi, Value::Array(got_layout), step["lay"], ops_brief(self.beh, si))));
        }
        let st = &step["st"];
        let got_st = [stats.object_count as i64, scale(stats.object_size), stats.empty_count as i64,
                      scale(stats.empty_size), scale(stats.empty_min), scale(stats.empty_max)];
        let want_st = [st[0].as_i64(), st[1].as_i64(), st[3].as_i64(), st[4].as_i64(), st[5].as_i64(), st[6].as_i64()];
        self.evals += 1;
        if got_st.iter().zip(want_st.iter()).any(|(g, w)| Some(*g) != *w) {
            self.evs.push(Ev::Note("stats_divergences", 1));
            self.evs.push(Ev::Divergence(format!(
                "verify() statistics after step {si} of behaviour {} differ: code {:?} model {} (ops {})",
                self.bi, got_st, st, ops_brief(self.beh, si))));
        }
        // padding is a byte-level quantity: decide it from the concrete lengths
        let want_pad: u64 = self.shadow.iter().map(|(n, o)| {
            let min = REAL_HEADER + self.names[n].len() as u64 + Meta::SIZE as u64 + o.data.len() as u64;
            min.next_multiple_of(REAL_PAGE) - min
        }).sum();
        self.evals += 1;
        if stats.padding_size != want_pad {
            self.evs.push(Ev::Note("stats_divergences", 1));
            self.evs.push(Ev::Divergence(format!("padding after step {si} of behaviour {}: code {} expected {}",
                self.bi, stats.padding_size, want_pad)));
        }
    }
}

fn ops_brief(beh: &Value, upto: usize) -> String {
    beh["steps"].as_array().unwrap()[..=upto].iter().map(|s| {
        let o = &s["op"];
        format!("{}({},{})", o[0].as_str().unwrap_or("?"), o[1].as_str().unwrap_or("?"), o[2])
    }).collect::<Vec<_>>().join(" ")
}

fn fnv(s: &str) -> u64 {
    let mut h = 0xcbf29ce484222325u64;
    for b in s.bytes() { h ^= b as u64; h = h.wrapping_mul(0x100000001b3); }
    h
}

//------------ Names -------------------------------------------------------------

/// Picks real names so that two names share a real bucket iff they share a model bucket.
fn pick_names(cfg: &ModelCfg, key: &[u8; 16], salt: u64) -> BTreeMap<String, Vec<u8>> {
    let mut bucket_of_model: BTreeMap<i64, u64> = BTreeMap::new();
    let mut res = BTreeMap::new();
    for (n, mb) in &cfg.buckets {
        let mut ctr = salt % 1000;
        // names of one length class have one length; the long ones are 1..8 bytes longer
        let width = 7 + if cfg.long.get(n).copied().unwrap_or(false) { 1 + (salt / 1000 % 8) as usize } else { 0 };
        loop {
            let cand = format!("{n}{ctr:0width$}").into_bytes();
            let rb = real_bucket(key, &cand);
            let ok = match bucket_of_model.get(mb) {
                Some(want) => *want == rb,
                None => !bucket_of_model.values().any(|x| *x == rb),
            };
            if ok {
                bucket_of_model.insert(*mb, rb);
                res.insert(n.clone(), cand);
                break
            }
            ctr += 1;
        }
    }
    res
}

fn read_key(path: &Path) -> [u8; 16] {
    let bytes = std::fs::read(path).expect("read archive file");
    bytes[6..22].try_into().unwrap()
}

//------------ One behaviour ------------------------------------------------------

#[allow(clippy::too_many_arguments)]
fn one(evs: &mut Vec<Ev>, dir: &Path, beh: &Value, bi: usize, seed: u64, loose: bool, reopen_always: bool, sample: bool) {
    let cfg = ModelCfg::from_json(beh);
    let path = dir.join("archive.bin");
    let _ = std::fs::remove_file(&path);
    let archive = match catch(|| Archive::<Meta>::create(&path)) {
        Ok(Ok(a)) => a,
        Ok(Err(e)) => { evs.push(Ev::ToolError(format!("cannot create archive in {}: {e}", path.display()))); return }
        Err(msg) => { evs.push(Ev::ToolError(format!("Archive::create panicked: {msg}"))); return }
    };
    let key = read_key(&path);
    let mut rng = Rng::new(seed ^ (bi as u64).wrapping_mul(0x9E37_79B9) ^ if loose { 0x55 } else { 0 });
    let names = pick_names(&cfg, &key, rng.next());
    let steps = beh["steps"].as_array().expect("steps");
    let mut run = Run {
        cfg: &cfg, beh, bi, loose, reopen_always, path: path.clone(), archive: Some(archive),
        names, shadow: BTreeMap::new(), concrete: Vec::new(), evs: &mut *evs, evals: 0, dead: false,
    };
    let mut real_stats = Vec::new();
    for (si, step) in steps.iter().enumerate() {
        let op = step["op"][0].as_str().expect("op");
        let n = step["op"][1].as_str().expect("name").to_string();
        let len = step["op"][2].as_i64().unwrap();
        let meta = step["op"][3].as_i64().unwrap();
        let chk = step["op"][4].as_i64().unwrap();
        let model_r = step["r"][0].as_str().expect("r");
        let seen = Cell::new(None);
        let (got, want, effect) = match op {
            "publish" | "update" => {
                let name_len = run.names[&n].len();
                let bytes = concrete_len(&cfg, len, name_len, loose, &mut rng);
                let mut data = vec![0u8; bytes];
                for (i, b) in data.iter_mut().enumerate() {
                    *b = (rng.next() >> 24) as u8 ^ (i as u8);
                }
                run.concrete.push(json!({"op": op, "name": String::from_utf8_lossy(&run.names[&n]),
                                         "data_bytes": bytes, "meta": META_BASE + meta as u32, "check": chk}));
                if op == "publish" {
                    let want = if run.shadow.contains_key(&n) { Res::Exists } else { Res::Ok };
                    let got = run.do_publish(&n, meta, &data);
                    (got, want, Effect::Put(Obj { meta, len, tag: 0, data }))
                }
                else {
                    let want = run.map_access(&n, chk);
                    let got = run.do_update(&n, meta, &data, chk, &seen);
                    let tag = run.shadow.get(&n).map(|o| 1 - o.tag).unwrap_or(0);
                    (got, want, Effect::Put(Obj { meta, len, tag, data }))
                }
            }
            "delete" => {
                run.concrete.push(json!({"op": op, "name": String::from_utf8_lossy(&run.names[&n]), "check": chk}));
                let want = run.map_access(&n, chk);
                (run.do_delete(&n, chk, &seen), want, Effect::Remove)
            }
            "fetch" => {
                run.concrete.push(json!({"op": op, "name": String::from_utf8_lossy(&run.names[&n])}));
                (run.do_fetch(&n), run.map_fetch(&n, 0), Effect::Nothing)
            }
            "fetch_if" => {
                run.concrete.push(json!({"op": op, "name": String::from_utf8_lossy(&run.names[&n]), "check": chk}));
                let want = run.map_fetch(&n, chk);
                (run.do_fetch_if(&n, chk, &seen), want, Effect::Nothing)
            }
            "reopen" => {
                run.concrete.push(json!({"op": op}));
                (run.do_reopen(), Res::Reopened, Effect::Nothing)
            }
            x => { run.evs.push(Ev::ToolError(format!("unknown operation {x}"))); return }
        };
        if !run.judge(si, op, &n, got, want.clone(), Some(&seen)) { break }
        if want == Res::Ok {
            match effect {
                Effect::Put(o) => { run.shadow.insert(n.clone(), o); }
                Effect::Remove => { run.shadow.remove(&n); }
                Effect::Nothing => { }
            }
        }
        // the specification and the replayer's map must agree on what a map is
        let want_tag = want.tag();
        if want_tag != model_r {
            run.evs.push(Ev::ToolError(format!("behaviour {bi} step {si}: the specification expects {model_r}, the map semantics give {want_tag}")));
            return
        }
        if let Res::Data(_) = want {
            let o = &run.shadow[&n];
            if step["r"][1].as_i64() != Some(o.len) || step["r"][2].as_i64() != Some(o.tag) {
                run.evs.push(Ev::ToolError(format!("behaviour {bi} step {si}: fetched data differs between specification and replayer map")));
                return
            }
        }
        let model_map: BTreeMap<String, (i64, i64, i64)> = step["map"].as_array().expect("map").iter()
            .map(|e| (e[0].as_str().unwrap().to_string(), (e[1].as_i64().unwrap(), e[2].as_i64().unwrap(), e[3].as_i64().unwrap())))
            .collect();
        let my_map: BTreeMap<String, (i64, i64, i64)> = run.shadow.iter().map(|(k, o)| (k.clone(), (o.meta, o.len, o.tag))).collect();
        if model_map != my_map {
            run.evs.push(Ev::ToolError(format!("behaviour {bi} step {si}: abstract maps differ: spec {model_map:?} replayer {my_map:?}")));
            return
        }
        if reopen_always && op != "reopen" {
            let got = run.do_reopen();
            if !run.judge(si, "reopen", "-", got, Res::Reopened, None) { break }
        }
        run.audit(si, step, &mut rng);
        if run.dead { break }
        // non-trivial: the step took a branch other than plain append / plain delete at the head of a chain
        let p = step["path"].as_str().unwrap_or("");
        if ["exact", "split", "coalesce", "truncate", "inplace", "mid"].iter().any(|k| p.contains(k)) || op == "reopen" {
            let prefix = format!("{}|{}|{}", ops_brief(beh, si), loose, reopen_always);
            run.evs.push(Ev::Nontrivial(format!("{:016x}", fnv(&prefix))));
        }
        if sample {
            if let Some(ar) = run.archive.as_ref() {
                if let Ok(s) = ar.verify() {
                    real_stats.push(json!({"objects": s.object_count, "object_bytes": s.object_size, "padding": s.padding_size,
                                           "empty_blocks": s.empty_count, "empty_bytes": s.empty_size}));
                }
            }
        }
    }
    if !run.dead {
        // final: close, open again, everything must still be there
        let last = steps.len().saturating_sub(1);
        let got = run.do_reopen();
        if run.judge(last, "reopen-final", "-", got, Res::Reopened, None) && !steps.is_empty() {
            run.audit(last, &steps[last], &mut rng);
        }
    }
    let evals = run.evals;
    let dead = run.dead;
    let concrete = std::mem::take(&mut run.concrete);
    drop(run);
    evs.push(Ev::Evals(evals));
    evs.push(Ev::Trace);
    if sample && !dead {
        evs.push(Ev::Sample(json!({
            "ops": steps.iter().map(|s| json!({"op": s["op"], "expected": s["r"], "model_path": s["path"],
                                              "model_layout_after": s["lay"]})).collect::<Vec<_>>(),
            "concrete_ops": concrete,
            "verify_after_each_step": real_stats,
            "dictionary": if loose { "loose" } else { "tight" },
        })));
    }
    let _ = std::fs::remove_file(&path);
}

//------------ Self test of the binding --------------------------------------------

/// The hand-written SipHash must be the archive's: publish one object and find
/// its position in the predicted index slot of the file.
fn self_test(dir: &Path) -> Result<(), String> {
    let path = dir.join("selftest.bin");
    let _ = std::fs::remove_file(&path);
    let mut ar = Archive::<Meta>::create(&path).map_err(|e| format!("create: {e}"))?;
    let key = read_key(&path);
    for name in [&b"a"[..], b"a0000001", b"rsync://example.net/module/some/long/name.roa"] {
        let slot = 30 + real_bucket(&key, name) * 8;
        ar.publish(name, &Meta(1), b"x").map_err(|e| format!("publish: {e:?}"))?;
        let bytes = std::fs::read(&path).map_err(|e| format!("{e}"))?;
        let blocks = raw_walk(&bytes)?;
        let pos = blocks.iter().find(|b| b.name == name).ok_or("published object not found by the raw walk")?.start;
        let ptr = u64::from_ne_bytes(bytes[slot as usize..slot as usize + 8].try_into().unwrap());
        if ptr != pos {
            return Err(format!("index slot predicted for {:?} holds {ptr}, the object is at {pos}: \
                                hash or file layout differ from what the replayer assumes", String::from_utf8_lossy(name)))
        }
    }
    drop(ar);
    let _ = std::fs::remove_file(&path);
    Ok(())
}

//------------ main -----------------------------------------------------------------

impl Ev {
    fn to_json(&self) -> Value {
        match self {
            Ev::Evals(n) => json!({"k": "evals", "n": n}),
            Ev::Trace => json!({"k": "trace"}),
            Ev::Nontrivial(s) => json!({"k": "nontrivial", "s": s}),
            Ev::Sample(v) => json!({"k": "sample", "v": v}),
            Ev::Divergence(s) => json!({"k": "divergence", "s": s}),
            Ev::Note(key, n) => json!({"k": "note", "key": key, "n": n}),
            Ev::Violation { sig, detail, behaviour, observed } =>
                json!({"k": "violation", "sig": sig, "detail": detail, "behaviour": behaviour, "observed": observed}),
            Ev::ToolError(s) => json!({"k": "toolerror", "s": s}),
        }
    }
}

/// Applies one event (as JSON) to the report; returns a tool error text if it is one.
fn apply(rep: &mut Report, v: &Value) -> Option<String> {
    let text = |k: &str| v[k].as_str().unwrap_or("").to_string();
    match v["k"].as_str().unwrap_or("") {
        "evals" => rep.evals(PID, v["n"].as_u64().unwrap_or(0)),
        "trace" => rep.trace(PID),
        "nontrivial" => rep.nontrivial(PID, text("s")),
        "sample" => rep.sample(PID, v["v"].clone()),
        "divergence" => rep.divergence(PID, text("s")),
        "note" => rep.add_note(PID, &text("key"), v["n"].as_u64().unwrap_or(0)),
        "violation" => rep.violation(PID, &text("sig"), text("detail"), v["behaviour"].clone(), v["observed"].clone()),
        "toolerror" => return Some(text("s")),
        _ => { }
    }
    None
}

/// Replays the behaviours with index in [lo, hi) of the input file.
fn run_range(args: &Args, dir: &Path, lo: usize, hi: usize, total: usize) -> Vec<Ev> {
    use std::io::BufRead;
    // how often the extra replays are done: every behaviour is replayed with the tight dictionary and the
    // reopens the behaviour prescribes; every `loose_every`-th also with the loose dictionary, every
    // `reopen_every`-th also with a reopen after every operation (0 = never).
    let loose_every = args.opt_usize("loose_every", 4);
    let reopen_every = args.opt_usize("reopen_every", 4);
    let seed = args.seed;
    let n = total;
    let mut evs = Vec::new();
    let mut div = 0usize;
    let f = std::fs::File::open(args.input.as_deref().expect("--in")).expect("behaviour file");
    let mut bi = 0usize;
    for line in std::io::BufReader::new(f).lines() {
        let line = line.expect("read behaviour file");
        if line.trim().is_empty() { continue }
        let idx = bi;
        bi += 1;
        if idx < lo { continue }
        if idx >= hi { break }
        let beh: Value = match serde_json::from_str(&line) {
            Ok(v) => v,
            Err(e) => { evs.push(Ev::ToolError(format!("bad behaviour line {idx}: {e}"))); break }
        };
        let before = evs.len();
        // `single=dict,mode,index`: re-run one recorded replay exactly (driver option --replay)
        if let Some(single) = args.opt("single") {
            let parts: Vec<&str> = single.split(',').collect();
            let index: usize = parts.get(2).and_then(|x| x.parse().ok()).unwrap_or(0);
            one(&mut evs, dir, &beh, index, seed, parts.first() == Some(&"loose"), parts.get(1) == Some(&"always"), true);
            continue
        }
        let sample = idx % (n / 3).max(1) == (n / 7) % (n / 3).max(1);
        one(&mut evs, dir, &beh, idx, seed, false, false, sample);
        if loose_every > 0 && (idx + seed as usize) % loose_every == 0 {
            one(&mut evs, dir, &beh, idx, seed, true, false, false);
        }
        if reopen_every > 0 && (idx + seed as usize) % reopen_every == 1 % reopen_every {
            one(&mut evs, dir, &beh, idx, seed, idx % 2 == 0, true, false);
        }
        // keep the event stream small under mass divergence
        let mut kept = Vec::new();
        for ev in evs.drain(before..) {
            if let Ev::Divergence(_) = ev {
                div += 1;
                if div > 20 { continue }
            }
            kept.push(ev);
        }
        evs.extend(kept);
    }
    evs
}

fn count_lines(path: &str) -> usize {
    use std::io::BufRead;
    let f = std::fs::File::open(path).unwrap_or_else(|e| {
        eprintln!("vh: cannot open {path}: {e}");
        std::process::exit(2)
    });
    std::io::BufReader::new(f).lines().filter(|l| l.as_ref().map(|l| !l.trim().is_empty()).unwrap_or(false)).count()
}

/// The archive memory-maps its file and re-maps it on every append and
/// truncation; unmapping is expensive in a multi-threaded process, so the
/// replay is spread over single-threaded child processes (`--opt procs=N`).
pub fn main(args: &Args) -> i32 {
    let mut rep = Report::new("archive");
    rep.touch(PID);
    std::panic::set_hook(Box::new(|_| {}));
    let input = args.input.clone().expect("--in");
    let base = match args.opt("tmpdir") {
        Some(d) => PathBuf::from(d),
        None => if Path::new("/dev/shm").is_dir() { PathBuf::from("/dev/shm") } else { std::env::temp_dir() },
    };
    let top = tempfile::Builder::new().prefix("vh-archive-").tempdir_in(&base)
        .or_else(|_| tempfile::Builder::new().prefix("vh-archive-").tempdir())
        .expect("temp dir");
    let n = count_lines(&input);

    // worker mode
    if let Some(part) = args.opt("part") {
        let (lo, hi) = part.split_once('-').expect("part=lo-hi");
        let (lo, hi): (usize, usize) = (lo.parse().expect("lo"), hi.parse().expect("hi"));
        let evs = run_range(args, top.path(), lo, hi, n);
        let out = args.opt("events").expect("events=path");
        let mut text = String::new();
        for ev in &evs {
            text.push_str(&ev.to_json().to_string());
            text.push('\n');
        }
        std::fs::write(out, text).expect("write events");
        return 0
    }

    if let Err(why) = self_test(top.path()) {
        eprintln!("vh archive: self test failed: {why}");
        return 2
    }
    let procs = args.opt_usize("procs", 8).max(1).min(n.max(1));
    let mut tool_error: Option<String> = None;
    if procs == 1 {
        for ev in run_range(args, top.path(), 0, n, n) {
            if let Some(t) = apply(&mut rep, &ev.to_json()) { tool_error.get_or_insert(t); }
        }
    }
    else {
        let exe = std::env::current_exe().expect("current exe");
        let chunk = n.div_ceil(procs).max(1);
        let mut children = Vec::new();
        for i in 0..procs {
            let (lo, hi) = (i * chunk, ((i + 1) * chunk).min(n));
            if lo >= hi { break }
            let events = top.path().join(format!("events-{i}.ndjson"));
            let mut cmd = std::process::Command::new(&exe);
            cmd.arg("archive").arg("--in").arg(&input).arg("--seed").arg(args.seed.to_string())
                .arg("--tier").arg(&args.tier);
            for (k, v) in &args.opts {
                if k != "procs" { cmd.arg("--opt").arg(format!("{k}={v}")); }
            }
            cmd.arg("--opt").arg(format!("part={lo}-{hi}"))
               .arg("--opt").arg(format!("events={}", events.display()));
            children.push((cmd.spawn().expect("spawn replay worker"), events));
        }
        for (mut child, events) in children {
            let status = child.wait().expect("wait for replay worker");
            if !status.success() {
                tool_error.get_or_insert(format!("replay worker failed: {status}"));
                continue
            }
            for v in read_behaviours(events.to_str().expect("utf-8 path")) {
                if let Some(t) = apply(&mut rep, &v) { tool_error.get_or_insert(t); }
            }
        }
    }
    rep.add_note(PID, "behaviours_read", n as u64);
    if let Some(t) = tool_error {
        eprintln!("vh archive: {t}");
        return 2
    }
    rep.write(args)
}
